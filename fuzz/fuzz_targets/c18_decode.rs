#![no_main]
use libfuzzer_sys::fuzz_target;

fuzz_target!(|data: &[u8]| {
	kverif::fuzzing::c18_fuzz_one(data);
});
