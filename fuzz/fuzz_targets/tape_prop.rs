#![no_main]
use libfuzzer_sys::fuzz_target;

// bytes = choice tape of the property named by KVERIF_FUZZ_PROP; generator and oracle are the
// ones of the proptest-driven check (harness/src/fuzzing.rs)
fuzz_target!(|data: &[u8]| {
	kverif::fuzzing::tape_fuzz_one(data);
});
