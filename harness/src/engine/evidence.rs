//! Per-worker result files and the merged `/verif/evidence/<ID>.json`.

use serde_json::{json, Map, Value};
use std::collections::{BTreeMap, BTreeSet};

#[derive(Default)]
pub struct WorkerResult {
	pub evaluations: u64,
	pub nontrivial_hashes: BTreeSet<u64>,
	pub classes: BTreeMap<String, u64>,
	pub excluded: BTreeMap<String, u64>,
	pub counters: BTreeMap<String, u64>,
	pub known_reproduced: BTreeMap<String, u64>,
	pub samples: Vec<String>,
	pub enumerations: Vec<Value>,
	pub sweeps: Vec<Value>,
	pub violations: Vec<Value>,
	pub inconclusive: Vec<String>,
	pub wall_s: f64,
	pub exhaustive_all: bool,
}

impl WorkerResult {
	pub fn to_json(&self) -> Value {
		json!({
			"evaluations": self.evaluations,
			"nontrivial_hashes": self.nontrivial_hashes.iter().map(|h| format!("{h:016x}")).collect::<Vec<_>>(),
			"classes": self.classes,
			"excluded": self.excluded,
			"counters": self.counters,
			"known_reproduced": self.known_reproduced,
			"samples": self.samples,
			"enumerations": self.enumerations,
			"sweeps": self.sweeps,
			"violations": self.violations,
			"inconclusive": self.inconclusive,
			"wall_s": self.wall_s,
		})
	}

	pub fn merge_json(&mut self, v: &Value) {
		self.evaluations += v["evaluations"].as_u64().unwrap_or(0);
		if let Some(a) = v["nontrivial_hashes"].as_array() {
			for h in a {
				if let Some(h) = h.as_str().and_then(|s| u64::from_str_radix(s, 16).ok()) {
					self.nontrivial_hashes.insert(h);
				}
			}
		}
		let merge_map = |dst: &mut BTreeMap<String, u64>, src: &Value| {
			if let Some(m) = src.as_object() {
				for (k, n) in m {
					*dst.entry(k.clone()).or_insert(0) += n.as_u64().unwrap_or(0);
				}
			}
		};
		merge_map(&mut self.classes, &v["classes"]);
		merge_map(&mut self.excluded, &v["excluded"]);
		merge_map(&mut self.counters, &v["counters"]);
		merge_map(&mut self.known_reproduced, &v["known_reproduced"]);
		if let Some(a) = v["samples"].as_array() {
			for s in a {
				if self.samples.len() < 8 {
					if let Some(s) = s.as_str() {
						self.samples.push(s.to_string());
					}
				}
			}
		}
		for key in ["enumerations", "sweeps", "violations"] {
			if let Some(a) = v[key].as_array() {
				let dst = match key {
					"enumerations" => &mut self.enumerations,
					"sweeps" => &mut self.sweeps,
					_ => &mut self.violations,
				};
				dst.extend(a.iter().cloned());
			}
		}
		if let Some(a) = v["inconclusive"].as_array() {
			for s in a {
				self.inconclusive.push(s.as_str().unwrap_or("").to_string());
			}
		}
	}
}

/// merge per-shard enumeration / sweep records with the same name
pub fn merge_named(records: &[Value]) -> Vec<Value> {
	let mut by_name: BTreeMap<String, Map<String, Value>> = BTreeMap::new();
	for r in records {
		let name = r["name"].as_str().unwrap_or("?").to_string();
		let e = by_name.entry(name.clone()).or_insert_with(|| {
			let mut m = Map::new();
			m.insert("name".into(), json!(name));
			m.insert("evaluations".into(), json!(0));
			m.insert("nontrivial".into(), json!(0));
			m.insert("exhaustive".into(), json!(true));
			m
		});
		let add = |m: &mut Map<String, Value>, k: &str| {
			let cur = m[k].as_u64().unwrap_or(0);
			m.insert(k.into(), json!(cur + r[k].as_u64().unwrap_or(0)));
		};
		add(e, "evaluations");
		add(e, "nontrivial");
		let ex = e["exhaustive"].as_bool().unwrap_or(false) && r["exhaustive"].as_bool().unwrap_or(false);
		e.insert("exhaustive".into(), json!(ex));
		if let Some(n) = r.get("note") {
			e.insert("note".into(), n.clone());
		}
	}
	by_name.into_values().map(Value::Object).collect()
}
