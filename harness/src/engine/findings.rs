//! The committed known-findings file (`/verif/KNOWN_FINDINGS.txt`), never written at run time.
//!
//! Line format (one finding per line, `#` starts a comment):
//!   known: property=<id> signature=<sig> witness=<path relative to /verif> what=<free text>
//!   fixed: property=<id> <commit> <what failed> ## signature=<sig> witness=<path>

use std::path::Path;

#[derive(Debug, Clone)]
pub struct Finding {
	pub property: String,
	pub fixed: bool,
	pub commit: String,
	pub signature: String,
	pub witness: String,
	pub what: String,
}

pub fn load(verif_root: &Path) -> Vec<Finding> {
	let path = verif_root.join("KNOWN_FINDINGS.txt");
	let Ok(text) = std::fs::read_to_string(&path) else {
		return vec![];
	};
	let mut out = vec![];
	for line in text.lines() {
		let line = line.trim();
		if line.is_empty() || line.starts_with('#') {
			continue;
		}
		let field = |s: &str, key: &str| -> String {
			s.split_whitespace()
				.find_map(|w| w.strip_prefix(key).map(|v| v.to_string()))
				.unwrap_or_default()
		};
		if let Some(rest) = line.strip_prefix("known:") {
			let what = rest.split_once("what=").map(|(_, w)| w.trim().to_string()).unwrap_or_default();
			let head = rest.split_once("what=").map(|(h, _)| h).unwrap_or(rest);
			out.push(Finding {
				property: field(head, "property="),
				fixed: false,
				commit: String::new(),
				signature: field(head, "signature="),
				witness: field(head, "witness="),
				what,
			});
		} else if let Some(rest) = line.strip_prefix("fixed:") {
			let (head, tail) = rest.split_once("##").unwrap_or((rest, ""));
			let mut words = head.split_whitespace();
			let property = words.next().and_then(|w| w.strip_prefix("property=")).unwrap_or("").to_string();
			let commit = words.next().unwrap_or("").to_string();
			let what = words.collect::<Vec<_>>().join(" ");
			out.push(Finding {
				property,
				fixed: true,
				commit,
				signature: field(tail, "signature="),
				witness: field(tail, "witness="),
				what,
			});
		}
	}
	out
}
