pub mod evidence;
pub mod findings;
pub mod monitor;
pub mod runner;
pub mod shrink;
pub mod tape;

use std::collections::BTreeMap;

pub use tape::Src;

#[derive(Debug, Clone, Copy, PartialEq, Eq)]
pub enum Tier {
	Quick,
	Thorough,
}

impl Tier {
	pub fn name(self) -> &'static str {
		match self {
			Tier::Quick => "quick",
			Tier::Thorough => "thorough",
		}
	}
	pub fn pick<T>(self, quick: T, thorough: T) -> T {
		match self {
			Tier::Quick => quick,
			Tier::Thorough => thorough,
		}
	}
}

/// A property violation found by a case.
#[derive(Debug, Clone)]
pub struct Failure {
	/// which oracle fired (stable identifier)
	pub oracle: String,
	/// structured signature used to match known findings: oracle + site / case class
	pub sig: String,
	/// human readable detail
	pub detail: String,
}

impl Failure {
	pub fn new(oracle: &str, sig: impl Into<String>, detail: impl Into<String>) -> Self {
		let sig: String = sig.into();
		let sig: String = sig
			.chars()
			.map(|c| if c.is_whitespace() { '_' } else { c })
			.collect();
		Self {
			oracle: oracle.to_string(),
			sig,
			detail: detail.into(),
		}
	}
	/// signature == oracle
	pub fn simple(oracle: &str, detail: impl Into<String>) -> Self {
		Self::new(oracle, oracle, detail)
	}
	pub fn panic(prefix: &str, info: &(String, String)) -> Self {
		// numbers in panic messages vary from case to case: normalise them
		let mut msg = String::new();
		let mut in_num = false;
		for c in info.1.chars() {
			if c.is_ascii_digit() || (in_num && (c == '.' || c == 'e' || c == '-')) {
				if !in_num {
					msg.push('#');
				}
				in_num = true;
			} else {
				in_num = false;
				msg.push(c);
			}
			if msg.len() >= 60 {
				break;
			}
		}
		let loc = strip_line(&info.0);
		let loc = match loc.find("/library/") {
			Some(i) if loc.starts_with("/rustc/") => &loc[i + 1..],
			_ => loc,
		};
		Self::new(
			"no-panic",
			format!("{prefix}panic:{}:{}", loc, msg),
			format!("panic at {}: {}", info.0, info.1),
		)
	}
}

/// "file.rs:123" -> "file.rs" (line numbers move under unrelated edits)
fn strip_line(loc: &str) -> &str {
	loc.rsplit_once(':').map(|(f, _)| f).unwrap_or(loc)
}

/// What a passing case reports.
#[derive(Debug, Clone, Default)]
pub struct CaseInfo {
	pub nontrivial: bool,
	pub classes: Vec<&'static str>,
	/// hash of the decoded choices (`Src::choice_hash`); 0 = use the tape hash
	pub hash: u64,
}

impl CaseInfo {
	pub fn new(src: &Src, nontrivial: bool, classes: Vec<&'static str>) -> Self {
		Self {
			nontrivial,
			classes,
			hash: src.choice_hash(),
		}
	}
}

/// Per-run context handed to every case.
pub struct Ctx {
	pub tier: Tier,
	/// generate inputs inside known-finding classes too (used for witness replay / find-known)
	pub include_known: bool,
	/// describe the decoded case (for samples / replay output)
	pub want_desc: bool,
	/// print the description as soon as it is known (replay mode: visible even if the case hangs)
	pub echo_desc: bool,
	pub desc: String,
	/// how many times a known-finding class was excluded by construction
	pub excluded: BTreeMap<&'static str, u64>,
	/// extra named counters a property may bump (reported under coverage.counters)
	pub counters: BTreeMap<&'static str, u64>,
}

impl Ctx {
	pub fn new(tier: Tier) -> Self {
		Self {
			tier,
			include_known: false,
			want_desc: false,
			echo_desc: false,
			desc: String::new(),
			excluded: BTreeMap::new(),
			counters: BTreeMap::new(),
		}
	}
	/// Records that a value fell in a known-finding class. Returns `true` when the caller must
	/// replace it (exclusion by construction), `false` when known classes are being generated.
	pub fn exclude(&mut self, class: &'static str) -> bool {
		// KVERIF_INCLUDE=class1,class2 switches single exclusions off (exploration aid)
		let env_included = std::env::var("KVERIF_INCLUDE").map(|v| v.split(',').any(|c| c == class)).unwrap_or(false);
		if self.include_known || env_included {
			false
		} else {
			*self.excluded.entry(class).or_insert(0) += 1;
			true
		}
	}
	pub fn count(&mut self, name: &'static str, n: u64) {
		*self.counters.entry(name).or_insert(0) += n;
	}
	pub fn describe(&mut self, f: impl FnOnce() -> String) {
		if self.want_desc {
			self.desc = f();
			if self.echo_desc {
				println!("case: {}", self.desc);
			}
		}
	}
}

pub type CaseResult = Result<CaseInfo, Failure>;

/// An enumerated (non-random) sub-space of a property.
pub struct Enumeration {
	pub name: &'static str,
	pub tapes: Box<dyn Iterator<Item = Vec<u32>> + Send>,
	pub exhaustive: bool,
}

pub trait Property: Sync + Send {
	fn id(&self) -> &'static str;
	/// generation + non-triviality rule, for the evidence file
	fn rule(&self) -> &'static str;
	fn level(&self) -> &'static str {
		"exploration"
	}
	fn assumptions(&self) -> Vec<String> {
		vec![]
	}
	/// maximum tape length handed to proptest
	fn tape_len(&self, tier: Tier) -> usize;
	/// number of random cases (total over all shards)
	fn cases(&self, tier: Tier) -> u64;
	/// run one case
	fn run(&self, tape: &[u32], ctx: &mut Ctx) -> CaseResult;
	/// bounded-exhaustive / enumerated parts; sharded by the runner (every n-th tape)
	fn enumerations(&self, _tier: Tier) -> Vec<Enumeration> {
		vec![]
	}
	/// Checks that are not per-case (e.g. full f32 sweeps). Returns failures with a tape that
	/// reproduces them through `run` (or an empty tape when `detail` is self-contained).
	fn sweep(&self, _tier: Tier, _shard: usize, _nshards: usize, _ctx: &mut Ctx) -> SweepResult {
		SweepResult::default()
	}
	/// watchdog limit for one case
	fn case_time_limit_s(&self) -> u64 {
		60
	}
	/// a hang (watchdog) is a violation of this property (otherwise: inconclusive, exit 2)
	fn hang_is_violation(&self) -> bool {
		false
	}
	/// run cases in worker processes one at a time (needed when a case observes process-wide state)
	fn max_shards(&self) -> usize {
		16
	}
}

#[derive(Default)]
pub struct SweepResult {
	pub evaluations: u64,
	pub nontrivial: u64,
	pub exhaustive: bool,
	pub note: String,
	pub failures: Vec<(Vec<u32>, Failure)>,
}

pub fn fail<T>(oracle: &str, detail: impl Into<String>) -> Result<T, Failure> {
	Err(Failure::simple(oracle, detail))
}

#[macro_export]
macro_rules! ensure {
	($cond:expr, $oracle:expr, $($arg:tt)*) => {
		if !($cond) {
			return Err($crate::engine::Failure::simple($oracle, format!($($arg)*)));
		}
	};
}
