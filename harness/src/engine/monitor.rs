//! Process-wide monitors: counting allocator (armed per thread), panic capture, watchdog.

use std::alloc::{GlobalAlloc, Layout, System};
use std::cell::{Cell, RefCell};
use std::panic::{self, AssertUnwindSafe};
use std::sync::atomic::{AtomicBool, AtomicU64, Ordering};
use std::sync::Mutex;
use std::time::{Duration, Instant};

pub struct CountingAlloc;

thread_local! {
	static ARMED: Cell<bool> = const { Cell::new(false) };
	static ALLOCS: Cell<u64> = const { Cell::new(0) };
	static DEALLOCS: Cell<u64> = const { Cell::new(0) };
	static IN_CALLBACK: Cell<bool> = const { Cell::new(false) };
	static FIRST_BT: RefCell<Option<String>> = const { RefCell::new(None) };
	static LAST_PANIC: RefCell<Option<(String, String)>> = const { RefCell::new(None) };
	static CATCHING: Cell<u32> = const { Cell::new(0) };
}

static WANT_BT: AtomicBool = AtomicBool::new(false);

fn note(is_alloc: bool) {
	// `try_with`: thread-locals may already be destroyed during thread teardown
	let _ = ARMED.try_with(|armed| {
		if armed.get() {
			if is_alloc {
				let _ = ALLOCS.try_with(|c| c.set(c.get() + 1));
			} else {
				let _ = DEALLOCS.try_with(|c| c.set(c.get() + 1));
			}
			if WANT_BT.load(Ordering::Relaxed) {
				armed.set(false);
				let _ = FIRST_BT.try_with(|bt| {
					if let Ok(mut bt) = bt.try_borrow_mut() {
						if bt.is_none() {
							*bt = Some(format!(
								"{} at:\n{}",
								if is_alloc { "alloc" } else { "dealloc" },
								std::backtrace::Backtrace::force_capture()
							));
						}
					}
				});
				armed.set(true);
			}
		}
	});
}

unsafe impl GlobalAlloc for CountingAlloc {
	unsafe fn alloc(&self, layout: Layout) -> *mut u8 {
		note(true);
		System.alloc(layout)
	}
	unsafe fn dealloc(&self, ptr: *mut u8, layout: Layout) {
		note(false);
		System.dealloc(ptr, layout)
	}
	unsafe fn alloc_zeroed(&self, layout: Layout) -> *mut u8 {
		note(true);
		System.alloc_zeroed(layout)
	}
	unsafe fn realloc(&self, ptr: *mut u8, layout: Layout, new_size: usize) -> *mut u8 {
		note(true);
		System.realloc(ptr, layout, new_size)
	}
}

pub fn want_backtraces(on: bool) {
	WANT_BT.store(on, Ordering::Relaxed);
}

/// Result of running a closure as an "audio callback".
#[derive(Debug, Default, Clone)]
pub struct Guarded {
	pub allocs: u64,
	pub deallocs: u64,
	pub panic: Option<(String, String)>, // (location, message)
	pub elapsed: Duration,
	pub first_alloc_bt: Option<String>,
}

/// Runs `f` with the allocation counter armed and the in-callback flag set, catching panics.
pub fn as_callback<R>(f: impl FnOnce() -> R) -> (Option<R>, Guarded) {
	ALLOCS.with(|c| c.set(0));
	DEALLOCS.with(|c| c.set(0));
	FIRST_BT.with(|b| *b.borrow_mut() = None);
	LAST_PANIC.with(|p| *p.borrow_mut() = None);
	let start = Instant::now();
	IN_CALLBACK.with(|c| c.set(true));
	ARMED.with(|c| c.set(true));
	let r = panic::catch_unwind(AssertUnwindSafe(f));
	ARMED.with(|c| c.set(false));
	IN_CALLBACK.with(|c| c.set(false));
	let elapsed = start.elapsed();
	let mut g = Guarded {
		allocs: ALLOCS.with(|c| c.get()),
		deallocs: DEALLOCS.with(|c| c.get()),
		panic: None,
		elapsed,
		first_alloc_bt: FIRST_BT.with(|b| b.borrow_mut().take()),
	};
	match r {
		Ok(v) => (Some(v), g),
		Err(payload) => {
			// allocations made while unwinding/formatting the panic are not the callback's
			let info = LAST_PANIC.with(|p| p.borrow_mut().take());
			let info = info.unwrap_or_else(|| ("?".into(), payload_msg(&payload)));
			drop(payload);
			g.panic = Some(info);
			(None, g)
		}
	}
}

pub fn in_callback() -> bool {
	IN_CALLBACK.try_with(|c| c.get()).unwrap_or(false)
}

fn payload_msg(p: &Box<dyn std::any::Any + Send>) -> String {
	if let Some(s) = p.downcast_ref::<&str>() {
		s.to_string()
	} else if let Some(s) = p.downcast_ref::<String>() {
		s.clone()
	} else {
		"<non-string panic>".into()
	}
}

/// Catches a panic anywhere (caller-thread code of kira, harness code), returning (location, message).
pub fn catch<R>(f: impl FnOnce() -> R) -> Result<R, (String, String)> {
	LAST_PANIC.with(|p| *p.borrow_mut() = None);
	CATCHING.with(|c| c.set(c.get() + 1));
	let r = panic::catch_unwind(AssertUnwindSafe(f));
	CATCHING.with(|c| c.set(c.get() - 1));
	match r {
		Ok(v) => Ok(v),
		Err(payload) => {
			let info = LAST_PANIC.with(|p| p.borrow_mut().take());
			Err(info.unwrap_or_else(|| ("?".into(), payload_msg(&payload))))
		}
	}
}

static VERBOSE_PANICS: AtomicBool = AtomicBool::new(false);

pub fn verbose_panics(on: bool) {
	VERBOSE_PANICS.store(on, Ordering::Relaxed);
}

/// Installs the panic hook that records location and message per thread and stays quiet.
pub fn install_panic_hook() {
	panic::set_hook(Box::new(|info| {
		let was_armed = ARMED.try_with(|c| c.replace(false)).unwrap_or(false);
		let loc = info
			.location()
			.map(|l| {
				// keep only the path below the crate roots so signatures are stable
				let f = l.file();
				let f = f.rsplit_once("/crates/").map(|(_, r)| r).unwrap_or(f);
				// registry sources: drop the index directory name too
				let f = f.rsplit_once("/registry/src/").map(|(_, r)| r.split_once('/').map(|(_, r)| r).unwrap_or(r)).unwrap_or(f);
				format!("{}:{}", f, l.line())
			})
			.unwrap_or_else(|| "?".into());
		let msg = if let Some(s) = info.payload().downcast_ref::<&str>() {
			s.to_string()
		} else if let Some(s) = info.payload().downcast_ref::<String>() {
			s.clone()
		} else {
			"<non-string panic>".into()
		};
		let caught = CATCHING.try_with(|c| c.get() > 0).unwrap_or(false) || IN_CALLBACK.try_with(|c| c.get()).unwrap_or(false);
		if VERBOSE_PANICS.load(Ordering::Relaxed) || !caught {
			eprintln!("[panic] {loc}: {msg}");
		}
		let _ = LAST_PANIC.try_with(|p| {
			if let Ok(mut p) = p.try_borrow_mut() {
				if p.is_none() {
					*p = Some((loc, msg));
				}
			}
		});
		if was_armed {
			let _ = ARMED.try_with(|c| c.set(true));
		}
	}));
}

// ---------------------------------------------------------------------------------------------
// watchdog: a case that does not return is reported by a helper thread, which then exits the
// process (a thread stuck in an endless loop cannot be recovered in-process).

static CASE_START_MS: AtomicU64 = AtomicU64::new(0);
static CURRENT_TAPE: Mutex<Option<Vec<u32>>> = Mutex::new(None);
static EPOCH: Mutex<Option<Instant>> = Mutex::new(None);

fn now_ms() -> u64 {
	let mut e = EPOCH.lock().unwrap_or_else(|e| e.into_inner());
	let epoch = *e.get_or_insert_with(Instant::now);
	epoch.elapsed().as_millis() as u64 + 1
}

pub fn case_begin(tape: &[u32]) {
	*CURRENT_TAPE.lock().unwrap_or_else(|e| e.into_inner()) = Some(tape.to_vec());
	CASE_START_MS.store(now_ms(), Ordering::SeqCst);
}

pub fn case_end() {
	CASE_START_MS.store(0, Ordering::SeqCst);
}

/// Starts the watchdog thread; `on_hang` receives the tape of the case that has been running
/// for more than `limit` and must not return (it should report and exit the process).
pub fn start_watchdog(limit: Duration, on_hang: impl Fn(Vec<u32>, Duration) + Send + 'static) {
	std::thread::spawn(move || loop {
		std::thread::sleep(Duration::from_millis(100));
		let start = CASE_START_MS.load(Ordering::SeqCst);
		if start == 0 {
			continue;
		}
		let now = now_ms();
		if now.saturating_sub(start) > limit.as_millis() as u64 {
			let tape = CURRENT_TAPE
				.lock()
				.unwrap_or_else(|e| e.into_inner())
				.clone()
				.unwrap_or_default();
			on_hang(tape, Duration::from_millis(now - start));
			std::process::exit(3);
		}
	});
}
