//! Parent / worker orchestration, proptest driving, replay, witness handling.

use super::evidence::{merge_named, WorkerResult};
use super::findings::{self, Finding};
use super::monitor;
use super::shrink::shrink;
use super::tape::tape_hash;
use super::{CaseInfo, CaseResult, Ctx, Failure, Property, Tier};
use proptest::collection::vec;
use proptest::prelude::any;
use proptest::test_runner::{Config, RngAlgorithm, TestCaseError, TestError, TestRng, TestRunner};
use serde_json::{json, Value};
use std::cell::RefCell;
use std::io::{BufRead, BufReader, Write};
use std::path::{Path, PathBuf};
use std::process::{Command, Stdio};
use std::time::{Duration, Instant};

pub fn verif_root() -> PathBuf {
	PathBuf::from(std::env::var("KVERIF_ROOT").unwrap_or_else(|_| "/verif".into()))
}

pub fn seed_from_env() -> u64 {
	std::env::var("VERIF_SEED")
		.ok()
		.and_then(|s| s.trim().parse::<i128>().ok())
		.map(|v| v as u64)
		.unwrap_or(0)
}

/// Runs one case with panic capture; a panic outside an audio callback is reported as a
/// caller-thread panic (kira code called by the harness) - harness bugs show up the same way and
/// are fixed in the harness.
pub fn run_case(prop: &dyn Property, tape: &[u32], ctx: &mut Ctx) -> CaseResult {
	monitor::case_begin(tape);
	let r = monitor::catch(|| prop.run(tape, ctx));
	monitor::case_end();
	match r {
		Ok(r) => r,
		Err(info) => Err(Failure::panic("caller-", &info)),
	}
}

fn replay_json(prop: &dyn Property, seed: u64, tape: &[u32], desc: &str, f: &Failure) -> Value {
	json!({
		"property": prop.id(),
		"seed": seed,
		"tape": tape,
		"case": desc,
		"failure": {"oracle": f.oracle, "signature": f.sig, "detail": f.detail},
	})
}

fn write_replay(prop: &dyn Property, seed: u64, tier: Tier, tape: &[u32], desc: &str, f: &Failure) -> PathBuf {
	let dir = verif_root().join("replays");
	let _ = std::fs::create_dir_all(&dir);
	let path = dir.join(format!("{}-{:016x}.json", prop.id(), tape_hash(tape)));
	let mut v = replay_json(prop, seed, tape, desc, f);
	// (some generators size their cases by tier: the tape decodes as recorded only under the same tier)
	v["tier"] = json!(tier.name());
	let _ = std::fs::write(&path, serde_json::to_string_pretty(&v).unwrap());
	path
}

/// saves a failing tape found outside the runner (fuzz stage) as an ordinary replay file
pub fn save_replay(prop: &dyn Property, tape: &[u32], f: &Failure) -> PathBuf {
	let desc = describe(prop, tape, Tier::Quick, false);
	write_replay(prop, seed_from_env(), Tier::Quick, tape, &desc, f)
}

pub fn read_tape(path: &Path) -> Result<Vec<u32>, String> {
	let text = std::fs::read_to_string(path).map_err(|e| format!("{}: {e}", path.display()))?;
	let v: Value = serde_json::from_str(&text).map_err(|e| format!("{}: {e}", path.display()))?;
	let arr = v["tape"].as_array().ok_or("replay file has no tape")?;
	Ok(arr.iter().map(|x| x.as_u64().unwrap_or(0) as u32).collect())
}

fn describe(prop: &dyn Property, tape: &[u32], tier: Tier, include_known: bool) -> String {
	let mut ctx = Ctx::new(tier);
	ctx.include_known = include_known;
	ctx.want_desc = true;
	let _ = run_case(prop, tape, &mut ctx);
	ctx.desc
}

struct WorkerState<'a> {
	prop: &'a dyn Property,
	tier: Tier,
	seed: u64,
	known: Vec<Finding>,
	res: WorkerResult,
	ctx: Ctx,
	stop: bool,
}

impl<'a> WorkerState<'a> {
	fn absorb_ctx(&mut self) {
		for (k, v) in std::mem::take(&mut self.ctx.excluded) {
			*self.res.excluded.entry(k.to_string()).or_insert(0) += v;
		}
		for (k, v) in std::mem::take(&mut self.ctx.counters) {
			*self.res.counters.entry(k.to_string()).or_insert(0) += v;
		}
	}

	fn is_known(&self, f: &Failure) -> bool {
		self.known.iter().any(|k| !k.fixed && k.signature == f.sig)
	}

	/// Returns Ok(info) for a pass or a known finding, Err for a new violation.
	fn eval(&mut self, tape: &[u32], count: bool) -> Result<CaseInfo, Failure> {
		let r = run_case(self.prop, tape, &mut self.ctx);
		self.absorb_ctx();
		// a case during which the harness lost hold of a helper thread decides nothing
		let r = if crate::probes::streamctl::take_lost_control() { Err(Failure::new("inconclusive", "inconclusive", "a decoder thread could not be brought under the harness's control in time")) } else { r };
		match r {
			Ok(info) => {
				if count {
					self.res.evaluations += 1;
					for c in &info.classes {
						*self.res.classes.entry(c.to_string()).or_insert(0) += 1;
					}
					if info.nontrivial {
						// distinctness: hash of the decoded choices (two tapes that decode to the
						// same case count once)
						let h = if info.hash != 0 { info.hash } else { tape_hash(tape) };
						let fresh = self.res.nontrivial_hashes.insert(h);
						if fresh && self.res.samples.len() < 3 {
							let d = describe(self.prop, tape, self.tier, false);
							if !d.is_empty() {
								self.res.samples.push(d);
							}
						}
					}
				}
				Ok(info)
			}
			// "setup": the harness could not even build the scenario (a generator that asks for
			// more than the harness provides) - a defect of the check, never a verdict about the code
			// (also: the process ran out of threads - the operating system's limit, not kira's doing)
			Err(f) if f.oracle == "inconclusive" || f.oracle == "setup" || f.sig.contains("failed_to_spawn_thread") => {
				// the harness could not establish the case's preconditions (e.g. a helper thread
				// was not scheduled in time): not a verdict about the code
				if self.res.inconclusive.len() < 5 {
					self.res.inconclusive.push(f.detail.clone());
				}
				Ok(CaseInfo::default())
			}
			Err(f) => {
				if self.is_known(&f) {
					if count {
						self.res.evaluations += 1;
						*self.res.known_reproduced.entry(f.sig.clone()).or_insert(0) += 1;
					}
					Ok(CaseInfo::default())
				} else {
					Err(f)
				}
			}
		}
	}

	fn report_violation(&mut self, tape: Vec<u32>, f: Failure, do_shrink: bool) {
		let prop = self.prop;
		// a failure that is itself a hang (a stuck helper thread keeps spinning after each
		// reproduction) is reported as found
		let do_shrink = do_shrink && f.oracle != "returns-promptly";
		let (tape, f) = if do_shrink {
			let tier = self.tier;
			let known: Vec<String> = self.known.iter().filter(|k| !k.fixed).map(|k| k.signature.clone()).collect();
			let last = RefCell::new(f.clone());
			let (small, _) = shrink(
				tape,
				|cand| {
					let mut ctx = Ctx::new(tier);
					match run_case(prop, cand, &mut ctx) {
						Err(f2) if !known.contains(&f2.sig) => {
							*last.borrow_mut() = f2;
							true
						}
						_ => false,
					}
				},
				3000,
			);
			// `last` is the failure of the last accepted candidate == `small`
			let mut ctx = Ctx::new(tier);
			let f = match run_case(prop, &small, &mut ctx) {
				Err(f2) => f2,
				Ok(_) => last.into_inner(),
			};
			(small, f)
		} else {
			(tape, f)
		};
		let desc = describe(prop, &tape, self.tier, false);
		let path = write_replay(prop, self.seed, self.tier, &tape, &desc, &f);
		println!("VIOLATION property={} replay={}", prop.id(), path.display());
		println!("NOTE {} oracle={} sig={} :: {}", prop.id(), f.oracle, f.sig, f.detail.replace('\n', " | "));
		let _ = std::io::stdout().flush();
		self.res.violations.push(json!({
			"replay": path.display().to_string(),
			"oracle": f.oracle,
			"signature": f.sig,
			"detail": f.detail,
		}));
		self.stop = true;
	}
}

/// Runs `kverif replay <ID> <witness>` in a child; `Some(true)` if it is still running after
/// `limit` (the hang reproduces), `Some(false)` if it ended by itself.
fn probe_hang(prop: &dyn Property, witness: &Path, limit: Duration) -> Option<bool> {
	let exe = std::env::current_exe().ok()?;
	let mut child = Command::new(exe).arg("replay").arg(prop.id()).arg(witness).stdout(Stdio::null()).stderr(Stdio::null()).spawn().ok()?;
	let start = Instant::now();
	loop {
		match child.try_wait() {
			Ok(Some(_)) => return Some(false),
			Ok(None) => {
				if start.elapsed() > limit {
					let _ = child.kill();
					let _ = child.wait();
					return Some(true);
				}
				std::thread::sleep(Duration::from_millis(20));
			}
			Err(_) => return None,
		}
	}
}

fn shard_rng(seed: u64, shard: usize, id: &str) -> TestRng {
	let mut bytes = [0u8; 32];
	bytes[..8].copy_from_slice(&seed.to_le_bytes());
	bytes[8..16].copy_from_slice(&(shard as u64).to_le_bytes());
	for (i, b) in id.bytes().enumerate().take(8) {
		bytes[16 + i] = b;
	}
	bytes[24..32].copy_from_slice(&0x6b76657269662d31u64.to_le_bytes());
	TestRng::from_seed(RngAlgorithm::ChaCha, &bytes)
}

pub fn worker(prop: &dyn Property, tier: Tier, seed: u64, shard: usize, nshards: usize, out: &Path) -> i32 {
	let start = Instant::now();
	monitor::install_panic_hook();
	let hang_violation = prop.hang_is_violation();
	let id = prop.id().to_string();
	let out_path = out.to_path_buf();
	monitor::start_watchdog(Duration::from_secs(prop.case_time_limit_s()), move |tape, elapsed| {
		// runs on the watchdog thread; the case thread is stuck
		let dir = verif_root().join("replays");
		let _ = std::fs::create_dir_all(&dir);
		let path = dir.join(format!("{}-{:016x}.json", id, tape_hash(&tape)));
		let v = json!({
			"property": id, "seed": seed, "tape": tape,
			"case": "(case did not return; see tape)",
			"failure": {"oracle": "returns-promptly", "signature": "hang", "detail": format!("case still running after {elapsed:?}")},
		});
		let _ = std::fs::write(&path, serde_json::to_string_pretty(&v).unwrap());
		if hang_violation {
			println!("VIOLATION property={} replay={}", id, path.display());
			println!("NOTE {} oracle=returns-promptly sig=hang :: case still running after {:?}", id, elapsed);
			let _ = std::fs::write(&out_path, json!({"evaluations":0,"violations":[{"replay":path.display().to_string(),"oracle":"returns-promptly","signature":"hang","detail":"watchdog"}]}).to_string());
			let _ = std::io::stdout().flush();
			std::process::exit(1);
		} else {
			println!("NOTE {} INCONCLUSIVE watchdog: case still running after {:?}, tape saved to {}", id, elapsed, path.display());
			let _ = std::io::stdout().flush();
			std::process::exit(2);
		}
	});

	let all = findings::load(&verif_root());
	let known: Vec<Finding> = all.into_iter().filter(|f| f.property == prop.id()).collect();
	let mut st = WorkerState {
		prop,
		tier,
		seed,
		known,
		res: WorkerResult::default(),
		ctx: Ctx::new(tier),
		stop: false,
	};

	// 1. witnesses (shard 0 only)
	if shard == 0 {
		for k in st.known.clone() {
			if k.witness.is_empty() {
				continue;
			}
			let path = verif_root().join(&k.witness);
			let tape = match read_tape(&path) {
				Ok(t) => t,
				Err(e) => {
					println!("NOTE {} witness unreadable: {e}", prop.id());
					st.res.inconclusive.push(format!("witness unreadable: {e}"));
					continue;
				}
			};
			if !k.fixed && k.signature == "hang" {
				// a known hang is replayed in a child process under a short limit
				match probe_hang(prop, &path, Duration::from_secs(4)) {
					Some(true) => {
						println!("KNOWN-FINDING: property={} {} [signature={}]", prop.id(), k.what, k.signature);
						*st.res.known_reproduced.entry(k.signature.clone()).or_insert(0) += 1;
					}
					Some(false) => println!("NOTE {} known finding no longer reproduces: {} ({})", prop.id(), k.signature, k.witness),
					None => st.res.inconclusive.push("could not run the hang probe".into()),
				}
				continue;
			}
			// a witness is a tape: when the generators change it may decode to another case than the
			// one it was recorded for (the recorded Debug text is kept in the file)
			let recorded = std::fs::read_to_string(&path).ok().and_then(|t| serde_json::from_str::<Value>(&t).ok()).and_then(|v| v["case"].as_str().map(|s| s.to_string())).unwrap_or_default();
			if !recorded.is_empty() && !recorded.starts_with("(case did not return") {
				let now = describe(prop, &tape, Tier::Quick, true);
				if !now.is_empty() && now != recorded {
					println!("NOTE {} witness {} no longer decodes to its recorded case (the generator changed since); it is replayed as it decodes now", prop.id(), k.witness);
					*st.res.counters.entry("stale-witnesses".to_string()).or_insert(0) += 1;
				}
			}
			// (witnesses were recorded under the quick tier and are decoded under it in every tier)
			let mut ctx = Ctx::new(Tier::Quick);
			ctx.include_known = true;
			let r = run_case(prop, &tape, &mut ctx);
			if k.fixed {
				st.res.evaluations += 1;
				if let Err(f) = r {
					// a fixed finding is back
					st.report_violation(tape, f, false);
				}
			} else {
				match r {
					Err(f) if f.sig == k.signature => {
						println!("KNOWN-FINDING: property={} {} [signature={}]", prop.id(), k.what, k.signature);
						*st.res.known_reproduced.entry(k.signature.clone()).or_insert(0) += 1;
					}
					Err(f) => {
						// the witness fails differently: that is a different violation
						st.report_violation(tape, f, false);
					}
					Ok(_) => {
						println!("NOTE {} known finding no longer reproduces: {}", prop.id(), k.signature);
					}
				}
			}
		}
	}

	// 1b. regression tapes (shard 0 only): inputs on which this check once raised a false alarm
	// (replays/regress/<ID>-*.json, found by the fuzz stage or a soak); they must pass
	if shard == 0 && !st.stop {
		if let Ok(rd) = std::fs::read_dir(verif_root().join("replays").join("regress")) {
			let mut files: Vec<PathBuf> = rd.flatten().map(|e| e.path()).filter(|p| p.file_name().and_then(|n| n.to_str()).map(|n| n.starts_with(&format!("{}-", prop.id())) && n.ends_with(".json")).unwrap_or(false)).collect();
			files.sort();
			for path in files {
				let Ok(tape) = read_tape(&path) else { continue };
				let t = match std::fs::read_to_string(&path).ok().and_then(|t| serde_json::from_str::<Value>(&t).ok()).and_then(|v| v["tier"].as_str().map(|s| s.to_string())).as_deref() {
					Some("thorough") => Tier::Thorough,
					_ => Tier::Quick,
				};
				let mut ctx = Ctx::new(t);
				let r = run_case(prop, &tape, &mut ctx);
				st.res.evaluations += 1;
				*st.res.counters.entry("regression-tapes-replayed".to_string()).or_insert(0) += 1;
				if let Err(f) = r {
					if f.oracle != "inconclusive" && f.oracle != "setup" && !st.is_known(&f) {
						st.report_violation(tape, f, false);
						break;
					}
				}
			}
		}
	}

	// 2. enumerations
	if !st.stop {
		for en in prop.enumerations(tier) {
			let mut n = 0u64;
			let mut nt = 0u64;
			for (i, tape) in en.tapes.enumerate() {
				if i % nshards != shard {
					continue;
				}
				match st.eval(&tape, true) {
					Ok(info) => {
						n += 1;
						if info.nontrivial {
							nt += 1;
						}
					}
					Err(f) => {
						st.report_violation(tape, f, true);
						break;
					}
				}
			}
			st.res.enumerations.push(json!({"name": en.name, "evaluations": n, "nontrivial": nt, "exhaustive": en.exhaustive && !st.stop}));
			if st.stop {
				break;
			}
		}
	}

	// 3. sweeps
	if !st.stop {
		let mut ctx = Ctx::new(tier);
		let sw = prop.sweep(tier, shard, nshards, &mut ctx);
		if sw.evaluations > 0 || !sw.failures.is_empty() {
			st.res.evaluations += sw.evaluations;
			st.res.sweeps.push(json!({"name": "sweep", "evaluations": sw.evaluations, "nontrivial": sw.nontrivial, "exhaustive": sw.exhaustive, "note": sw.note}));
		}
		for (tape, f) in sw.failures.into_iter().take(1) {
			if !st.is_known(&f) {
				st.report_violation(tape, f, false);
			}
		}
	}

	// 4. random cases through proptest
	if !st.stop {
		let total = prop.cases(tier);
		let cases = (total + nshards as u64 - 1) / nshards as u64;
		if cases > 0 {
			let config = Config {
				cases: cases as u32,
				failure_persistence: None,
				max_shrink_iters: 4000,
				max_shrink_time: 60_000,
				verbose: 0,
				..Config::default()
			};
			let mut runner = TestRunner::new_with_rng(config, shard_rng(seed, shard, prop.id()));
			let strategy = vec(any::<u32>(), 0..=prop.tape_len(tier));
			let cell = RefCell::new(&mut st);
			let first_failure: RefCell<Option<Failure>> = RefCell::new(None);
			let result = runner.run(&strategy, |tape| {
				let mut st = cell.borrow_mut();
				// once a failure has been seen the closure is being re-run for shrinking:
				// stop counting (evaluations must count generated cases only)
				let counting = first_failure.borrow().is_none();
				match st.eval(&tape, counting) {
					Ok(_) => Ok(()),
					Err(f) => {
						let msg = f.sig.clone();
						*first_failure.borrow_mut() = Some(f);
						Err(TestCaseError::fail(msg))
					}
				}
			});
			drop(cell);
			match result {
				Ok(()) => {}
				Err(TestError::Fail(_, tape)) => {
					let f = first_failure.into_inner().unwrap_or_else(|| Failure::simple("unknown", "proptest failure"));
					st.report_violation(tape, f, true);
				}
				Err(TestError::Abort(reason)) => {
					st.res.inconclusive.push(format!("proptest aborted: {reason}"));
				}
			}
		}
	}

	st.res.wall_s = start.elapsed().as_secs_f64();
	let _ = std::fs::write(out, st.res.to_json().to_string());
	if !st.res.violations.is_empty() {
		1
	} else if !st.res.inconclusive.is_empty() {
		2
	} else {
		0
	}
}

pub fn parent(prop: &dyn Property, tier: Tier, seed: u64) -> i32 {
	let start = Instant::now();
	let exe = std::env::current_exe().expect("current_exe");
	let ncpu = std::thread::available_parallelism().map(|n| n.get()).unwrap_or(4);
	let nshards = 16usize.min(prop.max_shards());
	let parallel = ncpu.min(nshards).max(1);
	let tmp = std::env::temp_dir().join(format!("kverif-{}-{}-{}", prop.id(), std::process::id(), seed));
	let _ = std::fs::create_dir_all(&tmp);

	let mut pending: Vec<usize> = (0..nshards).rev().collect();
	let mut running: Vec<(usize, std::process::Child, std::thread::JoinHandle<Vec<String>>)> = vec![];
	let mut lines: Vec<String> = vec![];
	let mut codes: Vec<(usize, i32)> = vec![];
	loop {
		while running.len() < parallel {
			let Some(shard) = pending.pop() else { break };
			let out = tmp.join(format!("shard-{shard}.json"));
			let mut child = Command::new(&exe)
				.arg("worker")
				.arg(prop.id())
				.arg(tier.name())
				.arg(seed.to_string())
				.arg(shard.to_string())
				.arg(nshards.to_string())
				.arg(&out)
				.stdout(Stdio::piped())
				.stderr(Stdio::inherit())
				.spawn()
				.expect("spawn worker");
			let stdout = child.stdout.take().unwrap();
			let h = std::thread::spawn(move || {
				let mut v = vec![];
				for line in BufReader::new(stdout).lines().map_while(Result::ok) {
					v.push(line);
				}
				v
			});
			running.push((shard, child, h));
		}
		if running.is_empty() {
			break;
		}
		let mut i = 0;
		let mut progressed = false;
		while i < running.len() {
			if let Ok(Some(status)) = running[i].1.try_wait() {
				let (shard, _child, h) = running.remove(i);
				let out_lines = h.join().unwrap_or_default();
				lines.extend(out_lines);
				codes.push((shard, status.code().unwrap_or(-1)));
				progressed = true;
			} else {
				i += 1;
			}
		}
		if !progressed {
			std::thread::sleep(Duration::from_millis(20));
		}
	}

	let mut merged = WorkerResult::default();
	let mut inconclusive: Vec<String> = vec![];
	for (shard, code) in &codes {
		let out = tmp.join(format!("shard-{shard}.json"));
		match std::fs::read_to_string(&out).ok().and_then(|t| serde_json::from_str::<Value>(&t).ok()) {
			Some(v) => merged.merge_json(&v),
			None => inconclusive.push(format!("shard {shard} wrote no result (exit code {code})")),
		}
		if *code != 0 && *code != 1 {
			inconclusive.push(format!("shard {shard} exit code {code}"));
		}
	}
	inconclusive.extend(merged.inconclusive.iter().cloned());
	let _ = std::fs::remove_dir_all(&tmp);

	// relay lines: KNOWN-FINDING once per text, VIOLATION at most 3 per signature
	let mut seen = std::collections::BTreeSet::new();
	for l in &lines {
		if l.starts_with("KNOWN-FINDING:") {
			if seen.insert(l.clone()) {
				println!("{l}");
			}
		}
	}
	let mut viol_count = 0;
	for l in &lines {
		if l.starts_with("VIOLATION ") {
			viol_count += 1;
			println!("{l}");
		} else if l.starts_with("NOTE ") {
			println!("{l}");
		}
	}

	let enums = merge_named(&merged.enumerations);
	let sweeps = merge_named(&merged.sweeps);
	let exhaustive_parts: Vec<&Value> = enums.iter().chain(sweeps.iter()).filter(|e| e["exhaustive"] == json!(true)).collect();
	let evidence = json!({
		"property_id": prop.id(),
		"tier": tier.name(),
		"seed": seed as i64,
		"level": prop.level(),
		"coverage": {
			"evaluations": merged.evaluations,
			"distinct_nontrivial": merged.nontrivial_hashes.len(),
			"rule": prop.rule(),
			"samples": merged.samples,
			"classes": merged.classes,
			"counters": merged.counters,
			"excluded_by_construction": merged.excluded,
			"known_findings_reproduced": merged.known_reproduced,
			"enumerations": enums,
			"sweeps": sweeps,
			"exhaustive": false,
			"exhaustive_subspaces": exhaustive_parts.iter().map(|e| e["name"].clone()).collect::<Vec<_>>(),
			"shards": nshards,
			"random_cases_requested": prop.cases(tier),
		},
		"assumptions": prop.assumptions(),
		"wall_s": start.elapsed().as_secs_f64(),
		"violations": viol_count,
		"violation_details": merged.violations,
		"inconclusive": inconclusive,
	});
	let evdir = verif_root().join("evidence");
	let _ = std::fs::create_dir_all(&evdir);
	let evpath = evdir.join(format!("{}.json", prop.id()));
	let _ = std::fs::write(&evpath, serde_json::to_string_pretty(&evidence).unwrap());

	println!(
		"{} {} seed={} evaluations={} distinct_nontrivial={} violations={} wall={:.1}s",
		prop.id(),
		tier.name(),
		seed,
		merged.evaluations,
		merged.nontrivial_hashes.len(),
		viol_count,
		start.elapsed().as_secs_f64()
	);
	if viol_count > 0 {
		1
	} else if !inconclusive.is_empty() {
		for i in &inconclusive {
			println!("NOTE {} INCONCLUSIVE {}", prop.id(), i);
		}
		2
	} else {
		0
	}
}

/// `./check <ID> --replay <file>`: strict replay of one tape.
pub fn replay(prop: &dyn Property, path: &Path, tier: Tier) -> i32 {
	monitor::install_panic_hook();
	monitor::verbose_panics(true);
	monitor::want_backtraces(true);
	let tape = match read_tape(path) {
		Ok(t) => t,
		Err(e) => {
			eprintln!("{e}");
			return 2;
		}
	};
	let include_known = path.components().any(|c| c.as_os_str() == "known");
	let tier = match std::fs::read_to_string(path).ok().and_then(|t| serde_json::from_str::<Value>(&t).ok()).and_then(|v| v["tier"].as_str().map(|s| s.to_string())).as_deref() {
		Some("thorough") => Tier::Thorough,
		Some("quick") => Tier::Quick,
		_ => tier,
	};
	let mut ctx = Ctx::new(tier);
	ctx.include_known = include_known;
	ctx.want_desc = true;
	ctx.echo_desc = true;
	aux_watchdog(prop);
	let r = run_case(prop, &tape, &mut ctx);
	match r {
		Ok(info) => {
			println!("PASS nontrivial={} classes={:?}", info.nontrivial, info.classes);
			0
		}
		Err(f) => {
			println!("FAIL oracle={} sig={}\n{}", f.oracle, f.sig, f.detail);
			println!("VIOLATION property={} replay={}", prop.id(), path.display());
			1
		}
	}
}


fn aux_watchdog(prop: &dyn Property) {
	let id = prop.id().to_string();
	monitor::start_watchdog(Duration::from_secs(prop.case_time_limit_s()), move |tape, elapsed| {
		let path = std::env::temp_dir().join(format!("kverif-hang-{}-{:016x}.json", id, tape_hash(&tape)));
		let v = json!({"property": id, "seed": 0, "tape": tape, "case": "(hang)", "failure": {"oracle": "returns-promptly", "signature": "hang", "detail": format!("{elapsed:?}")}});
		let _ = std::fs::write(&path, serde_json::to_string_pretty(&v).unwrap());
		println!("HANG: case still running after {elapsed:?}; tape saved to {}", path.display());
	});
}

/// Searches (with known classes included) for a tape whose failure has the given signature and
/// writes the shrunk tape as a witness file. Used when building / refreshing KNOWN_FINDINGS.txt.
pub fn find_signature(prop: &dyn Property, sig_prefix: &str, seed: u64, max_cases: u64, out: &Path, include_known: bool) -> i32 {
	monitor::install_panic_hook();
	aux_watchdog(prop);
	let tier = Tier::Quick;
	let config = Config {
		cases: max_cases as u32,
		failure_persistence: None,
		max_shrink_iters: 4000,
		max_shrink_time: 60_000,
		..Config::default()
	};
	let mut runner = TestRunner::new_with_rng(config, shard_rng(seed, 999, prop.id()));
	let strategy = vec(any::<u32>(), 0..=prop.tape_len(tier));
	let seen: RefCell<std::collections::BTreeMap<String, u64>> = RefCell::new(Default::default());
	let matches = |tape: &[u32]| -> Option<Failure> {
		let mut ctx = Ctx::new(tier);
		ctx.include_known = include_known;
		match run_case(prop, tape, &mut ctx) {
			Err(f) => {
				*seen.borrow_mut().entry(f.sig.clone()).or_insert(0) += 1;
				if f.sig.starts_with(sig_prefix) {
					Some(f)
				} else {
					None
				}
			}
			Ok(_) => None,
		}
	};
	let result = runner.run(&strategy, |tape| {
		if matches(&tape).is_some() {
			Err(TestCaseError::fail("found"))
		} else {
			Ok(())
		}
	});
	match result {
		Err(TestError::Fail(_, tape)) => {
			let (small, _) = shrink(tape, |c| matches(c).is_some(), 5000);
			let mut f = None;
			for _ in 0..8 {
				f = matches(&small);
				if f.is_some() {
					break;
				}
			}
			let Some(f) = f else {
				println!("shrunk tape does not reproduce reliably (nondeterministic case)");
				return 1;
			};
			let desc = describe(prop, &small, tier, include_known);
			let v = replay_json(prop, seed, &small, &desc, &f);
			if let Some(dir) = out.parent() {
				let _ = std::fs::create_dir_all(dir);
			}
			std::fs::write(out, serde_json::to_string_pretty(&v).unwrap()).unwrap();
			println!("found {} -> {}\ncase: {}\ndetail: {}", f.sig, out.display(), desc, f.detail);
			0
		}
		_ => {
			println!("no failure with signature prefix {sig_prefix:?} in {max_cases} cases; signatures seen:");
			for (s, n) in seen.borrow().iter() {
				println!("  {n:6} {s}");
			}
			1
		}
	}
}

/// Runs random cases with known classes included and prints a histogram of failure signatures
/// (exploration aid, not a registered check).
pub fn survey(prop: &dyn Property, seed: u64, cases: u64, include_known: bool) -> i32 {
	monitor::install_panic_hook();
	aux_watchdog(prop);
	let tier = Tier::Quick;
	let config = Config {
		cases: cases as u32,
		failure_persistence: None,
		..Config::default()
	};
	let mut runner = TestRunner::new_with_rng(config, shard_rng(seed, 998, prop.id()));
	let strategy = vec(any::<u32>(), 0..=prop.tape_len(tier));
	let seen: RefCell<std::collections::BTreeMap<String, (u64, String, usize)>> = RefCell::new(Default::default());
	let nt = std::cell::Cell::new(0u64);
	let classes: RefCell<std::collections::BTreeMap<&'static str, u64>> = RefCell::new(Default::default());
	let start = Instant::now();
	let _ = runner.run(&strategy, |tape| {
		let mut ctx = Ctx::new(tier);
		ctx.include_known = include_known;
		match run_case(prop, &tape, &mut ctx) {
			Err(f) => {
				let mut s = seen.borrow_mut();
				let e = s.entry(f.sig.clone()).or_insert((0, f.detail.clone(), tape.len()));
				e.0 += 1;
				if tape.len() < e.2 {
					e.1 = f.detail.clone();
					e.2 = tape.len();
				}
			}
			Ok(info) => {
				if info.nontrivial {
					nt.set(nt.get() + 1);
				}
				for c in info.classes {
					*classes.borrow_mut().entry(c).or_insert(0) += 1;
				}
			}
		}
		Ok(())
	});
	println!("{} cases in {:.1}s, nontrivial {}", cases, start.elapsed().as_secs_f64(), nt.get());
	println!("classes: {:?}", classes.borrow());
	for (s, (n, d, _)) in seen.borrow().iter() {
		let d: String = d.chars().take(300).collect();
		println!("  {n:6} {s}\n         e.g. {d}");
	}
	0
}

/// Shrinks a tape whose case hangs: candidates run in child processes under a short limit.
pub fn shrink_hang(prop: &dyn Property, input: &Path, out: &Path, limit_s: u64) -> i32 {
	let tape = match read_tape(input) {
		Ok(t) => t,
		Err(e) => {
			eprintln!("{e}");
			return 2;
		}
	};
	let include_known = input.components().any(|c| c.as_os_str() == "known");
	let dir = out.parent().map(|p| p.to_path_buf()).unwrap_or_else(|| PathBuf::from("."));
	let _ = std::fs::create_dir_all(&dir);
	let cand_path = dir.join(format!(".cand-{}.json", std::process::id()));
	let _ = include_known;
	let (small, evals) = shrink(
		tape,
		|cand| {
			let v = json!({"property": prop.id(), "seed": 0, "tape": cand});
			std::fs::write(&cand_path, v.to_string()).unwrap();
			probe_hang(prop, &cand_path, Duration::from_secs(limit_s)) == Some(true)
		},
		400,
	);
	let _ = std::fs::remove_file(&cand_path);
	let v = json!({
		"property": prop.id(), "seed": 0, "tape": small,
		"case": "(case does not return; replay prints the decoded program before running it)",
		"failure": {"oracle": "returns-promptly", "signature": "hang", "detail": format!("still running after {limit_s} s")},
	});
	std::fs::write(out, serde_json::to_string_pretty(&v).unwrap()).unwrap();
	println!("shrunk to {} entries in {} evaluations -> {}", small.len(), evals, out.display());
	0
}
