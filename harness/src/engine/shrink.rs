//! In-house tape shrinker, run after proptest's own shrinking: truncate the tail, delete
//! blocks, zero entries, halve entries, to a fixpoint under an evaluation cap.

pub fn shrink(
	mut tape: Vec<u32>,
	mut still_fails: impl FnMut(&[u32]) -> bool,
	max_evals: usize,
) -> (Vec<u32>, usize) {
	let mut evals = 0usize;
	// (a wall-clock cap next to the evaluation cap: reproducing a failure can itself be slow, e.g.
	// "the thread has not ended after 2 s"; an unfinished shrink only leaves a longer replay)
	let started = std::time::Instant::now();
	let budget = std::time::Duration::from_secs(std::env::var("KVERIF_SHRINK_S").ok().and_then(|v| v.parse().ok()).unwrap_or(90));
	let mut try_candidate = |cand: &[u32], evals: &mut usize| -> bool {
		if *evals >= max_evals {
			return false;
		}
		if started.elapsed() > budget {
			*evals = max_evals;
			return false;
		}
		*evals += 1;
		still_fails(cand)
	};
	loop {
		let mut progress = false;
		// strip trailing zeros (free: an exhausted tape reads as zeros)
		while tape.last() == Some(&0) {
			tape.pop();
		}
		// truncate tail by halves
		let mut cut = tape.len() / 2;
		while cut >= 1 && evals < max_evals {
			if tape.len() >= cut {
				let cand = tape[..tape.len() - cut].to_vec();
				if try_candidate(&cand, &mut evals) {
					tape = cand;
					progress = true;
					continue;
				}
			}
			cut /= 2;
		}
		// delete blocks
		for block in [8usize, 4, 2, 1] {
			let mut i = 0;
			while i + block <= tape.len() && evals < max_evals {
				let mut cand = tape.clone();
				cand.drain(i..i + block);
				if try_candidate(&cand, &mut evals) {
					tape = cand;
					progress = true;
				} else {
					i += 1;
				}
			}
		}
		// zero, then halve, then decrement entries
		for i in 0..tape.len() {
			if evals >= max_evals {
				break;
			}
			if tape[i] == 0 {
				continue;
			}
			let mut cand = tape.clone();
			cand[i] = 0;
			if try_candidate(&cand, &mut evals) {
				tape = cand;
				progress = true;
				continue;
			}
			// binary search towards the smallest failing value
			let mut lo = 0u32; // known passing (or untested 0 failed to fail)
			let mut hi = tape[i]; // known failing
			let mut steps = 0;
			while hi - lo > 1 && steps < 12 && evals < max_evals {
				let mid = lo + (hi - lo) / 2;
				let mut cand = tape.clone();
				cand[i] = mid;
				if try_candidate(&cand, &mut evals) {
					hi = mid;
				} else {
					lo = mid;
				}
				steps += 1;
			}
			if hi != tape[i] {
				tape[i] = hi;
				progress = true;
			}
		}
		if !progress || evals >= max_evals {
			break;
		}
	}
	(tape, evals)
}
