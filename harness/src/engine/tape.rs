//! The choice tape: every case of every property is a pure function of a `&[u32]`.
//!
//! All integers are mapped monotonically (`v * n >> 32`), never with `%`, so a smaller tape
//! value means an earlier / simpler alternative and shrinking the tape shrinks the case.
//! When the tape is exhausted the reader returns 0.

use std::time::Duration;

pub struct Src<'a> {
	tape: &'a [u32],
	pos: usize,
	hash: u64,
	/// number of draws made past the end of the tape
	pub overrun: usize,
}

impl<'a> Src<'a> {
	pub fn new(tape: &'a [u32]) -> Self {
		Self {
			tape,
			pos: 0,
			hash: 0xcbf29ce484222325,
			overrun: 0,
		}
	}

	/// Hash of every decoded choice so far (FNV-1a over the mapped values).
	pub fn choice_hash(&self) -> u64 {
		self.hash
	}

	pub fn consumed(&self) -> usize {
		self.pos
	}

	fn note(&mut self, v: u64) {
		let mut h = self.hash;
		for b in v.to_le_bytes() {
			h ^= b as u64;
			h = h.wrapping_mul(0x100000001b3);
		}
		self.hash = h;
	}

	pub fn raw(&mut self) -> u32 {
		let v = if self.pos < self.tape.len() {
			self.tape[self.pos]
		} else {
			self.overrun += 1;
			0
		};
		self.pos += 1;
		v
	}

	/// Integer in `0..n` (n >= 1), monotone in the tape value.
	pub fn below(&mut self, n: u64) -> u64 {
		debug_assert!(n >= 1);
		let r = self.raw() as u64;
		let v = if n <= (1 << 32) {
			(r * n) >> 32
		} else {
			let r2 = self.raw() as u64;
			(((r << 32) | r2) as u128 * n as u128 >> 64) as u64
		};
		self.note(v);
		v
	}

	/// Integer in `lo..=hi`.
	pub fn int(&mut self, lo: i64, hi: i64) -> i64 {
		debug_assert!(lo <= hi);
		lo + self.below((hi - lo) as u64 + 1) as i64
	}

	pub fn usize_in(&mut self, lo: usize, hi: usize) -> usize {
		self.int(lo as i64, hi as i64) as usize
	}

	/// `true` with probability num/den; an exhausted tape gives `false`.
	pub fn chance(&mut self, num: u64, den: u64) -> bool {
		let v = self.below(den);
		v >= den - num
	}

	pub fn bool(&mut self) -> bool {
		self.chance(1, 2)
	}

	pub fn pick<T: Copy>(&mut self, xs: &[T]) -> T {
		xs[self.below(xs.len() as u64) as usize]
	}

	pub fn index(&mut self, len: usize) -> usize {
		self.below(len as u64) as usize
	}

	/// Index chosen with the given weights; earlier entries are "simpler".
	pub fn weighted(&mut self, weights: &[u32]) -> usize {
		let total: u64 = weights.iter().map(|w| *w as u64).sum();
		let mut v = self.below(total);
		for (i, w) in weights.iter().enumerate() {
			if v < *w as u64 {
				return i;
			}
			v -= *w as u64;
		}
		weights.len() - 1
	}

	/// Uniform in [0, 1), 32 bits of resolution, monotone.
	pub fn unit(&mut self) -> f64 {
		let r = self.raw();
		self.note(r as u64);
		r as f64 / 4294967296.0
	}

	/// f64 in [lo, hi]; with probability 1/4 one of the boundary values `lo`, `hi`,
	/// and (when inside the range) 0, 1, -1, the midpoint.
	pub fn f64_in(&mut self, lo: f64, hi: f64) -> f64 {
		let mode = self.below(8);
		if mode >= 6 {
			let mut cands = [lo; 6];
			let mut n = 0;
			for c in [lo, hi, 0.0, 1.0, -1.0, (lo + hi) * 0.5] {
				if c >= lo && c <= hi {
					cands[n] = c;
					n += 1;
				}
			}
			cands[self.below(n as u64) as usize]
		} else {
			let u = self.unit();
			let v = lo + (hi - lo) * u;
			v.clamp(lo, hi)
		}
	}

	/// Plain uniform f64 in [lo, hi) without the boundary mode.
	pub fn f64_uniform(&mut self, lo: f64, hi: f64) -> f64 {
		let u = self.unit();
		(lo + (hi - lo) * u).clamp(lo, hi)
	}

	/// log-uniform positive value in [lo, hi]
	pub fn f64_log(&mut self, lo: f64, hi: f64) -> f64 {
		let u = self.unit();
		(lo.ln() + (hi.ln() - lo.ln()) * u).exp().clamp(lo, hi)
	}

	pub fn f32_in(&mut self, lo: f32, hi: f32) -> f32 {
		(self.f64_in(lo as f64, hi as f64) as f32).clamp(lo, hi)
	}

	/// A duration in seconds out of a boundary-biased menu: 0, tiny, or up to `max_s`.
	pub fn dur(&mut self, max_s: f64) -> Duration {
		match self.weighted(&[3, 2, 5]) {
			0 => Duration::ZERO,
			1 => Duration::from_secs_f64(self.f64_log(1e-7, 1e-3).min(max_s)),
			_ => Duration::from_secs_f64(self.f64_uniform(0.0, max_s)),
		}
	}
}

pub fn tape_hash(tape: &[u32]) -> u64 {
	let mut h: u64 = 0xcbf29ce484222325;
	for v in tape {
		for b in v.to_le_bytes() {
			h ^= b as u64;
			h = h.wrapping_mul(0x100000001b3);
		}
	}
	h
}

/// Tape value that makes `Src::below(n)` return exactly `v` (for enumerated tapes; n <= 2^32).
pub fn enc(v: u64, n: u64) -> u32 {
	debug_assert!(v < n && n <= (1 << 32));
	let raw = ((v << 32) + n - 1) / n;
	debug_assert_eq!((raw * n) >> 32, v);
	raw as u32
}
