//! Byte-level entry points shared by the libFuzzer target (`/verif/fuzz`) and the strict replay
//! (`kverif bytes C18 <file>`): the oracle lives here, inside the target, not in the fuzzer.

use crate::engine::findings::{self, Finding};
use crate::engine::{monitor, Failure};
use crate::props::c18::{encode, Enc, WavSpec};
use kira::sound::static_sound::StaticSoundData;
use kira::sound::streaming::StreamingSoundData;
use std::io::Cursor;
use std::path::PathBuf;
use std::sync::atomic::{AtomicU64, Ordering};
use std::sync::OnceLock;

pub static RUNS: AtomicU64 = AtomicU64::new(0);
pub static DECODED: AtomicU64 = AtomicU64::new(0);
pub static REJECTED: AtomicU64 = AtomicU64::new(0);
pub static KNOWN_TOLERATED: AtomicU64 = AtomicU64::new(0);

fn root() -> PathBuf {
	PathBuf::from(std::env::var("KVERIF_ROOT").unwrap_or_else(|_| "/verif".into()))
}

fn known() -> &'static Vec<Finding> {
	static K: OnceLock<Vec<Finding>> = OnceLock::new();
	K.get_or_init(|| findings::load(&root()).into_iter().filter(|f| f.property == "C18" && !f.fixed).collect())
}

pub fn is_known(f: &Failure) -> bool {
	known().iter().any(|k| k.signature == f.sig)
}

/// C18 on raw bytes: any byte string handed to the loaders gives an error or audio that the bytes
/// can account for - never a panic, never more frames than a PCM file has bytes, and the
/// streaming path, when it accepts the same bytes, reports the same sample rate.
pub fn c18_bytes(data: &[u8]) -> Result<(), Failure> {
	RUNS.fetch_add(1, Ordering::Relaxed);
	let st = monitor::catch(|| StaticSoundData::from_cursor(Cursor::new(data.to_vec()))).map_err(|info| Failure::panic("decode-", &info))?;
	let sm = monitor::catch(|| StreamingSoundData::from_cursor(Cursor::new(data.to_vec()))).map_err(|info| Failure::panic("decode-", &info))?;
	match &st {
		Ok(d) => {
			DECODED.fetch_add(1, Ordering::Relaxed);
			let riff = data.len() >= 12 && &data[..4] == b"RIFF" && &data[8..12] == b"WAVE";
			if riff && d.frames.len() > data.len() {
				return Err(Failure::new("no-invented-samples", "no-invented-samples:wav-bytes", format!("a {}-byte RIFF/WAVE file decoded to {} frames", data.len(), d.frames.len())));
			}
			if d.sample_rate == 0 {
				return Err(Failure::new("sample-rate-from-the-file", "sample-rate-zero-accepted", format!("a file decoded to {} frames at a sample rate of 0", d.frames.len())));
			}
			match &sm {
				Ok(s) => {
					let secs = s.duration().as_secs_f64();
					let n = s.num_frames();
					// (the streaming side exposes its rate only through duration = frames / rate, in nanoseconds)
					let want = n as f64 / d.sample_rate as f64;
					if n > 0 && (secs - want).abs() > 2e-9 + 1e-12 * want {
						return Err(Failure::new("streaming-equals-loading", "streaming-equals-loading:sample-rate", format!("loaded at {} Hz; opened for streaming, {n} frames last {secs} s ({} Hz)", d.sample_rate, n as f64 / secs)));
					}
				}
				// (a damaged file may load as a prefix and still be refused by the streaming path, or the
				// other way round: the property allows either answer for malformed input)
				Err(_) => {}
			}
		}
		Err(_) => {
			REJECTED.fetch_add(1, Ordering::Relaxed);
		}
	}
	Ok(())
}

/// libFuzzer entry: known findings are tolerated (counted), anything else aborts the process so
/// that libFuzzer saves the input
pub fn c18_fuzz_one(data: &[u8]) {
	static HOOK: OnceLock<()> = OnceLock::new();
	HOOK.get_or_init(monitor::install_panic_hook);
	if let Err(f) = c18_bytes(data) {
		if is_known(&f) {
			KNOWN_TOLERATED.fetch_add(1, Ordering::Relaxed);
		} else {
			eprintln!("VIOLATION-IN-TARGET oracle={} sig={} :: {}", f.oracle, f.sig, f.detail);
			std::process::abort();
		}
	}
	let n = RUNS.load(Ordering::Relaxed);
	if n % 2000 == 0 {
		if let Ok(p) = std::env::var("KVERIF_FUZZ_STATS") {
			let _ = std::fs::write(p, format!("{{\"runs\":{},\"decoded\":{},\"rejected\":{},\"known_tolerated\":{}}}", n, DECODED.load(Ordering::Relaxed), REJECTED.load(Ordering::Relaxed), KNOWN_TOLERATED.load(Ordering::Relaxed)));
		}
	}
}

/// writes a small seed corpus: generated WAV files of every encoding plus the repository's small assets
pub fn c18_corpus(dir: &std::path::Path, repo: &std::path::Path) -> std::io::Result<usize> {
	std::fs::create_dir_all(dir)?;
	let mut n = 0;
	for (i, enc) in [Enc::U8, Enc::S16, Enc::S24, Enc::S32, Enc::F32, Enc::F64].into_iter().enumerate() {
		for (j, (channels, frames, extensible)) in [(1u16, 7usize, false), (2, 33, false), (2, 5, true), (1, 0, false), (3, 4, true)].into_iter().enumerate() {
			let w = encode(&WavSpec {
				enc,
				channels,
				rate: [44100, 8000, 48000, 22050, 1000][j],
				frames,
				extensible,
				seed: (i * 16 + j) as u32 + 1,
				ramp: false,
			});
			std::fs::write(dir.join(format!("gen-{i}-{j}.wav")), &w.bytes)?;
			n += 1;
		}
	}
	for a in ["crates/examples/assets/sine.wav", "crates/examples/assets/blip.ogg", "crates/examples/assets/score.ogg"] {
		if let Ok(b) = std::fs::read(repo.join(a)) {
			std::fs::write(dir.join(a.rsplit('/').next().unwrap()), b)?;
			n += 1;
		}
	}
	Ok(n)
}

// ------------------------------------------------------------------------------------------
// coverage-guided search over the choice tapes of a property (libFuzzer target `tape_prop`)
//
// The fuzzer's bytes are the tape (four bytes per choice, little endian), decoded by the same
// generator and judged by the same oracle as the proptest-driven check. Only properties whose
// cases run on the calling thread and leave no process-wide state behind are offered here.

/// properties that can be searched in-process, iteration after iteration
pub const TAPE_FUZZABLE: [&str; 11] = ["C02", "C04", "C06", "C11", "C12", "C13", "C14", "C15", "C16", "C17", "C19"];

pub static T_RUNS: AtomicU64 = AtomicU64::new(0);
pub static T_NONTRIVIAL: AtomicU64 = AtomicU64::new(0);
pub static T_KNOWN: AtomicU64 = AtomicU64::new(0);
pub static T_INCONCLUSIVE: AtomicU64 = AtomicU64::new(0);

pub fn bytes_to_tape(data: &[u8]) -> Vec<u32> {
	data.chunks(4)
		.map(|c| {
			let mut b = [0u8; 4];
			b[..c.len()].copy_from_slice(c);
			u32::from_le_bytes(b)
		})
		.collect()
}

fn fuzz_prop() -> &'static dyn crate::engine::Property {
	static P: OnceLock<Box<dyn crate::engine::Property>> = OnceLock::new();
	P.get_or_init(|| {
		let id = std::env::var("KVERIF_FUZZ_PROP").expect("KVERIF_FUZZ_PROP");
		assert!(TAPE_FUZZABLE.contains(&id.as_str()), "{id} cannot be searched in-process");
		crate::props::lookup(&id).expect("property")
	})
	.as_ref()
}

fn known_of(id: &str) -> Vec<Finding> {
	findings::load(&root()).into_iter().filter(|f| f.property == id && !f.fixed).collect()
}

/// One evaluation of a property on a tape given as bytes. `Ok(true)` = passed and non-trivial.
pub fn tape_bytes(prop: &dyn crate::engine::Property, data: &[u8]) -> Result<bool, Failure> {
	let tape = bytes_to_tape(data);
	let mut ctx = crate::engine::Ctx::new(crate::engine::Tier::Quick);
	let r = crate::engine::runner::run_case(prop, &tape, &mut ctx);
	match r {
		Ok(info) => Ok(info.nontrivial),
		Err(f) if f.oracle == "inconclusive" || f.oracle == "setup" => {
			T_INCONCLUSIVE.fetch_add(1, Ordering::Relaxed);
			Ok(false)
		}
		Err(f) => Err(f),
	}
}

/// libFuzzer entry of `tape_prop`: known findings are tolerated (counted), anything else aborts
/// the process so that libFuzzer saves the input
pub fn tape_fuzz_one(data: &[u8]) {
	static HOOK: OnceLock<()> = OnceLock::new();
	HOOK.get_or_init(monitor::install_panic_hook);
	static KNOWN: OnceLock<Vec<Finding>> = OnceLock::new();
	let prop = fuzz_prop();
	let known = KNOWN.get_or_init(|| known_of(prop.id()));
	match tape_bytes(prop, data) {
		Ok(nt) => {
			if nt {
				T_NONTRIVIAL.fetch_add(1, Ordering::Relaxed);
			}
		}
		Err(f) if known.iter().any(|k| k.signature == f.sig) => {
			T_KNOWN.fetch_add(1, Ordering::Relaxed);
		}
		Err(f) => {
			eprintln!("VIOLATION-IN-TARGET property={} oracle={} sig={} :: {}", prop.id(), f.oracle, f.sig, f.detail);
			std::process::abort();
		}
	}
	let n = T_RUNS.fetch_add(1, Ordering::Relaxed) + 1;
	if n % 1000 == 0 {
		if let Ok(p) = std::env::var("KVERIF_FUZZ_STATS") {
			// (several worker processes: one file each)
			let _ = std::fs::write(format!("{p}.{}", std::process::id()), format!("{{\"runs\":{},\"nontrivial\":{},\"known_tolerated\":{},\"inconclusive\":{}}}", n, T_NONTRIVIAL.load(Ordering::Relaxed), T_KNOWN.load(Ordering::Relaxed), T_INCONCLUSIVE.load(Ordering::Relaxed)));
		}
	}
}

/// Strict replay of a libFuzzer artifact of `tape_prop`: the bytes are turned back into a tape,
/// the case is judged once more outside the fuzzer, shrunk, and saved as an ordinary replay file.
pub fn tape_strict(id: &str, data: &[u8]) -> i32 {
	monitor::install_panic_hook();
	let Some(prop) = crate::props::lookup(id) else { return 2 };
	let known = known_of(id);
	match tape_bytes(prop.as_ref(), data) {
		Ok(nt) => {
			println!("PASS {} choices nontrivial={nt}", data.len().div_ceil(4));
			0
		}
		Err(f) if known.iter().any(|k| k.signature == f.sig) => {
			println!("KNOWN-FINDING: property={id} [signature={}] {}", f.sig, f.detail);
			0
		}
		Err(f) => {
			let tape = bytes_to_tape(data);
			let sigs: Vec<String> = known.iter().map(|k| k.signature.clone()).collect();
			let last = std::cell::RefCell::new(f);
			let (small, _) = crate::engine::shrink::shrink(
				tape,
				|cand| {
					let mut ctx = crate::engine::Ctx::new(crate::engine::Tier::Quick);
					match crate::engine::runner::run_case(prop.as_ref(), cand, &mut ctx) {
						Err(f2) if !sigs.contains(&f2.sig) && f2.oracle != "inconclusive" && f2.oracle != "setup" => {
							*last.borrow_mut() = f2;
							true
						}
						_ => false,
					}
				},
				3000,
			);
			let f = last.into_inner();
			let path = crate::engine::runner::save_replay(prop.as_ref(), &small, &f);
			println!("VIOLATION property={id} replay={}", path.display());
			println!("NOTE {id} oracle={} sig={} :: {}", f.oracle, f.sig, f.detail.replace('\n', " | "));
			1
		}
	}
}

/// seed corpus for `tape_prop`: the empty tape, the all-zero tape, and pseudo-random tapes of the
/// property's full length (libFuzzer grows inputs slowly from an empty corpus)
pub fn tape_corpus(id: &str, dir: &std::path::Path, seed: u64, files: usize) -> std::io::Result<usize> {
	let prop = crate::props::lookup(id).ok_or_else(|| std::io::Error::new(std::io::ErrorKind::Other, "property"))?;
	std::fs::create_dir_all(dir)?;
	let len = prop.tape_len(crate::engine::Tier::Quick);
	std::fs::write(dir.join("empty"), [])?;
	std::fs::write(dir.join("zeros"), vec![0u8; len * 4])?;
	let mut s = seed.wrapping_mul(0x9E3779B97F4A7C15) ^ 0xD1B54A32D192ED03;
	for i in 0..files {
		let mut b = Vec::with_capacity(len * 4);
		for _ in 0..len {
			s = s.wrapping_add(0x9E3779B97F4A7C15);
			let mut z = s;
			z = (z ^ (z >> 30)).wrapping_mul(0xBF58476D1CE4E5B9);
			z = (z ^ (z >> 27)).wrapping_mul(0x94D049BB133111EB);
			z ^= z >> 31;
			b.extend_from_slice(&(z as u32).to_le_bytes());
		}
		std::fs::write(dir.join(format!("rand-{i}")), b)?;
	}
	Ok(files + 2)
}
