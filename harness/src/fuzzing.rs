//! Byte-level entry points shared by the libFuzzer target (`/verif/fuzz`) and the strict replay
//! (`kverif bytes C18 <file>`): the oracle lives here, inside the target, not in the fuzzer.

use crate::engine::findings::{self, Finding};
use crate::engine::{monitor, Failure};
use crate::props::c18::{encode, Enc, WavSpec};
use kira::sound::static_sound::StaticSoundData;
use kira::sound::streaming::StreamingSoundData;
use std::io::Cursor;
use std::path::PathBuf;
use std::sync::atomic::{AtomicU64, Ordering};
use std::sync::OnceLock;

pub static RUNS: AtomicU64 = AtomicU64::new(0);
pub static DECODED: AtomicU64 = AtomicU64::new(0);
pub static REJECTED: AtomicU64 = AtomicU64::new(0);
pub static KNOWN_TOLERATED: AtomicU64 = AtomicU64::new(0);

fn root() -> PathBuf {
	PathBuf::from(std::env::var("KVERIF_ROOT").unwrap_or_else(|_| "/verif".into()))
}

fn known() -> &'static Vec<Finding> {
	static K: OnceLock<Vec<Finding>> = OnceLock::new();
	K.get_or_init(|| findings::load(&root()).into_iter().filter(|f| f.property == "C18" && !f.fixed).collect())
}

pub fn is_known(f: &Failure) -> bool {
	known().iter().any(|k| k.signature == f.sig)
}

/// C18 on raw bytes: any byte string handed to the loaders gives an error or audio that the bytes
/// can account for - never a panic, never more frames than a PCM file has bytes, and the
/// streaming path, when it accepts the same bytes, reports the same sample rate.
pub fn c18_bytes(data: &[u8]) -> Result<(), Failure> {
	RUNS.fetch_add(1, Ordering::Relaxed);
	let st = monitor::catch(|| StaticSoundData::from_cursor(Cursor::new(data.to_vec()))).map_err(|info| Failure::panic("decode-", &info))?;
	let sm = monitor::catch(|| StreamingSoundData::from_cursor(Cursor::new(data.to_vec()))).map_err(|info| Failure::panic("decode-", &info))?;
	match &st {
		Ok(d) => {
			DECODED.fetch_add(1, Ordering::Relaxed);
			let riff = data.len() >= 12 && &data[..4] == b"RIFF" && &data[8..12] == b"WAVE";
			if riff && d.frames.len() > data.len() {
				return Err(Failure::new("no-invented-samples", "no-invented-samples:wav-bytes", format!("a {}-byte RIFF/WAVE file decoded to {} frames", data.len(), d.frames.len())));
			}
			if d.sample_rate == 0 {
				return Err(Failure::new("sample-rate-from-the-file", "sample-rate-zero-accepted", format!("a file decoded to {} frames at a sample rate of 0", d.frames.len())));
			}
			match &sm {
				Ok(s) => {
					let secs = s.duration().as_secs_f64();
					let n = s.num_frames();
					// (the streaming side exposes its rate only through duration = frames / rate, in nanoseconds)
					let want = n as f64 / d.sample_rate as f64;
					if n > 0 && (secs - want).abs() > 2e-9 + 1e-12 * want {
						return Err(Failure::new("streaming-equals-loading", "streaming-equals-loading:sample-rate", format!("loaded at {} Hz; opened for streaming, {n} frames last {secs} s ({} Hz)", d.sample_rate, n as f64 / secs)));
					}
				}
				// (a damaged file may load as a prefix and still be refused by the streaming path, or the
				// other way round: the property allows either answer for malformed input)
				Err(_) => {}
			}
		}
		Err(_) => {
			REJECTED.fetch_add(1, Ordering::Relaxed);
		}
	}
	Ok(())
}

/// libFuzzer entry: known findings are tolerated (counted), anything else aborts the process so
/// that libFuzzer saves the input
pub fn c18_fuzz_one(data: &[u8]) {
	static HOOK: OnceLock<()> = OnceLock::new();
	HOOK.get_or_init(monitor::install_panic_hook);
	if let Err(f) = c18_bytes(data) {
		if is_known(&f) {
			KNOWN_TOLERATED.fetch_add(1, Ordering::Relaxed);
		} else {
			eprintln!("VIOLATION-IN-TARGET oracle={} sig={} :: {}", f.oracle, f.sig, f.detail);
			std::process::abort();
		}
	}
	let n = RUNS.load(Ordering::Relaxed);
	if n % 2000 == 0 {
		if let Ok(p) = std::env::var("KVERIF_FUZZ_STATS") {
			let _ = std::fs::write(p, format!("{{\"runs\":{},\"decoded\":{},\"rejected\":{},\"known_tolerated\":{}}}", n, DECODED.load(Ordering::Relaxed), REJECTED.load(Ordering::Relaxed), KNOWN_TOLERATED.load(Ordering::Relaxed)));
		}
	}
}

/// writes a small seed corpus: generated WAV files of every encoding plus the repository's small assets
pub fn c18_corpus(dir: &std::path::Path, repo: &std::path::Path) -> std::io::Result<usize> {
	std::fs::create_dir_all(dir)?;
	let mut n = 0;
	for (i, enc) in [Enc::U8, Enc::S16, Enc::S24, Enc::S32, Enc::F32, Enc::F64].into_iter().enumerate() {
		for (j, (channels, frames, extensible)) in [(1u16, 7usize, false), (2, 33, false), (2, 5, true), (1, 0, false), (3, 4, true)].into_iter().enumerate() {
			let w = encode(&WavSpec {
				enc,
				channels,
				rate: [44100, 8000, 48000, 22050, 1000][j],
				frames,
				extensible,
				seed: (i * 16 + j) as u32 + 1,
				ramp: false,
			});
			std::fs::write(dir.join(format!("gen-{i}-{j}.wav")), &w.bytes)?;
			n += 1;
		}
	}
	for a in ["crates/examples/assets/sine.wav", "crates/examples/assets/blip.ogg", "crates/examples/assets/score.ogg"] {
		if let Ok(b) = std::fs::read(repo.join(a)) {
			std::fs::write(dir.join(a.rsplit('/').next().unwrap()), b)?;
			n += 1;
		}
	}
	Ok(n)
}
