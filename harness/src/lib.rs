pub mod engine;
pub mod fuzzing;
pub mod models;
pub mod probes;
pub mod props;
pub mod scene;

#[global_allocator]
static GLOBAL: engine::monitor::CountingAlloc = engine::monitor::CountingAlloc;
