use kverif::engine::{runner, Tier};
use std::path::Path;

fn usage() -> ! {
	eprintln!(
		"usage:\n  kverif check <ID> <quick|thorough>\n  kverif replay <ID> <file>\n  kverif worker <ID> <tier> <seed> <shard> <nshards> <out>\n  kverif find <ID> <sig-prefix> <out> [cases]\n  kverif survey <ID> [cases] [known]\n  kverif list"
	);
	std::process::exit(2)
}

fn tier_of(s: &str) -> Tier {
	match s {
		"quick" => Tier::Quick,
		"thorough" => Tier::Thorough,
		_ => usage(),
	}
}

fn main() {
	let args: Vec<String> = std::env::args().collect();
	if args.len() < 2 {
		usage();
	}
	let get = |id: &str| {
		kverif::props::lookup(id).unwrap_or_else(|| {
			eprintln!("unknown property {id}");
			std::process::exit(2)
		})
	};
	let code = match args[1].as_str() {
		"list" => {
			for p in kverif::props::all() {
				println!("{}", p.id());
			}
			0
		}
		"check" if args.len() >= 4 => {
			let prop = get(&args[2]);
			runner::parent(prop.as_ref(), tier_of(&args[3]), runner::seed_from_env())
		}
		"replay" if args.len() >= 4 => {
			let prop = get(&args[2]);
			runner::replay(prop.as_ref(), Path::new(&args[3]), Tier::Quick)
		}
		"worker" if args.len() >= 8 => {
			let prop = get(&args[2]);
			runner::worker(
				prop.as_ref(),
				tier_of(&args[3]),
				args[4].parse().unwrap(),
				args[5].parse().unwrap(),
				args[6].parse().unwrap(),
				Path::new(&args[7]),
			)
		}
		"find" if args.len() >= 5 => {
			let prop = get(&args[2]);
			let cases = args.get(5).and_then(|s| s.parse().ok()).unwrap_or(20000);
			let known = args.get(6).map(|s| s != "noknown").unwrap_or(true);
			runner::find_signature(prop.as_ref(), &args[3], runner::seed_from_env(), cases, Path::new(&args[4]), known)
		}
		"shrink-hang" if args.len() >= 5 => {
			let prop = get(&args[2]);
			runner::shrink_hang(prop.as_ref(), Path::new(&args[3]), Path::new(&args[4]), 2)
		}
		"survey" if args.len() >= 3 => {
			let prop = get(&args[2]);
			let cases = args.get(3).and_then(|s| s.parse().ok()).unwrap_or(2000);
			let known = args.get(4).map(|s| s == "known").unwrap_or(false);
			runner::survey(prop.as_ref(), runner::seed_from_env(), cases, known)
		}
		// strict replay of a raw input file (libFuzzer artifact) against the byte-level oracle
		"bytes" if args.len() >= 4 && args[2] == "C18" => {
			kverif::engine::monitor::install_panic_hook();
			let data = std::fs::read(&args[3]).expect("input file");
			match kverif::fuzzing::c18_bytes(&data) {
				Ok(()) => {
					println!("PASS {} bytes", data.len());
					0
				}
				Err(f) if kverif::fuzzing::is_known(&f) => {
					println!("KNOWN-FINDING: property=C18 [signature={}] {}", f.sig, f.detail);
					0
				}
				Err(f) => {
					println!("VIOLATION property=C18 replay={}", args[3]);
					println!("NOTE C18 oracle={} sig={} :: {}", f.oracle, f.sig, f.detail);
					1
				}
			}
		}
		// strict replay of a libFuzzer artifact of the tape target (bytes = choice tape)
		"bytes" if args.len() >= 4 => {
			let data = std::fs::read(&args[3]).expect("input file");
			kverif::fuzzing::tape_strict(&args[2], &data)
		}
		"corpus" if args.len() >= 4 && args[2] != "C18" => {
			let n = kverif::fuzzing::tape_corpus(&args[2], Path::new(&args[3]), runner::seed_from_env(), 48).expect("corpus");
			println!("{n} files {} bytes", get(&args[2]).tape_len(Tier::Quick) * 4);
			0
		}
		"fuzzable" => {
			println!("{}", kverif::fuzzing::TAPE_FUZZABLE.join(" "));
			0
		}
		"corpus" if args.len() >= 5 && args[2] == "C18" => {
			let n = kverif::fuzzing::c18_corpus(Path::new(&args[3]), Path::new(&args[4])).expect("corpus");
			println!("{n} files");
			0
		}
		_ => usage(),
	};
	std::process::exit(code);
}
