pub mod param;
