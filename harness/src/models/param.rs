//! Reference model of a decibel-valued parameter moved by linear tweens with immediate start,
//! updated once per internal chunk and interpolated linearly (in decibels) inside the chunk.

thread_local! {
	static EDGE_HIT: std::cell::Cell<bool> = const { std::cell::Cell::new(false) };
}

/// true (once) if a gain was evaluated within 2e-3 dB of the -60 dB silence edge since the last
/// call: there the amplitude jumps between 0.001 and 0, and which side an interpolated value
/// lands on depends on the last bit of f32 arithmetic the reference does not reproduce
pub fn take_edge_hit() -> bool {
	EDGE_HIT.with(|e| e.replace(false))
}

#[derive(Debug, Clone)]
pub struct DbParam {
	pub prev_db: f64,
	pub value_db: f64,
	/// from, to, duration (s), elapsed (s)
	pub tween: Option<(f64, f64, f64, f64)>,
}

pub fn db_to_amp(db: f64) -> f64 {
	if db <= -60.0 {
		0.0
	} else if db == 0.0 {
		1.0
	} else {
		10f64.powf(db / 20.0)
	}
}

impl DbParam {
	pub fn new(db: f64) -> Self {
		Self {
			prev_db: db,
			value_db: db,
			tween: None,
		}
	}
	pub fn set(&mut self, to: f64, dur: f64) {
		self.tween = Some((self.value_db, to, dur, 0.0));
	}
	/// one update of `dt` seconds; true when a tween finished in this update
	pub fn update(&mut self, dt: f64) -> bool {
		self.prev_db = self.value_db;
		if let Some((from, to, dur, time)) = &mut self.tween {
			*time += dt;
			if *time >= *dur {
				self.value_db = *to;
				self.tween = None;
				return true;
			}
			self.value_db = *from + (*to - *from) * (*time / *dur);
		}
		false
	}
	/// gain at position `a` in (0, 1] of the current chunk
	pub fn amp_at(&self, a: f64) -> f64 {
		// the crate interpolates in f32
		let db = self.prev_db as f32 + (self.value_db as f32 - self.prev_db as f32) * a as f32;
		if (db + 60.0).abs() < 2e-3 {
			EDGE_HIT.with(|e| e.set(true));
		}
		db_to_amp(db as f64)
	}
	pub fn amp(&self) -> f64 {
		db_to_amp(self.value_db as f32 as f64)
	}
}
