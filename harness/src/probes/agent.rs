//! Gameplay-thread calls placed *inside* an audio callback.
//!
//! A real second thread can call into the manager at any moment of a callback: while
//! `Renderer::on_start_processing` is between two of its hand-off rings, between the two halves
//! of the callback, or while the mixer runs. Checks that only alternate "calls, callback" never
//! see those moments. An agent is a silent custom `Sound` (public `Sound` trait only) that runs a
//! closure from its `on_start_processing` or from its `process`: placed on a sub-track it runs
//! after the mixer's sub-track ring has been taken and before the main track's sound ring and
//! the clock / listener / modulator rings are; placed on the main track it runs after all mixer
//! rings and before the others. The closure works on a `World` (the manager plus two tracks)
//! behind a mutex the harness never holds while the renderer runs.

use super::{manager, Callback, Mgr, SENTINEL};
use crate::engine::monitor;
use crate::engine::Failure;
use kira::backend::Renderer;
use kira::info::Info;
use kira::sound::{Sound, SoundData};
use kira::track::{MainTrackBuilder, TrackBuilder, TrackHandle};
use kira::{Capacities, Frame};
use std::sync::{Arc, Mutex};

pub type Action = Box<dyn FnOnce() + Send>;

#[derive(Default)]
pub struct AgentSlot {
	pub at_start: Mutex<Option<Action>>,
	pub at_process: Mutex<Option<Action>>,
}

pub struct AgentSoundData(pub Arc<AgentSlot>);

struct AgentSound(Arc<AgentSlot>);

impl Sound for AgentSound {
	fn on_start_processing(&mut self) {
		let a = self.0.at_start.lock().unwrap().take();
		if let Some(a) = a {
			a();
		}
	}
	fn process(&mut self, out: &mut [Frame], _dt: f64, _info: &Info) {
		let a = self.0.at_process.lock().unwrap().take();
		if let Some(a) = a {
			a();
		}
		out.fill(Frame::ZERO);
	}
	fn finished(&self) -> bool {
		false
	}
}

impl SoundData for AgentSoundData {
	type Error = ();
	type Handle = ();
	fn into_sound(self) -> Result<(Box<dyn Sound>, ()), ()> {
		Ok((Box::new(AgentSound(self.0)), ()))
	}
}

/// the moment of a callback at which the calls are made
#[derive(Debug, Clone, Copy, PartialEq)]
pub enum Phase {
	/// before the callback (what every other check does)
	Before,
	/// from `on_start_processing` of a sound on a sub-track
	SubTrackStart,
	/// from `on_start_processing` of a sound on the main track
	MainTrackStart,
	/// between `Renderer::on_start_processing` and `Renderer::process`
	BetweenHalves,
	/// from `process` of a sound on a sub-track (first internal buffer of the callback)
	SubTrackProcess,
	/// from `process` of a sound on the main track
	MainTrackProcess,
}

pub const PHASES: [Phase; 6] = [Phase::Before, Phase::SubTrackStart, Phase::MainTrackStart, Phase::BetweenHalves, Phase::SubTrackProcess, Phase::MainTrackProcess];

/// the track a call inside the closure plays its sound on
#[derive(Debug, Clone, Copy, PartialEq)]
pub enum Target {
	Main,
	/// the sub-track the sub-track agent sits on
	AgentTrack,
	/// another sub-track
	OtherTrack,
}

pub const TARGETS: [Target; 3] = [Target::Main, Target::AgentTrack, Target::OtherTrack];

pub struct World {
	pub mgr: Mgr,
	pub agent_track: TrackHandle,
	pub other_track: TrackHandle,
}

pub struct Stage {
	pub world: Arc<Mutex<World>>,
	pub renderer: Renderer,
	sub_slot: Arc<AgentSlot>,
	main_slot: Arc<AgentSlot>,
}

impl Stage {
	/// A manager with two sub-tracks and the two agents, after one callback (so that all of them
	/// are live on the audio side).
	pub fn new(sample_rate: u32, ibs: usize, other_first: bool) -> Result<Stage, Failure> {
		let mut mgr = manager(sample_rate, ibs, Capacities::default(), MainTrackBuilder::new());
		let renderer = mgr.backend_mut().renderer.take().ok_or_else(|| Failure::simple("setup", "no renderer"))?;
		let sub_slot = Arc::new(AgentSlot::default());
		let main_slot = Arc::new(AgentSlot::default());
		let (mut agent_track, other_track);
		if other_first {
			other_track = mgr.add_sub_track(TrackBuilder::new()).map_err(|_| Failure::simple("setup", "track"))?;
			agent_track = mgr.add_sub_track(TrackBuilder::new()).map_err(|_| Failure::simple("setup", "track"))?;
		} else {
			agent_track = mgr.add_sub_track(TrackBuilder::new()).map_err(|_| Failure::simple("setup", "track"))?;
			other_track = mgr.add_sub_track(TrackBuilder::new()).map_err(|_| Failure::simple("setup", "track"))?;
		}
		agent_track.play(AgentSoundData(sub_slot.clone())).map_err(|_| Failure::simple("setup", "agent"))?;
		mgr.play(AgentSoundData(main_slot.clone())).map_err(|_| Failure::simple("setup", "agent"))?;
		let mut stage = Stage {
			world: Arc::new(Mutex::new(World { mgr, agent_track, other_track })),
			renderer,
			sub_slot,
			main_slot,
		};
		stage.callback(ibs, Phase::Before, |_| ())?;
		Ok(stage)
	}

	/// One stereo callback of `frames` frames with `action` run at `phase`.
	pub fn callback<R: Send + 'static>(&mut self, frames: usize, phase: Phase, action: impl FnOnce(&mut World) -> R + Send + 'static) -> Result<(R, Callback), Failure> {
		let result: Arc<Mutex<Option<R>>> = Arc::new(Mutex::new(None));
		let boxed: Action = {
			let world = self.world.clone();
			let result = result.clone();
			Box::new(move || {
				let r = action(&mut world.lock().unwrap());
				*result.lock().unwrap() = Some(r);
			})
		};
		let mut pending = Some(boxed);
		match phase {
			Phase::Before => (pending.take().unwrap())(),
			Phase::SubTrackStart => *self.sub_slot.at_start.lock().unwrap() = pending.take(),
			Phase::MainTrackStart => *self.main_slot.at_start.lock().unwrap() = pending.take(),
			Phase::SubTrackProcess => *self.sub_slot.at_process.lock().unwrap() = pending.take(),
			Phase::MainTrackProcess => *self.main_slot.at_process.lock().unwrap() = pending.take(),
			Phase::BetweenHalves => {}
		}
		let mut out = vec![SENTINEL; frames * 2];
		let renderer = &mut self.renderer;
		let (_, g1) = monitor::as_callback(|| renderer.on_start_processing());
		if let Some(p) = &g1.panic {
			return Err(Failure::panic("", p));
		}
		if let Some(a) = pending.take() {
			a();
		}
		let (_, guard) = monitor::as_callback(|| renderer.process(&mut out, 2));
		if let Some(p) = &guard.panic {
			return Err(Failure::panic("", p));
		}
		let r = result.lock().unwrap().take().ok_or_else(|| Failure::simple("setup", format!("the agent for {phase:?} did not run")))?;
		Ok((r, Callback { out, guard, scrubbed: 0 }))
	}
}
