//! A baton scheduler for the H1 hook points: the harness fixes the order of the reader's two
//! loads in `ClockHandle::time()` and the audio thread's two stores in `Clock::update_shared`.

use std::sync::atomic::{AtomicBool, Ordering};
use std::sync::{Condvar, Mutex};
use std::time::Duration;

pub const RT: u8 = 0; // reader loads ticks
pub const RF: u8 = 1; // reader loads fraction
pub const WT: u8 = 2; // writer stores ticks
pub const WF: u8 = 3; // writer stores fraction

struct Sched {
	order: Vec<u8>,
	done: usize,
	pending: [Option<u8>; 2],
	timed_out: bool,
}

static ACTIVE: AtomicBool = AtomicBool::new(false);
static STATE: Mutex<Sched> = Mutex::new(Sched {
	order: Vec::new(),
	done: 0,
	pending: [None, None],
	timed_out: false,
});
static CV: Condvar = Condvar::new();

fn role(a: u8) -> usize {
	if a == RT || a == RF {
		0
	} else {
		1
	}
}

pub fn on_hook(site: &'static str) {
	if !ACTIVE.load(Ordering::SeqCst) {
		return;
	}
	let action = match site {
		"clock_load_ticks" => RT,
		"clock_load_fraction" => RF,
		"clock_store_ticks" => WT,
		"clock_store_fraction" => WF,
		_ => return,
	};
	let r = role(action);
	let mut st = STATE.lock().unwrap_or_else(|e| e.into_inner());
	if st.pending[r].take().is_some() {
		st.done += 1;
		CV.notify_all();
	}
	// wait for this action's turn
	loop {
		if st.done >= st.order.len() || st.order[st.done] == action || st.timed_out {
			break;
		}
		let (g, res) = CV.wait_timeout(st, Duration::from_secs(2)).unwrap_or_else(|e| e.into_inner());
		st = g;
		if res.timed_out() {
			st.timed_out = true;
			CV.notify_all();
			break;
		}
	}
	st.pending[r] = Some(action);
}

/// the thread with the given role (0 reader, 1 writer) has finished its operation
pub fn finish(r: usize) {
	let mut st = STATE.lock().unwrap_or_else(|e| e.into_inner());
	if st.pending[r].take().is_some() {
		st.done += 1;
		CV.notify_all();
	}
}

pub fn arm(order: &[u8]) {
	let mut st = STATE.lock().unwrap_or_else(|e| e.into_inner());
	st.order = order.to_vec();
	st.done = 0;
	st.pending = [None, None];
	st.timed_out = false;
	ACTIVE.store(true, Ordering::SeqCst);
}

/// returns true if the schedule ran to completion without a timeout
pub fn disarm() -> bool {
	ACTIVE.store(false, Ordering::SeqCst);
	let st = STATE.lock().unwrap_or_else(|e| e.into_inner());
	!st.timed_out && st.done >= st.order.len()
}
