//! A scripted `Decoder`: content, packet sizes, seek granularity, fault plan, drop flag.

use kira::sound::streaming::Decoder;
use kira::Frame;
use std::sync::atomic::{AtomicBool, AtomicUsize, Ordering};
use std::sync::Arc;

#[derive(Debug, Clone, PartialEq, Eq)]
pub struct ScriptError(pub String);

#[derive(Debug, Clone, Copy, PartialEq, Eq)]
pub enum FaultPlan {
	None,
	/// the k-th decode() call (0-based) fails; `forever`: every call from then on fails
	Decode { k: usize, forever: bool },
	/// the k-th seek() call (0-based, counting the initial seek) fails
	Seek { k: usize, forever: bool },
}

#[derive(Debug, Default)]
pub struct DecoderLog {
	pub decode_calls: AtomicUsize,
	pub seek_calls: AtomicUsize,
	pub frames_decoded: AtomicUsize,
	pub errors_returned: AtomicUsize,
	pub dropped: AtomicBool,
}

pub struct ScriptDecoder {
	pub frames: Arc<[Frame]>,
	pub sample_rate: u32,
	/// packet sizes, cycled (each >= 1)
	pub packets: Vec<usize>,
	/// seeks land on a multiple of this (>= 1) at or before the requested index
	pub seek_granularity: usize,
	/// additionally land this many granules earlier (0 = nearest)
	pub seek_early: usize,
	pub fault: FaultPlan,
	pub log: Arc<DecoderLog>,
	pos: usize,
	packet_i: usize,
}

impl ScriptDecoder {
	pub fn new(frames: Arc<[Frame]>, sample_rate: u32) -> (Self, Arc<DecoderLog>) {
		let log = Arc::new(DecoderLog::default());
		(
			Self {
				frames,
				sample_rate,
				packets: vec![64],
				seek_granularity: 1,
				seek_early: 0,
				fault: FaultPlan::None,
				log: log.clone(),
				pos: 0,
				packet_i: 0,
			},
			log,
		)
	}
}

impl Decoder for ScriptDecoder {
	type Error = ScriptError;

	fn sample_rate(&self) -> u32 {
		self.sample_rate
	}

	fn num_frames(&self) -> usize {
		self.frames.len()
	}

	fn decode(&mut self) -> Result<Vec<Frame>, ScriptError> {
		let call = self.log.decode_calls.fetch_add(1, Ordering::SeqCst);
		if let FaultPlan::Decode { k, forever } = self.fault {
			if call == k || (forever && call > k) {
				self.log.errors_returned.fetch_add(1, Ordering::SeqCst);
				return Err(ScriptError(format!("scripted decode fault at call {call}")));
			}
		}
		if self.pos >= self.frames.len() {
			// a real decoder reports end of stream as an error
			self.log.errors_returned.fetch_add(1, Ordering::SeqCst);
			return Err(ScriptError("end of stream".into()));
		}
		let n = self.packets[self.packet_i % self.packets.len()].max(1);
		self.packet_i += 1;
		let end = (self.pos + n).min(self.frames.len());
		let v = self.frames[self.pos..end].to_vec();
		self.pos = end;
		self.log.frames_decoded.fetch_add(v.len(), Ordering::SeqCst);
		Ok(v)
	}

	fn seek(&mut self, index: usize) -> Result<usize, ScriptError> {
		let call = self.log.seek_calls.fetch_add(1, Ordering::SeqCst);
		if let FaultPlan::Seek { k, forever } = self.fault {
			if call == k || (forever && call > k) {
				self.log.errors_returned.fetch_add(1, Ordering::SeqCst);
				return Err(ScriptError(format!("scripted seek fault at call {call}")));
			}
		}
		let g = self.seek_granularity.max(1);
		let index = index.min(self.frames.len());
		let landed = (index / g).saturating_sub(self.seek_early) * g;
		self.pos = landed;
		Ok(landed)
	}
}

impl Drop for ScriptDecoder {
	fn drop(&mut self) {
		self.log.dropped.store(true, Ordering::SeqCst);
	}
}
