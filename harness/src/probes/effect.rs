//! A programmable `Effect` that logs init / sample-rate changes / process calls and can carry a
//! kira `Parameter` so the value a linked parameter takes in each chunk is observable.

use crate::engine::monitor;
use kira::effect::{Effect, EffectBuilder};
use kira::info::Info;
use kira::{Frame, Parameter, Value};
use std::sync::atomic::{AtomicBool, AtomicUsize, Ordering};
use std::sync::{Arc, Mutex};

#[derive(Debug, Clone, Copy, PartialEq)]
pub enum ProbeKind {
	/// pass the signal through unchanged
	Pass,
	Gain(f32),
	/// clamp to [-limit, limit]
	Clip(f32),
	/// swap left and right
	Swap,
	/// replace the signal by the parameter value (both channels), so the parameter is audible
	EmitParam,
}

#[derive(Debug, Clone, Copy, PartialEq)]
pub struct ProcessRecord {
	pub len: usize,
	pub dt: f64,
	/// parameter value after this call's update, and the previous one
	pub param: f64,
	pub prev_param: f64,
	/// sample rate last announced through init / on_change_sample_rate
	pub told_rate: u32,
	pub first_in: Frame,
}

#[derive(Debug)]
pub struct EffectLog {
	pub inits: Mutex<Vec<(u32, usize)>>,
	pub rate_changes: Mutex<Vec<u32>>,
	pub calls: Mutex<Vec<ProcessRecord>>,
	pub overflow: AtomicUsize,
	pub frames: AtomicUsize,
	pub on_start_calls: AtomicUsize,
	pub dropped: AtomicBool,
	pub dropped_in_callback: AtomicBool,
}

impl EffectLog {
	pub fn take_calls(&self) -> Vec<ProcessRecord> {
		let mut c = self.calls.lock().unwrap();
		let v = c.clone();
		c.clear();
		v
	}
}

pub struct ProbeEffectBuilder {
	pub kind: ProbeKind,
	pub param: Value<f64>,
	pub log_capacity: usize,
}

impl ProbeEffectBuilder {
	pub fn new(kind: ProbeKind) -> Self {
		Self {
			kind,
			param: Value::Fixed(0.0),
			log_capacity: 4096,
		}
	}
	pub fn param(mut self, v: Value<f64>) -> Self {
		self.param = v;
		self
	}
}

struct ProbeEffect {
	kind: ProbeKind,
	param: Parameter<f64>,
	told_rate: u32,
	log: Arc<EffectLog>,
}

impl Effect for ProbeEffect {
	fn init(&mut self, sample_rate: u32, internal_buffer_size: usize) {
		self.told_rate = sample_rate;
		self.log.inits.lock().unwrap().push((sample_rate, internal_buffer_size));
	}

	fn on_change_sample_rate(&mut self, sample_rate: u32) {
		self.told_rate = sample_rate;
		self.log.rate_changes.lock().unwrap().push(sample_rate);
	}

	fn on_start_processing(&mut self) {
		self.log.on_start_calls.fetch_add(1, Ordering::SeqCst);
	}

	fn process(&mut self, input: &mut [Frame], dt: f64, info: &Info) {
		self.param.update(dt * input.len() as f64, info);
		{
			let mut calls = self.log.calls.lock().unwrap();
			if calls.len() < calls.capacity() {
				calls.push(ProcessRecord {
					len: input.len(),
					dt,
					param: self.param.value(),
					prev_param: self.param.previous_value(),
					told_rate: self.told_rate,
					first_in: input.first().copied().unwrap_or(Frame::ZERO),
				});
			} else {
				self.log.overflow.fetch_add(1, Ordering::SeqCst);
			}
		}
		self.log.frames.fetch_add(input.len(), Ordering::SeqCst);
		match self.kind {
			ProbeKind::Pass => {}
			ProbeKind::Gain(g) => {
				for f in input.iter_mut() {
					*f *= g;
				}
			}
			ProbeKind::Clip(l) => {
				for f in input.iter_mut() {
					f.left = f.left.clamp(-l, l);
					f.right = f.right.clamp(-l, l);
				}
			}
			ProbeKind::Swap => {
				for f in input.iter_mut() {
					*f = Frame::new(f.right, f.left);
				}
			}
			ProbeKind::EmitParam => {
				let n = input.len();
				for (i, f) in input.iter_mut().enumerate() {
					let v = self.param.interpolated_value((i + 1) as f64 / n as f64) as f32;
					*f = Frame::from_mono(v);
				}
			}
		}
	}
}

impl Drop for ProbeEffect {
	fn drop(&mut self) {
		self.log.dropped.store(true, Ordering::SeqCst);
		self.log.dropped_in_callback.store(monitor::in_callback(), Ordering::SeqCst);
	}
}

impl EffectBuilder for ProbeEffectBuilder {
	type Handle = Arc<EffectLog>;

	fn build(self) -> (Box<dyn Effect>, Self::Handle) {
		let log = Arc::new(EffectLog {
			inits: Mutex::new(Vec::with_capacity(8)),
			rate_changes: Mutex::new(Vec::with_capacity(64)),
			calls: Mutex::new(Vec::with_capacity(self.log_capacity)),
			overflow: AtomicUsize::new(0),
			frames: AtomicUsize::new(0),
			on_start_calls: AtomicUsize::new(0),
			dropped: AtomicBool::new(false),
			dropped_in_callback: AtomicBool::new(false),
		});
		(
			Box::new(ProbeEffect {
				kind: self.kind,
				param: Parameter::new(self.param, 0.0),
				told_rate: 0,
				log: log.clone(),
			}),
			log,
		)
	}
}
