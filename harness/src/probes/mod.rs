//! Probes built on kira's public traits: a backend that owns the renderer, programmable sounds,
//! effects, modulators and decoders that log what the mixer does to them.

pub mod agent;
pub mod clocksched;
pub mod ressched;
pub mod decoder;
pub mod effect;
pub mod sound;
pub mod streamctl;

use crate::engine::monitor::{self, Guarded};
use kira::backend::{Backend, Renderer};
use kira::track::MainTrackBuilder;
use kira::{AudioManager, AudioManagerSettings, Capacities};

pub use decoder::{DecoderLog, FaultPlan, ScriptDecoder, ScriptError};
pub use effect::{EffectLog, ProbeEffectBuilder, ProbeKind};
pub use sound::{ProbeSoundData, ProbeSoundHandle, Signal, SoundLog};

/// value the output buffer is pre-filled with; any sample left at this value was not written
pub const SENTINEL: f32 = 12345.678;

pub struct VBackend {
	pub renderer: Option<Renderer>,
	pub sample_rate: u32,
}

impl Backend for VBackend {
	type Settings = u32;
	type Error = ();

	fn setup(sample_rate: u32, _internal_buffer_size: usize) -> Result<(Self, u32), ()> {
		Ok((
			Self {
				renderer: None,
				sample_rate,
			},
			sample_rate,
		))
	}

	fn start(&mut self, renderer: Renderer) -> Result<(), ()> {
		self.renderer = Some(renderer);
		Ok(())
	}
}

pub struct Callback {
	/// interleaved output; empty if the callback panicked
	pub out: Vec<f32>,
	pub guard: Guarded,
	/// how many samples of this callback the renderer replaced by silence because the mixer had
	/// produced NaN for them (`kira::verif::nan_scrubbed`, read before and after on this thread)
	pub scrubbed: u64,
}

impl Callback {
	pub fn frame(&self, i: usize, channels: usize) -> (f32, f32) {
		(self.out[i * channels], self.out[i * channels + 1.min(channels - 1)])
	}
}

impl VBackend {
	/// One device callback exactly as the cpal backend performs it: `on_start_processing`, then
	/// `process` on a buffer of `frames * channels` samples, with the monitors armed.
	pub fn callback(&mut self, frames: usize, channels: u16) -> Callback {
		let mut out = vec![SENTINEL; frames * channels as usize];
		let renderer = self.renderer.as_mut().expect("renderer");
		let before = kira::verif::nan_scrubbed();
		let (_, guard) = monitor::as_callback(|| {
			renderer.on_start_processing();
			renderer.process(&mut out, channels);
		});
		Callback { out, guard, scrubbed: kira::verif::nan_scrubbed() - before }
	}

	/// The first half of a device callback (`on_start_processing`): together with `end_callback`
	/// it lets a check place gameplay-thread calls between the two halves, where a real second
	/// thread's calls can land.
	pub fn begin_callback(&mut self) -> Guarded {
		let renderer = self.renderer.as_mut().expect("renderer");
		let (_, guard) = monitor::as_callback(|| renderer.on_start_processing());
		guard
	}

	/// The second half of a device callback (`process`).
	pub fn end_callback(&mut self, frames: usize, channels: u16) -> Callback {
		let mut out = vec![SENTINEL; frames * channels as usize];
		let renderer = self.renderer.as_mut().expect("renderer");
		let before = kira::verif::nan_scrubbed();
		let (_, guard) = monitor::as_callback(|| renderer.process(&mut out, channels));
		Callback { out, guard, scrubbed: kira::verif::nan_scrubbed() - before }
	}

	/// The device changed its sample rate (cpal calls this between callbacks, from its stream
	/// manager, so it is not subject to the real-time monitors).
	pub fn change_sample_rate(&mut self, sample_rate: u32) {
		self.sample_rate = sample_rate;
		self.renderer.as_mut().expect("renderer").on_change_sample_rate(sample_rate);
	}
}

pub type Mgr = AudioManager<VBackend>;

pub fn manager(sample_rate: u32, internal_buffer_size: usize, capacities: Capacities, main: MainTrackBuilder) -> Mgr {
	AudioManager::<VBackend>::new(AudioManagerSettings {
		capacities,
		main_track_builder: main,
		internal_buffer_size,
		backend_settings: sample_rate,
	})
	.expect("VBackend cannot fail")
}

pub fn default_manager(sample_rate: u32, internal_buffer_size: usize) -> Mgr {
	manager(sample_rate, internal_buffer_size, Capacities::default(), MainTrackBuilder::new())
}

/// Convenience: render `frames` frames in callbacks of the given sizes (cycled), stereo, and
/// return the concatenated output plus the guards.
pub fn render(mgr: &mut Mgr, total_frames: usize, callback_sizes: &[usize]) -> (Vec<(f32, f32)>, Vec<Guarded>) {
	let mut out = Vec::with_capacity(total_frames);
	let mut guards = vec![];
	let mut k = 0;
	while out.len() < total_frames {
		let n = callback_sizes[k % callback_sizes.len()].max(1).min(total_frames - out.len());
		k += 1;
		let cb = mgr.backend_mut().callback(n, 2);
		if cb.guard.panic.is_some() {
			guards.push(cb.guard);
			break;
		}
		for i in 0..n {
			out.push((cb.out[2 * i], cb.out[2 * i + 1]));
		}
		guards.push(cb.guard);
	}
	(out, guards)
}
