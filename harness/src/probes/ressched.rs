//! A baton scheduler for the H3 hook points: the harness fixes the order of the gameplay
//! thread's three create steps (reserve a slot, drain the unused ring, push to the new-resource
//! ring) against the audio thread's two steps on the same pool (removal pass, refill).
//!
//! An action lasts from its hook point to the thread's next hook point on the same pool (or to
//! `finish`). Pools are told apart by the id the hook passes (a hash of the element type); the
//! target id is learned from an un-armed creation (`learn`).

use std::sync::atomic::{AtomicBool, AtomicUsize, Ordering};
use std::sync::{Condvar, Mutex};
use std::time::Duration;

pub const G1: u8 = 0; // gameplay: reserve
pub const G2: u8 = 1; // gameplay: drain unused
pub const G3: u8 = 2; // gameplay: push new
pub const A1: u8 = 3; // audio: removal pass
pub const A2: u8 = 4; // audio: refill

struct Sched {
	order: Vec<u8>,
	done: usize,
	pending: [Option<u8>; 2],
	timed_out: bool,
}

static ACTIVE: AtomicBool = AtomicBool::new(false);
static LEARN: AtomicBool = AtomicBool::new(false);
static TARGET: AtomicUsize = AtomicUsize::new(0);
static STATE: Mutex<Sched> = Mutex::new(Sched {
	order: Vec::new(),
	done: 0,
	pending: [None, None],
	timed_out: false,
});
static CV: Condvar = Condvar::new();

fn role(a: u8) -> usize {
	if a <= G3 {
		0
	} else {
		1
	}
}

/// skip the entries of `order` that can no longer happen (actions of a role that has finished)
fn skip_dead(st: &mut Sched, finished: [bool; 2]) {
	while st.done < st.order.len() && finished[role(st.order[st.done])] {
		st.done += 1;
	}
}

static FINISHED: Mutex<[bool; 2]> = Mutex::new([false, false]);

pub fn on_hook(site: &'static str, pool: usize) {
	let action = match site {
		"res_reserve" => G1,
		"res_drain" => G2,
		"res_push" => G3,
		"res_remove" => A1,
		"res_refill" => A2,
		_ => return,
	};
	if LEARN.load(Ordering::SeqCst) && action == G1 {
		TARGET.store(pool, Ordering::SeqCst);
	}
	if !ACTIVE.load(Ordering::SeqCst) || pool != TARGET.load(Ordering::SeqCst) {
		return;
	}
	let r = role(action);
	let mut st = STATE.lock().unwrap_or_else(|e| e.into_inner());
	if st.pending[r].take().is_some() {
		st.done += 1;
		let fin = *FINISHED.lock().unwrap_or_else(|e| e.into_inner());
		skip_dead(&mut st, fin);
		CV.notify_all();
	}
	loop {
		if st.done >= st.order.len() || st.order[st.done] == action || st.timed_out {
			break;
		}
		// an action that is not in the rest of the order at all (e.g. a second creation) runs freely
		if !st.order[st.done..].contains(&action) {
			return;
		}
		let (g, res) = CV.wait_timeout(st, Duration::from_secs(5)).unwrap_or_else(|e| e.into_inner());
		st = g;
		if res.timed_out() {
			st.timed_out = true;
			CV.notify_all();
			break;
		}
	}
	st.pending[r] = Some(action);
}

/// the thread with the given role (0 gameplay, 1 audio) has finished its operation; actions of
/// that role still in the order (a creation that was refused stops after its first step) are skipped
pub fn finish(r: usize) {
	if !ACTIVE.load(Ordering::SeqCst) {
		return;
	}
	let mut st = STATE.lock().unwrap_or_else(|e| e.into_inner());
	let mut fin = FINISHED.lock().unwrap_or_else(|e| e.into_inner());
	fin[r] = true;
	if st.pending[r].take().is_some() {
		st.done += 1;
	}
	let f = *fin;
	drop(fin);
	skip_dead(&mut st, f);
	CV.notify_all();
}

/// learn the pool id from the next creation(s) on this thread
pub fn learn(on: bool) {
	LEARN.store(on, Ordering::SeqCst);
}

pub fn arm(order: &[u8]) {
	let mut st = STATE.lock().unwrap_or_else(|e| e.into_inner());
	st.order = order.to_vec();
	st.done = 0;
	st.pending = [None, None];
	st.timed_out = false;
	*FINISHED.lock().unwrap_or_else(|e| e.into_inner()) = [false, false];
	ACTIVE.store(true, Ordering::SeqCst);
}

/// returns true if the schedule ran to completion without a timeout
pub fn disarm() -> bool {
	ACTIVE.store(false, Ordering::SeqCst);
	let st = STATE.lock().unwrap_or_else(|e| e.into_inner());
	!st.timed_out && st.done >= st.order.len()
}

/// all ten orders of [G1 G2 G3] against [A1 A2]
pub fn all_orders() -> Vec<Vec<u8>> {
	let mut out = vec![];
	// choose positions of A1 < A2 among 5 slots
	for i in 0..5 {
		for j in i + 1..5 {
			let mut o = vec![];
			let mut g = [G1, G2, G3].into_iter();
			for k in 0..5 {
				if k == i {
					o.push(A1);
				} else if k == j {
					o.push(A2);
				} else {
					o.push(g.next().unwrap());
				}
			}
			out.push(o);
		}
	}
	out
}
