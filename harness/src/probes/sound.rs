//! A programmable `Sound` that logs every `process` call.

use crate::engine::monitor;
use kira::info::Info;
use kira::sound::{Sound, SoundData};
use kira::Frame;
use std::sync::atomic::{AtomicBool, AtomicU64, AtomicUsize, Ordering};
use std::sync::{Arc, Mutex};

#[derive(Debug, Clone)]
pub enum Signal {
	/// constant (left, right)
	Dc(f32, f32),
	/// frame i = base + i * step on both channels (index-coded: the played index is readable)
	Ramp { base: f32, step: f32 },
	/// explicit frames, silence afterwards
	Table(Arc<[Frame]>),
}

impl Signal {
	pub fn at(&self, i: usize) -> Frame {
		match self {
			Signal::Dc(l, r) => Frame::new(*l, *r),
			Signal::Ramp { base, step } => Frame::from_mono(base + i as f32 * step),
			Signal::Table(t) => t.get(i).copied().unwrap_or(Frame::ZERO),
		}
	}
}

#[derive(Debug)]
pub struct SoundLog {
	/// (slice length, dt) of every process call; pre-allocated, `overflow` counts dropped entries
	pub calls: Mutex<Vec<(usize, f64)>>,
	pub overflow: AtomicUsize,
	/// number of frames emitted so far (the running frame counter)
	pub frames: AtomicUsize,
	pub on_start_calls: AtomicUsize,
	pub stop: AtomicBool,
	pub dropped: AtomicBool,
	pub dropped_in_callback: AtomicBool,
	pub dropped_thread: AtomicU64,
}

fn thread_num() -> u64 {
	// ThreadId has no stable integer accessor; hash its Debug text without allocating much
	use std::hash::{Hash, Hasher};
	let mut h = std::collections::hash_map::DefaultHasher::new();
	std::thread::current().id().hash(&mut h);
	h.finish()
}

pub struct ProbeSoundData {
	pub signal: Signal,
	/// number of frames after which the sound reports `finished` (None: plays until stopped)
	pub len: Option<usize>,
	pub log_capacity: usize,
}

impl ProbeSoundData {
	pub fn new(signal: Signal, len: Option<usize>) -> Self {
		Self {
			signal,
			len,
			log_capacity: 4096,
		}
	}
}

pub struct ProbeSoundHandle {
	pub log: Arc<SoundLog>,
}

impl ProbeSoundHandle {
	/// the sound reports `finished()` from now on
	pub fn finish(&self) {
		self.log.stop.store(true, Ordering::SeqCst);
	}
	pub fn take_calls(&self) -> Vec<(usize, f64)> {
		let mut c = self.log.calls.lock().unwrap();
		let v = c.clone();
		c.clear();
		v
	}
}

struct ProbeSound {
	signal: Signal,
	len: Option<usize>,
	pos: usize,
	log: Arc<SoundLog>,
}

impl Sound for ProbeSound {
	fn on_start_processing(&mut self) {
		self.log.on_start_calls.fetch_add(1, Ordering::SeqCst);
	}

	fn process(&mut self, out: &mut [Frame], dt: f64, _info: &Info) {
		{
			let mut calls = self.log.calls.lock().unwrap();
			if calls.len() < calls.capacity() {
				calls.push((out.len(), dt));
			} else {
				self.log.overflow.fetch_add(1, Ordering::SeqCst);
			}
		}
		for f in out.iter_mut() {
			let live = self.len.map(|l| self.pos < l).unwrap_or(true);
			*f = if live { self.signal.at(self.pos) } else { Frame::ZERO };
			self.pos += 1;
		}
		self.log.frames.store(self.pos, Ordering::SeqCst);
	}

	fn finished(&self) -> bool {
		self.log.stop.load(Ordering::SeqCst) || self.len.map(|l| self.pos >= l).unwrap_or(false)
	}
}

impl Drop for ProbeSound {
	fn drop(&mut self) {
		self.log.dropped.store(true, Ordering::SeqCst);
		self.log.dropped_in_callback.store(monitor::in_callback(), Ordering::SeqCst);
		self.log.dropped_thread.store(thread_num(), Ordering::SeqCst);
	}
}

impl SoundData for ProbeSoundData {
	type Error = ();
	type Handle = ProbeSoundHandle;

	fn into_sound(self) -> Result<(Box<dyn Sound>, Self::Handle), ()> {
		let log = Arc::new(SoundLog {
			calls: Mutex::new(Vec::with_capacity(self.log_capacity)),
			overflow: AtomicUsize::new(0),
			frames: AtomicUsize::new(0),
			on_start_calls: AtomicUsize::new(0),
			stop: AtomicBool::new(false),
			dropped: AtomicBool::new(false),
			dropped_in_callback: AtomicBool::new(false),
			dropped_thread: AtomicU64::new(0),
		});
		Ok((
			Box::new(ProbeSound {
				signal: self.signal,
				len: self.len,
				pos: 0,
				log: log.clone(),
			}),
			ProbeSoundHandle { log },
		))
	}
}
