//! Control of kira's decoder threads through the `kira::verif` hook (H2): the harness owns the
//! schedule at decoder-step / callback granularity.
//!
//! * while a callback is active every decoder thread is parked at the top of its loop, so the
//!   content of the frame ring is fixed for the duration of the callback;
//! * before a callback the harness waits until every tracked decoder is quiescent (its ring is
//!   full, it has ended, or it has used up its step budget), so the ring content at the start
//!   of the callback is a function of the case alone;
//! * an optional per-stream step budget models slow / stalled decoders (C10).

use super::decoder::DecoderLog;
use std::collections::HashMap;
use std::sync::atomic::{AtomicBool, AtomicU64, Ordering};
use std::sync::{Arc, Mutex, Once};
use std::time::{Duration, Instant};

#[derive(Debug, Clone, Copy, Default)]
pub struct StreamState {
	pub pushed: u64,
	pub loops: u64,
	pub full: bool,
	/// the decoder thread has returned End (stopped or reached the end of the data)
	pub ended: bool,
	/// number of errors the decoder has reported
	pub errors: u64,
	/// round (callback count) in which `full` / `parked` was last reported
	pub seen_round: u64,
	/// remaining decoder steps (None = unlimited)
	pub budget: Option<u64>,
	/// the thread is parked because its budget is exhausted
	pub parked: bool,
	/// the case that owned this stream is over: the thread is parked for good (kira leaks
	/// decoder threads of sounds that are never stopped; parking keeps them from eating CPU)
	pub abandoned: bool,
	/// epoch in which the stream's decoder thread was first seen
	pub epoch: u64,
	/// hash of the decoder thread's id: ids (addresses) are reused after a thread has ended
	pub thread: u64,
	/// registration number: stamped when a new decoder thread is first seen under this id
	pub reg: u64,
	/// loop iterations made after the case that owned the stream was over
	pub zombie_loops: u64,
}

static CALLBACK_ACTIVE: AtomicBool = AtomicBool::new(false);
static TOTAL_LOOPS: AtomicU64 = AtomicU64::new(0);
static TOTAL_PUSHED: AtomicU64 = AtomicU64::new(0);
static CAPTURE: AtomicBool = AtomicBool::new(false);
static PUSH_LOG: Mutex<Option<HashMap<usize, Vec<usize>>>> = Mutex::new(None);
static REG: Mutex<Option<HashMap<usize, StreamState>>> = Mutex::new(None);
static INSTALL: Once = Once::new();

static EPOCH: AtomicU64 = AtomicU64::new(1);
static REG_COUNTER: AtomicU64 = AtomicU64::new(1);
/// step budget given to decoder threads when they are first seen (u64::MAX = unlimited)
static DEFAULT_BUDGET: AtomicU64 = AtomicU64::new(u64::MAX);
/// incremented whenever a callback ends: a decoder is quiescent only if it reported a full ring
/// (or an exhausted budget) after the last callback ended
static ROUND: AtomicU64 = AtomicU64::new(1);

fn thread_hash() -> u64 {
	use std::hash::{Hash, Hasher};
	let mut h = std::collections::hash_map::DefaultHasher::new();
	std::thread::current().id().hash(&mut h);
	h.finish() | 1
}

/// entry of the calling decoder thread; an entry left behind by an earlier thread with the same
/// id is reset
fn entry<'a>(r: &'a mut HashMap<usize, StreamState>, id: usize) -> &'a mut StreamState {
	let t = thread_hash();
	let st = r.entry(id).or_default();
	if st.thread != t {
		*st = StreamState {
			thread: t,
			epoch: EPOCH.load(Ordering::SeqCst),
			reg: REG_COUNTER.fetch_add(1, Ordering::SeqCst) + 1,
			budget: match DEFAULT_BUDGET.load(Ordering::SeqCst) {
				u64::MAX => None,
				b => Some(b),
			},
			..Default::default()
		};
	}
	st.abandoned = st.epoch < EPOCH.load(Ordering::SeqCst);
	st
}

fn with_reg<R>(f: impl FnOnce(&mut HashMap<usize, StreamState>) -> R) -> R {
	let mut g = REG.lock().unwrap_or_else(|e| e.into_inner());
	f(g.get_or_insert_with(HashMap::new))
}

pub fn install() {
	INSTALL.call_once(|| {
		kira::verif::set_hook(Some(Arc::new(|site, id, b| match site {
			"clock_load_ticks" | "clock_load_fraction" | "clock_store_ticks" | "clock_store_fraction" => super::clocksched::on_hook(site),
			"res_reserve" | "res_drain" | "res_push" | "res_remove" | "res_refill" => super::ressched::on_hook(site, id),
			"decode_loop" => {
				// a thread whose case is over runs on freely so that it can notice that its sound is
				// stopped or gone and end; one that is still looping a few thousand iterations later is
				// a leak of kira's (a known finding) and is parked for good so that it costs no CPU
				let zombie = with_reg(|r| {
					let st = entry(r, id);
					if st.abandoned {
						st.zombie_loops += 1;
						Some(st.zombie_loops)
					} else {
						None
					}
				});
				if let Some(n) = zombie {
					if n > 3000 {
						loop {
							std::thread::park();
						}
					}
					return;
				}
				TOTAL_LOOPS.fetch_add(1, Ordering::Relaxed);
				loop {
					let blocked_by_budget = with_reg(|r| {
						let st = entry(r, id);
						match st.budget {
							Some(0) => {
								st.parked = true;
								st.seen_round = ROUND.load(Ordering::SeqCst);
								true
							}
							_ => {
								st.parked = false;
								false
							}
						}
					});
					if !blocked_by_budget && !CALLBACK_ACTIVE.load(Ordering::SeqCst) {
						break;
					}
					if with_reg(|r| entry(r, id).abandoned) {
						// the case ended while this thread was held back: let it go (see above)
						return;
					}
					std::thread::sleep(Duration::from_micros(50));
				}
				with_reg(|r| {
					let st = entry(r, id);
					st.loops += 1;
					if let Some(b) = &mut st.budget {
						*b = b.saturating_sub(1);
					}
				});
			}
			"decode_pushed" => with_reg(|r| {
				if entry(r, id).abandoned {
					return;
				}
				TOTAL_PUSHED.fetch_add(1, Ordering::Relaxed);
				if CAPTURE.load(Ordering::SeqCst) {
					let mut g = PUSH_LOG.lock().unwrap_or_else(|e| e.into_inner());
					g.get_or_insert_with(HashMap::new).entry(id).or_default().push(b);
				}
				let st = entry(r, id);
				st.pushed += 1;
				st.full = false;
			}),
			"decode_end" => with_reg(|r| {
				entry(r, id).ended = true;
			}),
			"decode_error" => with_reg(|r| {
				entry(r, id).errors += 1;
			}),
			"decode_wait" => with_reg(|r| {
				let st = entry(r, id);
				st.full = true;
				st.seen_round = ROUND.load(Ordering::SeqCst);
			}),
			_ => {}
		})));
	});
}

pub fn set_callback_active(active: bool) {
	if !active {
		ROUND.fetch_add(1, Ordering::SeqCst);
	}
	CALLBACK_ACTIVE.store(active, Ordering::SeqCst);
}

pub fn state(id: usize) -> StreamState {
	with_reg(|r| r.get(&id).copied().unwrap_or_default())
}

pub fn set_budget(id: usize, budget: Option<u64>) {
	with_reg(|r| {
		let st = r.entry(id).or_default();
		st.budget = budget;
		// (the thread reports itself parked again when the new budget is used up)
		if budget != Some(0) {
			st.parked = false;
		}
	});
	// (called by the harness thread: the entry keeps the decoder thread's identity)
}

/// Take this before creating a streaming sound ...
pub fn mark() -> u64 {
	REG_COUNTER.load(Ordering::SeqCst)
}

/// ... and call this right after: waits until the new sound's decoder thread has checked in under
/// `id` (ids are addresses and get reused, so an entry left behind by an earlier thread must not
/// be mistaken for the new one).
pub fn adopt(id: usize, mark: u64) {
	// an entry left behind under this id by an earlier thread must not be read as the new one's
	with_reg(|r| {
		if r.get(&id).map(|s| s.reg <= mark) == Some(true) {
			r.remove(&id);
		}
	});
	let start = Instant::now();
	while state(id).reg <= mark {
		if start.elapsed() > Duration::from_secs(30) {
			// the new thread was not scheduled: whatever the case concludes is not a verdict
			LOST_CONTROL.store(true, Ordering::SeqCst);
			return;
		}
		std::thread::sleep(Duration::from_micros(50));
	}
}

static LOST_CONTROL: AtomicBool = AtomicBool::new(false);

/// true (once) if, since the last call, the harness failed to get hold of a decoder thread in
/// time: the case that was running is inconclusive
pub fn take_lost_control() -> bool {
	LOST_CONTROL.swap(false, Ordering::SeqCst)
}

/// budget for decoder threads that have not been seen yet (None = unlimited)
pub fn set_default_budget(b: Option<u64>) {
	DEFAULT_BUDGET.store(b.unwrap_or(u64::MAX), Ordering::SeqCst);
}

/// adds steps to a stream's budget
pub fn grant(id: usize, steps: u64) {
	with_reg(|r| {
		let st = r.entry(id).or_default();
		st.budget = Some(st.budget.unwrap_or(0).saturating_add(steps));
		// (the thread reports itself parked again once these steps are used up)
		if steps > 0 {
			st.parked = false;
		}
	});
}

pub fn forget(id: usize) {
	with_reg(|r| {
		r.remove(&id);
	});
}

/// Marks every stream seen so far as abandoned (call when a case is over).
pub fn abandon_all() {
	EPOCH.fetch_add(1, Ordering::SeqCst);
	// entries of threads that have ended would otherwise pile up
	with_reg(|r| {
		if r.len() > 4096 {
			r.clear();
		}
	});
}

pub fn total_loops() -> u64 {
	TOTAL_LOOPS.load(Ordering::Relaxed)
}

/// decode-loop iterations of all threads that did not deliver a frame
pub fn total_idle_loops() -> u64 {
	// (read pushes first: an iteration in flight is then counted as idle at worst once per thread)
	let p = TOTAL_PUSHED.load(Ordering::SeqCst);
	TOTAL_LOOPS.load(Ordering::SeqCst).saturating_sub(p)
}

/// Waits until every given stream is quiescent: decoder dropped, ring full, or parked on an
/// exhausted budget. Returns false on timeout.
pub fn wait_quiescent(streams: &[(usize, Arc<DecoderLog>)], timeout: Duration) -> bool {
	let start = Instant::now();
	loop {
		let all = streams.iter().all(|(id, log)| {
			if log.dropped.load(Ordering::SeqCst) {
				return true;
			}
			let st = state(*id);
			st.ended || st.errors > 0 || ((st.full || st.parked) && st.seen_round == ROUND.load(Ordering::SeqCst))
		});
		if all {
			return true;
		}
		if start.elapsed() > timeout {
			return false;
		}
		std::thread::sleep(Duration::from_micros(50));
	}
}

/// `wait_quiescent`; a timeout marks the running case as inconclusive (see `take_lost_control`)
pub fn wait_quiescent_or_flag(streams: &[(usize, Arc<DecoderLog>)], timeout: Duration) -> bool {
	let ok = wait_quiescent(streams, timeout);
	if !ok {
		LOST_CONTROL.store(true, Ordering::SeqCst);
	}
	ok
}

/// record the source index of every frame a decoder delivers (C07)
pub fn capture_pushes(on: bool) {
	CAPTURE.store(on, Ordering::SeqCst);
	let mut g = PUSH_LOG.lock().unwrap_or_else(|e| e.into_inner());
	*g = None;
}

pub fn take_pushes(id: usize) -> Vec<usize> {
	let mut g = PUSH_LOG.lock().unwrap_or_else(|e| e.into_inner());
	g.get_or_insert_with(HashMap::new).remove(&id).unwrap_or_default()
}

/// `wait_quiescent` with a generous limit; a timeout means the harness lost control of the
/// schedule (machine overloaded), which makes the case inconclusive rather than failed
pub fn settle(streams: &[(usize, Arc<DecoderLog>)]) -> Result<(), crate::engine::Failure> {
	if wait_quiescent(streams, Duration::from_secs(30)) {
		Ok(())
	} else {
		Err(crate::engine::Failure::new("inconclusive", "inconclusive", "a decoder thread did not reach its scheduling point within 30 s"))
	}
}
