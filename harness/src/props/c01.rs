//! C01 - the audio callback is real-time safe and its output is always well-formed.

use crate::engine::{CaseInfo, CaseResult, Ctx, Failure, Property, Src, Tier};
use crate::probes::{Callback, SENTINEL};
use crate::scene::ast::{Op, Program};
use crate::scene::exec::{uses_streaming, World};
use crate::scene::gen::{gen_program, GenOpts};
use std::time::Duration;

pub struct C01;

/// checks one callback's monitors and output
pub fn check_callback(cb: &Callback, frames: usize, channels: u16, op_index: usize) -> Result<(), Failure> {
	if let Some(p) = &cb.guard.panic {
		return Err(Failure::panic("", p));
	}
	if cb.guard.allocs > 0 || cb.guard.deallocs > 0 {
		let bt = cb.guard.first_alloc_bt.clone().unwrap_or_default();
		let site = alloc_site(&bt);
		return Err(Failure::new(
			"no-heap-in-callback",
			"no-heap-in-callback",
			format!("op #{op_index}: {} allocations and {} frees inside the audio callback{}{}", cb.guard.allocs, cb.guard.deallocs, if site.is_empty() { String::new() } else { format!(" (first at {site})") }, if bt.is_empty() { String::new() } else { format!("\n{bt}") }),
		));
	}
	if cb.guard.elapsed > Duration::from_secs(5) {
		return Err(Failure::simple("returns-promptly", format!("op #{op_index}: callback of {frames} frames took {:?}", cb.guard.elapsed)));
	}
	let ch = channels as usize;
	if cb.out.len() != frames * ch {
		return Err(Failure::simple("buffer-size", format!("op #{op_index}: output has {} samples", cb.out.len())));
	}
	for (i, s) in cb.out.iter().enumerate() {
		if *s == SENTINEL {
			return Err(Failure::simple("buffer-fully-written", format!("op #{op_index}: sample {i} (frame {}, channel {}) was not written", i / ch, i % ch)));
		}
		if !s.is_finite() {
			return Err(Failure::simple("finite-samples", format!("op #{op_index}: sample {i} (frame {}, channel {}) = {s:?}", i / ch, i % ch)));
		}
		if !(-1.0..=1.0).contains(s) {
			return Err(Failure::simple("samples-in-range", format!("op #{op_index}: sample {i} (frame {}, channel {}) = {s:?}", i / ch, i % ch)));
		}
		if i % ch >= 2 && *s != 0.0 {
			return Err(Failure::simple("extra-channels-silent", format!("op #{op_index}: frame {} channel {} = {s:?}", i / ch, i % ch)));
		}
	}
	Ok(())
}

fn alloc_site(bt: &str) -> String {
	// first backtrace line mentioning kira's sources
	for l in bt.lines() {
		if l.contains("/crates/kira/src/") {
			return l.trim().trim_start_matches("at ").to_string();
		}
	}
	String::new()
}

/// Runs a program, checking every callback; returns the stereo-or-n-channel output per callback.
pub fn run_program(p: &Program, channels: u16, ibs: usize, check: bool) -> Result<(Vec<Vec<f32>>, World), Failure> {
	let mut w = World::new(&p.config, channels, ibs);
	let mut outs = vec![];
	for (i, op) in p.ops.iter().enumerate() {
		if let Some(cb) = w.exec(op) {
			let frames = match op {
				Op::Callback(n) => *n,
				_ => 0,
			};
			if check {
				check_callback(&cb, frames, channels, i)?;
			} else if let Some(pn) = &cb.guard.panic {
				return Err(Failure::panic("", pn));
			}
			outs.push(cb.out);
		}
	}
	Ok((outs, w))
}

impl Property for C01 {
	fn id(&self) -> &'static str {
		"C01"
	}
	fn rule(&self) -> &'static str {
		"each case is a program: a mixer configuration (device rate 8k..192k, internal buffer 1..512, 1..8 channels, capacities, main-track effects) and up to 60 operations drawn from: play static / streaming sound (all settings, slices, loop regions, reverse, start times, Value links), add sub / spatial / send track (effects incl. nested delay feedback, sends, persist, capacities), add clock / LFO / tweener / listener, every setter of every handle with generated tweens (zero / sub-callback / long, all easings, immediate / delayed / clock start), drop any handle, change sample rate, device callback of 1..3x the internal buffer (multiples, non-multiples, one frame). After every callback: no panic, zero allocations and frees (counting global allocator armed only inside the callback), buffer fully overwritten, all samples finite and in [-1,1], channels beyond 2 exactly 0; 1-channel and k-channel renders of the same deterministic program must equal (L+R)/2 and the stereo render bit-for-bit. Non-trivial = some callback produced non-zero output and the program has at least one effect or sub-track; distinct = distinct decoded choices."
	}
	fn assumptions(&self) -> Vec<String> {
		vec![
			"a device callback is Renderer::on_start_processing + Renderer::process on one thread (what the cpal backend does); on_change_sample_rate runs between callbacks and may allocate".into(),
			"argument box: |dB| <= 200, |playback rate| <= 64, clock speed <= 1e5 ticks/s, LFO frequency <= 1e6 Hz, durations <= 1e4 s, seeks <= 100 s, coordinates <= 1e6, unit quaternions; feedback loops restricted to loop gain <= 0.95".into(),
			"input classes listed in KNOWN_FINDINGS.txt are excluded by construction (counted under excluded_by_construction) so the search continues behind them".into(),
			"a callback slower than 5 s, or a case that does not return within the watchdog limit, counts as not returning promptly".into(),
		]
	}
	fn tape_len(&self, tier: Tier) -> usize {
		tier.pick(700, 1400)
	}
	fn cases(&self, tier: Tier) -> u64 {
		tier.pick(150_000, 1_500_000)
	}
	fn hang_is_violation(&self) -> bool {
		true
	}
	fn case_time_limit_s(&self) -> u64 {
		30
	}

	fn run(&self, tape: &[u32], ctx: &mut Ctx) -> CaseResult {
		let mut src = Src::new(tape);
		let mut opts = GenOpts::default();
		if ctx.tier == Tier::Thorough {
			opts.max_ops = 100;
		}
		let program = gen_program(&mut src, ctx, &opts);
		let differential = !uses_streaming(&program) && src.chance(1, 3);
		ctx.describe(|| format!("{program:#?}"));
		let ch = program.config.channels;
		let ibs = program.config.internal_buffer_size;
		let (outs, world) = run_program(&program, ch, ibs, true)?;
		let nonzero = outs.iter().any(|o| o.iter().any(|s| *s != 0.0));
		let mut classes = vec![];
		if differential {
			classes.push("channel-differential");
			// the same deterministic program rendered with 2, 1 and k channels
			let (stereo, _) = run_program(&program, 2, ibs, true)?;
			let (mono, _) = run_program(&program, 1, ibs, true)?;
			let k = if ch > 2 { ch } else { 5 };
			let (multi, _) = run_program(&program, k, ibs, true)?;
			for (ci, ((s, m), x)) in stereo.iter().zip(mono.iter()).zip(multi.iter()).enumerate() {
				let frames = s.len() / 2;
				for f in 0..frames {
					let (l, r) = (s[2 * f], s[2 * f + 1]);
					let want = (l + r) / 2.0;
					if m[f] != want {
						return Err(Failure::simple("mono-is-mean", format!("callback {ci} frame {f}: mono sample {} but (L+R)/2 = {} (L={l}, R={r})", m[f], want)));
					}
					let base = f * k as usize;
					if x[base] != l || x[base + 1] != r {
						return Err(Failure::simple("multichannel-equals-stereo", format!("callback {ci} frame {f}: {k}-channel render has ({}, {}) but stereo has ({l}, {r})", x[base], x[base + 1])));
					}
				}
			}
		}
		let has_fx_or_track = !program.config.main_effects.is_empty() || program.ops.iter().any(|o| matches!(o, Op::AddTrack(_) | Op::AddSend { .. }));
		for op in &program.ops {
			match op {
				Op::ChangeSampleRate(_) => classes.push("sample-rate-change"),
				Op::Drop(..) => classes.push("drop"),
				Op::PlayStream(..) => classes.push("streaming"),
				Op::Fx(_) => classes.push("fx-command"),
				Op::Callback(n) if n % ibs != 0 => classes.push("callback-not-multiple-of-buffer"),
				_ => {}
			}
		}
		classes.sort();
		classes.dedup();
		if world.refused > 0 {
			classes.push("limit-reached");
		}
		Ok(CaseInfo::new(&src, nonzero && has_fx_or_track, classes))
	}
}
