//! C02 - mixer output equals the documented signal-flow sum; nothing leaks or is lost.

use crate::engine::{CaseInfo, CaseResult, Ctx, Failure, Property, Src, Tier};
use crate::ensure;
use crate::models::param::DbParam;
use crate::probes::{manager, EffectLog, Mgr, ProbeEffectBuilder, ProbeKind, ProbeSoundData, ProbeSoundHandle, Signal};
use kira::effect::panning_control::PanningControlBuilder;
use kira::effect::volume_control::VolumeControlBuilder;
use kira::track::{MainTrackBuilder, SendTrackBuilder, SendTrackHandle, SendTrackId, TrackBuilder, TrackHandle};
use kira::{Capacities, Decibels, Panning, Tween, Value};
use std::sync::atomic::Ordering;
use std::sync::Arc;
use std::time::Duration;

pub struct C02;

const SR: u32 = 48000;

#[derive(Debug, Clone, Copy, PartialEq)]
enum Fx {
	Gain(f32),
	Clip(f32),
	Swap,
	Volume(f32),
	Pan(f32),
}

#[derive(Debug, Clone, PartialEq)]
struct TrackSpec {
	/// None = child of the main track
	parent: Option<usize>,
	volume_db: f32,
	effects: Vec<Fx>,
	routes: Vec<(usize, f32)>,
}

#[derive(Debug, Clone, PartialEq)]
struct SoundSpec {
	/// None = on the main track
	track: Option<usize>,
	/// DC level (left, right) or ramp base/step
	dc: Option<(f32, f32)>,
	base: f32,
	step: f32,
	len: Option<usize>,
	/// a real static sound whose start time lies 10 000 s ahead is put on the same track first: it
	/// is asked for audio like any other sound and must contribute exact silence
	idle_first: bool,
}

#[derive(Debug, Clone, PartialEq)]
enum Op {
	AddSend { volume_db: f32, effects: Vec<Fx> },
	AddTrack(TrackSpec),
	AddSound(SoundSpec),
	FinishSound(usize),
	DropSound(usize),
	DropTrack(usize),
	DropSend(usize),
	PauseTrack(usize),
	ResumeTrack(usize),
	/// target in dB, duration in seconds
	TrackVolume(usize, f32, f64),
	SendVolume(usize, f32, f64),
	RouteVolume(usize, usize, f32, f64),
	MainVolume(f32, f64),
	Callback(usize),
}

#[derive(Debug, Clone)]
struct Case {
	ibs: usize,
	main_volume_db: f32,
	main_effects: Vec<Fx>,
	ops: Vec<Op>,
}

// ------------------------------------------------------------------------------------------
// reference evaluator

/// (left, right, magnitude): the magnitude is the same signal flow evaluated on absolute values,
/// so it is zero only where nothing at all is routed (a zero that comes from cancellation of
/// two paths is not 'exact silence')
type F2 = (f64, f64, f64);

fn apply_fx(fx: &[MFx], x: F2, a: f64) -> F2 {
	let mut v = x;
	for f in fx {
		v = match f {
			MFx::Gain(g) => (v.0 * *g as f64, v.1 * *g as f64, v.2 * (*g as f64).abs()),
			MFx::Clip(l) => (v.0.clamp(-*l as f64, *l as f64), v.1.clamp(-*l as f64, *l as f64), v.2),
			MFx::Swap => (v.1, v.0, v.2),
			MFx::Volume(p) => {
				let g = p.amp_at(a);
				(v.0 * g, v.1 * g, v.2 * g)
			}
			MFx::Pan(p) => {
				if *p == 0.0 {
					v
				} else {
					let p = (*p as f64).clamp(-1.0, 1.0);
					let m = (p + 1.0) * 0.5;
					(v.0 * (1.0 - m).sqrt() * std::f64::consts::SQRT_2, v.1 * m.sqrt() * std::f64::consts::SQRT_2, v.2 * std::f64::consts::SQRT_2)
				}
			}
		};
	}
	v
}

#[derive(Debug, Clone)]
enum MFx {
	Gain(f32),
	Clip(f32),
	Swap,
	Volume(DbParam),
	Pan(f32),
}

fn mfx(fx: &[Fx]) -> Vec<MFx> {
	fx.iter()
		.map(|f| match f {
			Fx::Gain(g) => MFx::Gain(*g),
			Fx::Clip(l) => MFx::Clip(*l),
			Fx::Swap => MFx::Swap,
			Fx::Volume(db) => MFx::Volume(DbParam::new(*db as f64)),
			Fx::Pan(p) => MFx::Pan(*p),
		})
		.collect()
}

#[derive(Debug, Clone, Copy, PartialEq)]
enum Where {
	Queued,
	Live,
	Gone,
}

#[derive(Debug, Clone)]
struct MTrack {
	parent: Option<usize>,
	vol: DbParam,
	fade: DbParam,
	paused: bool,
	/// pause and resume are separate commands; both may arrive between two callbacks, and the
	/// track reads pause first, then resume
	pending_pause: bool,
	pending_resume: bool,
	pending_vol: Option<(f64, f64)>,
	fx: Vec<MFx>,
	routes: Vec<(usize, DbParam, Option<(f64, f64)>)>,
	place: Where,
	handle_dropped: bool,
}

#[derive(Debug, Clone)]
struct MSound {
	track: Option<usize>,
	spec: SoundSpec,
	pos: usize,
	place: Where,
	finished: bool,
	/// frames the real probe must have been asked for so far
	expected_frames: usize,
}

#[derive(Debug, Clone)]
struct MSend {
	vol: DbParam,
	pending_vol: Option<(f64, f64)>,
	fx: Vec<MFx>,
	place: Where,
	handle_dropped: bool,
}

struct Model {
	tracks: Vec<MTrack>,
	sounds: Vec<MSound>,
	sends: Vec<MSend>,
	main_vol: DbParam,
	main_pending: Option<(f64, f64)>,
	main_fx: Vec<MFx>,
}

impl Model {
	fn children(&self, parent: Option<usize>) -> Vec<usize> {
		(0..self.tracks.len()).filter(|i| self.tracks[*i].parent == parent).collect()
	}

	fn should_be_removed(&self, t: usize) -> bool {
		for c in self.children(Some(t)) {
			if self.tracks[c].place == Where::Live && !self.should_be_removed(c) {
				return false;
			}
		}
		self.tracks[t].handle_dropped
	}

	fn kill(&mut self, t: usize) {
		self.tracks[t].place = Where::Gone;
		for s in self.sounds.iter_mut() {
			if s.track == Some(t) {
				s.place = Where::Gone;
			}
		}
		for c in self.children(Some(t)) {
			if self.tracks[c].place != Where::Gone {
				self.kill(c);
			}
		}
	}

	/// what the audio thread does at the start of a callback for the children of `parent`
	fn start_processing_level(&mut self, parent: Option<usize>) {
		// removal pass over the live children, then the queued ones are picked up
		let kids = self.children(parent);
		for &c in &kids {
			if self.tracks[c].place == Where::Live && self.should_be_removed(c) {
				self.kill(c);
			}
		}
		for &c in &kids {
			if self.tracks[c].place == Where::Queued {
				self.tracks[c].place = Where::Live;
			}
		}
		for &c in &kids {
			if self.tracks[c].place == Where::Live {
				self.start_processing_track(c);
			}
		}
	}

	fn sounds_start_processing(&mut self, track: Option<usize>) {
		for s in self.sounds.iter_mut().filter(|s| s.track == track) {
			if s.place == Where::Live && (s.finished || s.spec.len.map(|l| s.pos >= l).unwrap_or(false)) {
				s.place = Where::Gone;
			}
		}
		for s in self.sounds.iter_mut().filter(|s| s.track == track) {
			if s.place == Where::Queued {
				s.place = Where::Live;
			}
		}
	}

	fn start_processing_track(&mut self, t: usize) {
		// commands
		if let Some((to, dur)) = self.tracks[t].pending_vol.take() {
			self.tracks[t].vol.set(to, dur);
		}
		for r in self.tracks[t].routes.iter_mut() {
			if let Some((to, dur)) = r.2.take() {
				r.1.set(to, dur);
			}
		}
		// instant fades: pause -> silence, resume -> unity, both with zero-length tweens
		if std::mem::take(&mut self.tracks[t].pending_pause) {
			self.tracks[t].paused = true;
			self.tracks[t].fade.set(-60.0, 0.0);
		}
		if std::mem::take(&mut self.tracks[t].pending_resume) {
			self.tracks[t].paused = false;
			self.tracks[t].fade.set(0.0, 0.0);
		}
		self.sounds_start_processing(Some(t));
		self.start_processing_level(Some(t));
	}

	fn on_start_processing(&mut self) {
		self.start_processing_level(None);
		// send tracks
		for s in self.sends.iter_mut() {
			if s.place == Where::Live && s.handle_dropped {
				s.place = Where::Gone;
			}
		}
		for s in self.sends.iter_mut() {
			if s.place == Where::Queued {
				s.place = Where::Live;
			}
			if s.place == Where::Live {
				if let Some((to, dur)) = s.pending_vol.take() {
					s.vol.set(to, dur);
				}
			}
		}
		if let Some((to, dur)) = self.main_pending.take() {
			self.main_vol.set(to, dur);
		}
		self.sounds_start_processing(None);
	}

	/// updates the per-chunk state of a track subtree; returns the set of tracks that are processed
	fn update_chunk(&mut self, t: usize, dt_chunk: f64, active: &mut Vec<bool>) {
		self.tracks[t].vol.update(dt_chunk);
		for r in self.tracks[t].routes.iter_mut() {
			r.1.update(dt_chunk);
		}
		self.tracks[t].fade.update(dt_chunk);
		// a paused track whose (instant) fade-out has completed is frozen
		let frozen = self.tracks[t].paused && self.tracks[t].fade.tween.is_none();
		if frozen {
			return;
		}
		active[t] = true;
		for f in self.tracks[t].fx.iter_mut() {
			if let MFx::Volume(p) = f {
				p.update(dt_chunk);
			}
		}
		for c in self.children(Some(t)) {
			if self.tracks[c].place == Where::Live {
				self.update_chunk(c, dt_chunk, active);
			}
		}
	}

	fn sound_frame(&mut self, track: Option<usize>) -> F2 {
		let mut acc = (0.0, 0.0, 0.0);
		for s in self.sounds.iter_mut().filter(|s| s.track == track && s.place == Where::Live) {
			let live = s.spec.len.map(|l| s.pos < l).unwrap_or(true);
			if live {
				let v = match s.spec.dc {
					Some((l, r)) => (l as f64, r as f64),
					None => {
						let v = (s.spec.base + s.pos as f32 * s.spec.step) as f64;
						(v, v)
					}
				};
				acc.0 += v.0;
				acc.1 += v.1;
				acc.2 += v.0.abs() + v.1.abs();
			}
			s.pos += 1;
			s.expected_frames += 1;
		}
		acc
	}

	fn track_frame(&mut self, t: usize, a: f64, active: &[bool], send_in: &mut [F2]) -> F2 {
		if !active[t] {
			return (0.0, 0.0, 0.0);
		}
		let mut acc = (0.0, 0.0, 0.0);
		for c in self.children(Some(t)) {
			if self.tracks[c].place == Where::Live {
				let v = self.track_frame(c, a, active, send_in);
				acc.0 += v.0;
				acc.1 += v.1;
				acc.2 += v.2;
			}
		}
		let s = self.sound_frame(Some(t));
		acc.0 += s.0;
		acc.1 += s.1;
		acc.2 += s.2;
		let v = apply_fx(&self.tracks[t].fx, acc, a);
		let g = self.tracks[t].vol.amp_at(a) * self.tracks[t].fade.amp_at(a);
		let out = (v.0 * g, v.1 * g, v.2 * g);
		for (send, vol, _) in &self.tracks[t].routes {
			if self.sends[*send].place == Where::Live {
				let rv = vol.amp();
				send_in[*send].0 += out.0 * rv;
				send_in[*send].1 += out.1 * rv;
				send_in[*send].2 += out.2 * rv;
			}
		}
		out
	}

	/// renders one internal chunk of `n` frames
	fn chunk(&mut self, n: usize) -> Vec<F2> {
		let dt_chunk = n as f64 / SR as f64;
		let mut active = vec![false; self.tracks.len()];
		for t in self.children(None) {
			if self.tracks[t].place == Where::Live {
				self.update_chunk(t, dt_chunk, &mut active);
			}
		}
		for s in self.sends.iter_mut() {
			if s.place == Where::Live {
				s.vol.update(dt_chunk);
				for f in s.fx.iter_mut() {
					if let MFx::Volume(p) = f {
						p.update(dt_chunk);
					}
				}
			}
		}
		self.main_vol.update(dt_chunk);
		for f in self.main_fx.iter_mut() {
			if let MFx::Volume(p) = f {
				p.update(dt_chunk);
			}
		}
		let mut out = Vec::with_capacity(n);
		for i in 0..n {
			let a = (i + 1) as f64 / n as f64;
			let mut send_in = vec![(0.0, 0.0, 0.0); self.sends.len()];
			let mut acc = (0.0, 0.0, 0.0);
			for t in self.children(None) {
				if self.tracks[t].place == Where::Live {
					let v = self.track_frame(t, a, &active, &mut send_in);
					acc.0 += v.0;
					acc.1 += v.1;
					acc.2 += v.2;
				}
			}
			for (k, s) in self.sends.iter().enumerate() {
				if s.place == Where::Live {
					let v = apply_fx(&s.fx, send_in[k], a);
					let g = s.vol.amp_at(a);
					acc.0 += v.0 * g;
					acc.1 += v.1 * g;
					acc.2 += v.2 * g;
				}
			}
			let m = self.sound_frame(None);
			acc.0 += m.0;
			acc.1 += m.1;
			acc.2 += m.2;
			let v = apply_fx(&self.main_fx, acc, a);
			let g = self.main_vol.amp_at(a);
			out.push(((v.0 * g).clamp(-1.0, 1.0), (v.1 * g).clamp(-1.0, 1.0), v.2 * g));
		}
		out
	}
}

// ------------------------------------------------------------------------------------------
// the real thing

struct Real {
	mgr: Mgr,
	tracks: Vec<Option<TrackHandle>>,
	sends: Vec<Option<SendTrackHandle>>,
	send_ids: Vec<Option<SendTrackId>>,
	sounds: Vec<Option<ProbeSoundHandle>>,
	sound_logs: Vec<Option<Arc<crate::probes::SoundLog>>>,
	fx_logs: Vec<(Option<usize>, Arc<EffectLog>)>,
	/// probe effects on send tracks: (send index, log)
	send_fx_logs: Vec<(usize, Arc<EffectLog>)>,
	idle: Vec<Option<kira::sound::static_sound::StaticSoundHandle>>,
}

fn add_fx_main(b: &mut MainTrackBuilder, fx: &[Fx], logs: &mut Vec<(Option<usize>, Arc<EffectLog>)>) {
	for f in fx {
		match f {
			Fx::Gain(g) => logs.push((None, b.add_effect(ProbeEffectBuilder::new(ProbeKind::Gain(*g))))),
			Fx::Clip(l) => logs.push((None, b.add_effect(ProbeEffectBuilder::new(ProbeKind::Clip(*l))))),
			Fx::Swap => logs.push((None, b.add_effect(ProbeEffectBuilder::new(ProbeKind::Swap)))),
			Fx::Volume(db) => {
				b.add_effect(VolumeControlBuilder::new(Decibels(*db)));
			}
			Fx::Pan(p) => {
				b.add_effect(PanningControlBuilder(Value::Fixed(Panning(*p))));
			}
		}
	}
}

fn tw(dur: f64) -> Tween {
	Tween {
		duration: Duration::from_secs_f64(dur),
		..Default::default()
	}
}

fn run_case(c: &Case) -> Result<(bool, bool), Failure> {
	let mut fx_logs = vec![];
	let mut main = MainTrackBuilder::new().volume(Decibels(c.main_volume_db));
	add_fx_main(&mut main, &c.main_effects, &mut fx_logs);
	let mgr = manager(SR, c.ibs, Capacities::default(), main);
	let mut real = Real {
		mgr,
		tracks: vec![],
		sends: vec![],
		send_ids: vec![],
		sounds: vec![],
		sound_logs: vec![],
		fx_logs,
		send_fx_logs: vec![],
		idle: vec![],
	};
	let mut model = Model {
		tracks: vec![],
		sounds: vec![],
		sends: vec![],
		main_vol: DbParam::new(c.main_volume_db as f64),
		main_pending: None,
		main_fx: mfx(&c.main_effects),
	};
	let mut t_total = 0usize;
	let mut nonzero = false;
	let mut deep_path = false;
	for (oi, op) in c.ops.iter().enumerate() {
		match op {
			Op::AddSend { volume_db, effects } => {
				let mut b = SendTrackBuilder::new().volume(Decibels(*volume_db));
				for f in effects {
					match f {
						Fx::Gain(g) => real.send_fx_logs.push((real.sends.len(), b.add_effect(ProbeEffectBuilder::new(ProbeKind::Gain(*g))))),
						Fx::Clip(l) => real.send_fx_logs.push((real.sends.len(), b.add_effect(ProbeEffectBuilder::new(ProbeKind::Clip(*l))))),
						Fx::Swap => real.send_fx_logs.push((real.sends.len(), b.add_effect(ProbeEffectBuilder::new(ProbeKind::Swap)))),
						Fx::Volume(db) => {
							b.add_effect(VolumeControlBuilder::new(Decibels(*db)));
						}
						Fx::Pan(p) => {
							b.add_effect(PanningControlBuilder(Value::Fixed(Panning(*p))));
						}
					}
				}
				let h = real.mgr.add_send_track(b).map_err(|_| Failure::simple("setup", "send track limit"))?;
				real.send_ids.push(Some(h.id()));
				real.sends.push(Some(h));
				model.sends.push(MSend {
					vol: DbParam::new(*volume_db as f64),
					pending_vol: None,
					fx: mfx(effects),
					place: Where::Queued,
					handle_dropped: false,
				});
			}
			Op::AddTrack(spec) => {
				let mut b = TrackBuilder::new().volume(Decibels(spec.volume_db));
				let tindex = real.tracks.len();
				for f in &spec.effects {
					match f {
						Fx::Gain(g) => real.fx_logs.push((Some(tindex), b.add_effect(ProbeEffectBuilder::new(ProbeKind::Gain(*g))))),
						Fx::Clip(l) => real.fx_logs.push((Some(tindex), b.add_effect(ProbeEffectBuilder::new(ProbeKind::Clip(*l))))),
						Fx::Swap => real.fx_logs.push((Some(tindex), b.add_effect(ProbeEffectBuilder::new(ProbeKind::Swap)))),
						Fx::Volume(db) => {
							b.add_effect(VolumeControlBuilder::new(Decibels(*db)));
						}
						Fx::Pan(p) => {
							b.add_effect(PanningControlBuilder(Value::Fixed(Panning(*p))));
						}
					}
				}
				let mut routes = vec![];
				for (s, v) in &spec.routes {
					if let Some(Some(id)) = real.send_ids.get(*s) {
						if !routes.iter().any(|(x, _, _): &(usize, DbParam, Option<(f64, f64)>)| x == s) {
							b = b.with_send(*id, Decibels(*v));
							routes.push((*s, DbParam::new(*v as f64), None));
						}
					}
				}
				let h = match spec.parent {
					None => real.mgr.add_sub_track(b).ok(),
					Some(p) => match real.tracks.get_mut(p) {
						Some(Some(ph)) => ph.add_sub_track(b).ok(),
						_ => None,
					},
				};
				let parent_ok = h.is_some();
				real.tracks.push(h);
				model.tracks.push(MTrack {
					parent: spec.parent,
					vol: DbParam::new(spec.volume_db as f64),
					fade: DbParam::new(0.0),
					paused: false,
					pending_pause: false,
					pending_resume: false,
					pending_vol: None,
					fx: mfx(&spec.effects),
					routes,
					place: if parent_ok { Where::Queued } else { Where::Gone },
					handle_dropped: !parent_ok,
				});
				if parent_ok && spec.parent.map(|p| model.tracks[p].parent.is_some()).unwrap_or(false) {
					deep_path = true;
				}
			}
			Op::AddSound(spec) => {
				let signal = match spec.dc {
					Some((l, r)) => Signal::Dc(l, r),
					None => Signal::Ramp { base: spec.base, step: spec.step },
				};
				if spec.idle_first {
					let idle = kira::sound::static_sound::StaticSoundData {
						sample_rate: SR,
						frames: (0..64).map(|_| kira::Frame::new(0.7, -0.7)).collect::<Vec<_>>().into(),
						settings: kira::sound::static_sound::StaticSoundSettings::new().loop_region(..).start_time(kira::StartTime::Delayed(Duration::from_secs(10_000))),
						slice: None,
					};
					let h = match spec.track {
						None => real.mgr.play(idle).ok(),
						Some(t) => match real.tracks.get_mut(t) {
							Some(Some(th)) => th.play(idle).ok(),
							_ => None,
						},
					};
					real.idle.push(h);
				}
				let data = ProbeSoundData::new(signal, spec.len);
				let h = match spec.track {
					None => real.mgr.play(data).ok(),
					Some(t) => match real.tracks.get_mut(t) {
						Some(Some(th)) => th.play(data).ok(),
						_ => None,
					},
				};
				let ok = h.is_some();
				real.sound_logs.push(h.as_ref().map(|h| h.log.clone()));
				real.sounds.push(h);
				model.sounds.push(MSound {
					track: spec.track,
					spec: spec.clone(),
					pos: 0,
					place: if ok { Where::Queued } else { Where::Gone },
					finished: false,
					expected_frames: 0,
				});
			}
			Op::FinishSound(i) => {
				if let Some(Some(h)) = real.sounds.get(*i) {
					h.finish();
					model.sounds[*i].finished = true;
				}
			}
			Op::DropSound(i) => {
				// dropping a sound's handle does not stop the sound
				if let Some(s) = real.sounds.get_mut(*i) {
					*s = None;
				}
			}
			Op::DropTrack(i) => {
				if let Some(s) = real.tracks.get_mut(*i) {
					if s.take().is_some() {
						model.tracks[*i].handle_dropped = true;
					}
				}
			}
			Op::DropSend(i) => {
				if let Some(s) = real.sends.get_mut(*i) {
					if s.take().is_some() {
						model.sends[*i].handle_dropped = true;
					}
				}
			}
			Op::PauseTrack(i) => {
				if let Some(Some(h)) = real.tracks.get_mut(*i) {
					h.pause(tw(0.0));
					model.tracks[*i].pending_pause = true;
				}
			}
			Op::ResumeTrack(i) => {
				if let Some(Some(h)) = real.tracks.get_mut(*i) {
					h.resume(tw(0.0));
					model.tracks[*i].pending_resume = true;
				}
			}
			Op::TrackVolume(i, db, dur) => {
				if let Some(Some(h)) = real.tracks.get_mut(*i) {
					h.set_volume(Decibels(*db), tw(*dur));
					model.tracks[*i].pending_vol = Some((*db as f64, Duration::from_secs_f64(*dur).as_secs_f64()));
				}
			}
			Op::SendVolume(i, db, dur) => {
				if let Some(Some(h)) = real.sends.get_mut(*i) {
					h.set_volume(Decibels(*db), tw(*dur));
					model.sends[*i].pending_vol = Some((*db as f64, Duration::from_secs_f64(*dur).as_secs_f64()));
				}
			}
			Op::RouteVolume(t, s, db, dur) => {
				if let (Some(Some(h)), Some(Some(id))) = (real.tracks.get_mut(*t), real.send_ids.get(*s)) {
					if h.set_send(*id, Decibels(*db), tw(*dur)).is_ok() {
						if let Some(r) = model.tracks[*t].routes.iter_mut().find(|r| r.0 == *s) {
							r.2 = Some((*db as f64, Duration::from_secs_f64(*dur).as_secs_f64()));
						}
					}
				}
			}
			Op::MainVolume(db, dur) => {
				real.mgr.main_track().set_volume(Decibels(*db), tw(*dur));
				model.main_pending = Some((*db as f64, Duration::from_secs_f64(*dur).as_secs_f64()));
			}
			Op::Callback(n) => {
				// clear the probe logs so that this callback's calls can be audited
				for l in real.sound_logs.iter().flatten() {
					l.calls.lock().unwrap().clear();
				}
				for (_, l) in &real.fx_logs {
					l.calls.lock().unwrap().clear();
				}
				for (_, l) in &real.send_fx_logs {
					l.calls.lock().unwrap().clear();
				}
				let cb = real.mgr.backend_mut().callback(*n, 2);
				if let Some(p) = &cb.guard.panic {
					return Err(Failure::panic("", p));
				}
				model.on_start_processing();
				let mut want = Vec::with_capacity(*n);
				let mut left = *n;
				let _ = crate::models::param::take_edge_hit();
				while left > 0 {
					let k = left.min(c.ibs);
					want.extend(model.chunk(k));
					left -= k;
				}
				// a gain within 2e-3 dB of the -60 dB edge: 0 and 0.001 are both right there
				let edge = crate::models::param::take_edge_hit();
				for i in 0..*n {
					let (l, r) = (cb.out[2 * i] as f64, cb.out[2 * i + 1] as f64);
					if l != 0.0 || r != 0.0 {
						nonzero = true;
					}
					let (wl, wr, wmag) = want[i];
					let tol = 1e-5 * (1.0 + wl.abs().max(wr.abs())) + if edge { 4e-3 } else { 0.0 };
					if (l - wl).abs() > tol || (r - wr).abs() > tol {
						return Err(Failure::simple("signal-flow-sum", format!("op #{oi}, output frame {} (frame {i} of this callback): got ({l}, {r}), signal-flow model gives ({wl}, {wr}); case {c:?}", t_total + i)));
					}
					if wmag == 0.0 && !edge {
						ensure!(l == 0.0 && r == 0.0, "exact-silence", "op #{oi}, frame {i}: got ({l}, {r}) where nothing is routed to the output; case {c:?}");
					}
				}
				t_total += n;
				// every live sound on an unfrozen path was asked for every frame exactly once, in
				// slices no longer than the internal buffer size, with dt = 1 / sample rate
				for (si, log) in real.sound_logs.iter().enumerate() {
					let Some(log) = log else { continue };
					let ms = &model.sounds[si];
					let got = log.frames.load(Ordering::SeqCst);
					ensure!(got == ms.expected_frames, "every-frame-asked-once", "op #{oi}: sound {si} has been asked for {got} frames in total, expected {}; case {c:?}", ms.expected_frames);
					let calls = log.calls.lock().unwrap();
					for (len, dt) in calls.iter() {
						ensure!(*len >= 1 && *len <= c.ibs, "slices-within-internal-buffer", "op #{oi}: sound {si} was asked for a slice of {len} frames (internal buffer {}); case {c:?}", c.ibs);
						ensure!((*dt - 1.0 / SR as f64).abs() < 1e-15, "dt-is-sample-period", "op #{oi}: sound {si} got dt = {dt}; case {c:?}");
					}
				}
				for (owner, log) in &real.fx_logs {
					let calls = log.calls.lock().unwrap();
					let total: usize = calls.iter().map(|r| r.len).sum();
					let live_and_active = match owner {
						None => true,
						Some(t) => {
							// processed iff the track and all its ancestors are live and unfrozen
							let mut cur = Some(*t);
							let mut ok = true;
							while let Some(x) = cur {
								let tr = &model.tracks[x];
								if tr.place != Where::Live || (tr.paused && tr.fade.tween.is_none()) {
									ok = false;
								}
								cur = tr.parent;
							}
							ok
						}
					};
					if live_and_active {
						ensure!(total == *n, "every-frame-asked-once", "op #{oi}: an effect on {owner:?} processed {total} frames in a callback of {n}; case {c:?}");
					}
					for r in calls.iter() {
						ensure!(r.len >= 1 && r.len <= c.ibs, "slices-within-internal-buffer", "op #{oi}: an effect was given {} frames (internal buffer {}); case {c:?}", r.len, c.ibs);
						ensure!((r.dt - 1.0 / SR as f64).abs() < 1e-15, "dt-is-sample-period", "op #{oi}: effect got dt = {}; case {c:?}", r.dt);
					}
				}
				// a send track runs its effects for every frame whether or not anything is routed to
				// it at the moment (an effect's tail must keep sounding while its sources are paused)
				for (k, log) in &real.send_fx_logs {
					let calls = log.calls.lock().unwrap();
					let total: usize = calls.iter().map(|r| r.len).sum();
					if model.sends[*k].place == Where::Live {
						ensure!(total == *n, "every-frame-asked-once", "op #{oi}: an effect on send track {k} processed {total} frames in a callback of {n}; case {c:?}");
					}
					for r in calls.iter() {
						ensure!(r.len >= 1 && r.len <= c.ibs, "slices-within-internal-buffer", "op #{oi}: an effect on send track {k} was given {} frames (internal buffer {}); case {c:?}", r.len, c.ibs);
						ensure!((r.dt - 1.0 / SR as f64).abs() < 1e-15, "dt-is-sample-period", "op #{oi}: an effect on send track {k} got dt = {}; case {c:?}", r.dt);
					}
				}
			}
		}
	}
	Ok((nonzero, deep_path))
}

fn gen_fx(src: &mut Src) -> Vec<Fx> {
	let n = src.weighted(&[5, 3, 2, 1]);
	(0..n)
		.map(|_| match src.index(5) {
			0 => Fx::Gain(src.pick(&[0.5f32, 2.0, -1.0, 0.25, 1.5])),
			1 => Fx::Clip(src.pick(&[0.1f32, 0.25, 0.05, 1.0])),
			2 => Fx::Swap,
			3 => Fx::Volume(src.pick(&[-6.0f32, 0.0, -12.0, 6.0, -60.0, -3.0])),
			_ => Fx::Pan(src.pick(&[0.0f32, -1.0, 1.0, 0.5, -0.3])),
		})
		.collect()
}

fn gen_db(src: &mut Src) -> f32 {
	match src.weighted(&[4, 3]) {
		0 => src.pick(&[0.0f32, -3.0, -6.0, -12.0, -60.0, 6.0]),
		_ => src.f32_in(-30.0, 6.0),
	}
}

fn decode(src: &mut Src, tier: Tier) -> Case {
	let ibs = match src.weighted(&[2, 3, 2]) {
		0 => src.pick(&[128usize, 1, 2, 3, 64]),
		1 => src.usize_in(1, 32),
		_ => src.usize_in(1, 256),
	};
	let main_volume_db = gen_db(src);
	let main_effects = gen_fx(src);
	let n_ops = src.usize_in(3, tier.pick(40, 90));
	let mut ops = vec![];
	let (mut n_tracks, mut n_sends, mut n_sounds) = (0usize, 0usize, 0usize);
	let mut depth: Vec<usize> = vec![];
	let mut route_table: Vec<Vec<usize>> = vec![];
	let cb_dur = ibs as f64 / SR as f64;
	for _ in 0..n_ops {
		let w = [
			10,
			if n_sends < 3 { 3 } else { 0 },
			6,
			8,
			if n_sounds > 0 { 2 } else { 0 },
			if n_sounds > 0 { 1 } else { 0 },
			if n_tracks > 0 { 2 } else { 0 },
			if n_sends > 0 { 1 } else { 0 },
			if n_tracks > 0 { 3 } else { 0 },
			if n_tracks > 0 { 3 } else { 0 },
			if n_tracks > 0 { 3 } else { 0 },
			if n_sends > 0 { 1 } else { 0 },
			if n_tracks > 0 && n_sends > 0 { 1 } else { 0 },
			1,
		];
		let gen_dur = |src: &mut Src| match src.weighted(&[3, 2, 3]) {
			0 => 0.0,
			1 => src.f64_uniform(0.0, cb_dur),
			_ => src.f64_uniform(0.0, cb_dur * 6.0),
		};
		let op = match src.weighted(&w) {
			0 => Op::Callback(match src.weighted(&[3, 3, 2, 2]) {
				0 => ibs,
				1 => src.usize_in(1, ibs * 3),
				2 => 1,
				_ => ibs * src.usize_in(1, 3),
			}),
			1 => {
				n_sends += 1;
				Op::AddSend {
					volume_db: gen_db(src),
					effects: gen_fx(src),
				}
			}
			2 => {
				// parent: main or an existing track (depth <= 4)
				let cands: Vec<usize> = (0..n_tracks).filter(|t| depth[*t] < 4).collect();
				let parent = if !cands.is_empty() && src.chance(1, 2) { Some(cands[src.index(cands.len())]) } else { None };
				let mut routes = vec![];
				if n_sends > 0 {
					for _ in 0..src.weighted(&[3, 3, 1]) {
						let s = src.index(n_sends);
						if !routes.iter().any(|(x, _)| *x == s) {
							routes.push((s, gen_db(src)));
						}
					}
				}
				depth.push(parent.map(|p| depth[p] + 1).unwrap_or(1));
				route_table.push(routes.iter().map(|(s, _)| *s).collect());
				n_tracks += 1;
				Op::AddTrack(TrackSpec {
					parent,
					volume_db: gen_db(src),
					effects: gen_fx(src),
					routes,
				})
			}
			3 => {
				let track = if n_tracks > 0 && src.chance(3, 4) { Some(src.index(n_tracks)) } else { None };
				n_sounds += 1;
				let dc = if src.bool() { Some((src.f32_in(-0.3, 0.3), src.f32_in(-0.3, 0.3))) } else { None };
				Op::AddSound(SoundSpec {
					track,
					dc,
					base: src.f32_in(-0.2, 0.2),
					step: src.pick(&[0.001f32, -0.0005, 0.0001, 0.002]),
					len: if src.chance(1, 3) { Some(src.usize_in(0, 200)) } else { None },
					idle_first: src.chance(1, 6),
				})
			}
			4 => Op::FinishSound(src.index(n_sounds)),
			5 => Op::DropSound(src.index(n_sounds)),
			6 => Op::DropTrack(src.index(n_tracks)),
			7 => Op::DropSend(src.index(n_sends)),
			8 => Op::PauseTrack(src.index(n_tracks)),
			9 => Op::ResumeTrack(src.index(n_tracks)),
			10 => Op::TrackVolume(src.index(n_tracks), gen_db(src), gen_dur(src)),
			11 => Op::SendVolume(src.index(n_sends), gen_db(src), gen_dur(src)),
			12 => {
				let t = src.index(n_tracks);
				let s = if route_table[t].is_empty() { src.index(n_sends) } else { route_table[t][src.index(route_table[t].len())] };
				Op::RouteVolume(t, s, gen_db(src), gen_dur(src))
			}
			_ => Op::MainVolume(gen_db(src), gen_dur(src)),
		};
		ops.push(op);
	}
	for _ in 0..src.usize_in(1, 3) {
		ops.push(Op::Callback(src.usize_in(1, ibs * 2)));
	}
	Case {
		ibs,
		main_volume_db,
		main_effects,
		ops,
	}
}

impl Property for C02 {
	fn id(&self) -> &'static str {
		"C02"
	}
	fn rule(&self) -> &'static str {
		"each case builds a mixer through the public API - track trees up to depth 4, up to 3 send tracks with a random route table, probe sounds (DC or index-coded ramps, finite or endless) on any node including the main track, non-commuting probe effects (gain, hard clip, L/R swap) and built-in volume / panning controls at every node - and runs a history of add track / add sound / finish sound / drop handles / instant pause and resume / volume changes (track, send, route, main; zero-length to six callbacks) interleaved with device callbacks of arbitrary sizes (internal buffer 1..256). After every callback the output is compared frame by frame with an independent f64 evaluation of the documented signal flow (tolerance 1e-5, exact zero where nothing is routed), and the probe logs are audited: every live sound and effect on an unfrozen path was asked for every frame exactly once, in order, in slices of 1..internal-buffer frames, with dt = 1/sample rate. Non-trivial = non-zero output, a track nested at depth >= 3 or a send, and at least one non-unity volume; distinct = distinct decoded choices."
	}
	fn assumptions(&self) -> Vec<String> {
		vec![
			"the reference evaluator is written from the track documentation (post-fader sends at every track, effects in order at each track, main volume last, final clamp) and the handle docs for removal (a track goes once its handle is dropped and no live descendant needs it); summation order is not modelled, hence 1e-5".into(),
			"volume tweens are linear with immediate start; inside an internal chunk gains are interpolated in decibels as the crate does (C06 owns the tween laws)".into(),
			"pause / resume use zero-length fades here; timed fades on tracks belong to C12".into(),
		]
	}
	fn tape_len(&self, _tier: Tier) -> usize {
		600
	}
	fn cases(&self, tier: Tier) -> u64 {
		tier.pick(450_000, 3_000_000)
	}

	fn run(&self, tape: &[u32], ctx: &mut Ctx) -> CaseResult {
		let mut src = Src::new(tape);
		let case = decode(&mut src, ctx.tier);
		ctx.describe(|| format!("{case:?}"));
		let (nonzero, deep) = run_case(&case)?;
		let has_send = case.ops.iter().any(|o| matches!(o, Op::AddSend { .. }));
		let nonunity = case.main_volume_db != 0.0 || case.ops.iter().any(|o| matches!(o, Op::AddTrack(t) if t.volume_db != 0.0));
		let mut classes = vec![];
		if deep {
			classes.push("depth>=3");
		}
		if has_send {
			classes.push("send");
		}
		if case.ops.iter().any(|o| matches!(o, Op::DropTrack(_))) {
			classes.push("drop-track");
		}
		if case.ops.iter().any(|o| matches!(o, Op::PauseTrack(_))) {
			classes.push("pause-track");
		}
		if case.ops.iter().any(|o| matches!(o, Op::Callback(n) if n % case.ibs != 0)) {
			classes.push("callback-not-multiple-of-buffer");
		}
		Ok(CaseInfo::new(&src, nonzero && (deep || has_send) && nonunity, classes))
	}
}
