//! C03 - sound playback states follow the documented life cycle; Stopped is final.

use crate::engine::tape::enc;
use crate::engine::{CaseInfo, CaseResult, Ctx, Enumeration, Failure, Property, Src, Tier};
use crate::ensure;
use crate::probes::{default_manager, streamctl, DecoderLog, ScriptDecoder, ScriptError};
use crate::scene::gen::gen_easing;
use kira::clock::ClockTime;
use kira::info::MockInfoBuilder;
use kira::sound::static_sound::{StaticSoundData, StaticSoundHandle, StaticSoundSettings};
use kira::sound::streaming::{StreamingSoundData, StreamingSoundHandle, StreamingSoundSettings};
use kira::sound::{PlaybackState, Sound, SoundData};
use kira::track::TrackBuilder;
use kira::{Decibels, Easing, Frame, Mapping, PlaybackRate, StartTime, Tween};
use std::sync::Arc;
use std::time::Duration;

pub struct C03;

#[derive(Debug, Clone, Copy, PartialEq)]
enum St {
	Immediate,
	Delayed(f64),
	/// ticks on the mock clock (ticking at `clock_speed`)
	Clock(f64),
	/// a clock that does not exist
	MissingClock,
}

#[derive(Debug, Clone, Copy, PartialEq)]
struct Tw {
	start: St,
	dur: f64,
	easing: Easing,
}

#[derive(Debug, Clone, Copy, PartialEq)]
enum Cmd {
	Pause(Tw),
	Resume(Tw),
	ResumeAt(St, Tw),
	Stop(Tw),
	SeekTo(f64),
	SeekBy(f64),
	Volume(f32, Tw),
	Rate(f64),
	LoopOff,
}

#[derive(Debug, Clone)]
struct Case {
	streaming: bool,
	/// looping DC sound (envelope readable) or finite ramp
	looping: bool,
	len: usize,
	rate_hz: u32,
	start_time: St,
	fade_in: Option<Tw>,
	clock_speed: f64,
	chunk: usize,
	n_chunks: usize,
	cmds: Vec<(usize, Cmd)>,
}

const DC: (f32, f32) = (0.5, 0.25);

// ------------------------------------------------------------------------------------------
// reference life-cycle machine (from the handle documentation)

fn ease(e: Easing, x: f64) -> f64 {
	Mapping {
		input_range: (0.0, 1.0),
		output_range: (0.0f64, 1.0f64),
		easing: e,
	}
	.map(x)
}

#[derive(Debug, Clone, Copy)]
enum Wait {
	Immediate,
	Delayed(f64),
	Clock(f64),
	Missing,
}

impl From<St> for Wait {
	fn from(s: St) -> Self {
		match s {
			St::Immediate => Wait::Immediate,
			St::Delayed(d) => {
				let d = Duration::from_secs_f64(d).as_secs_f64();
				Wait::Delayed(d)
			}
			St::Clock(t) => Wait::Clock(t),
			St::MissingClock => Wait::Missing,
		}
	}
}

#[derive(Debug, Clone)]
struct FadeModel {
	value_db: f64,
	prev_db: f64,
	tween: Option<(f64, f64, f64, Easing, Wait, f64)>, // from, to, dur, easing, start, time
}

impl FadeModel {
	fn set(&mut self, to: f64, tw: Tw) {
		self.tween = Some((self.value_db, to, Duration::from_secs_f64(tw.dur).as_secs_f64(), tw.easing, tw.start.into(), 0.0));
	}
	/// returns true when the tween finished in this update
	fn update(&mut self, dt: f64, clock_now: f64) -> bool {
		self.prev_db = self.value_db;
		let Some((from, to, dur, easing, start, time)) = &mut self.tween else { return false };
		let started = match start {
			Wait::Immediate => true,
			Wait::Delayed(rem) => {
				if *rem <= 0.0 {
					true
				} else {
					// nanosecond arithmetic like Duration
					*rem = (((*rem - dt) * 1e9).round() / 1e9).max(0.0);
					false
				}
			}
			Wait::Clock(t) => clock_now >= *t,
			Wait::Missing => false,
		};
		if !started {
			return false;
		}
		*time += dt;
		if *time >= *dur {
			self.value_db = *to;
			self.tween = None;
			return true;
		}
		if *dur > 0.0 {
			self.value_db = *from + (*to - *from) * ease(*easing, *time / *dur);
		}
		false
	}
	fn amp_at(&self, a: f64) -> f64 {
		let db = (self.prev_db as f32 + (self.value_db as f32 - self.prev_db as f32) * a as f32) as f64;
		if (db + 60.0).abs() < 2e-3 {
			EDGE.with(|e| e.set(true));
		}
		if db <= -60.0 {
			0.0
		} else if db == 0.0 {
			1.0
		} else {
			10f64.powf(db / 20.0)
		}
	}
}

thread_local! {
	/// a gain was evaluated within 2e-3 dB of the -60 dB edge (0.001 or exactly 0, depending on the
	/// last bit of f32 arithmetic)
	static EDGE: std::cell::Cell<bool> = const { std::cell::Cell::new(false) };
}

#[derive(Debug, Clone)]
struct Machine {
	state: PlaybackState,
	fade: FadeModel,
	waiting: Option<(Wait, Tw)>,
	own_start: Wait,
	never_start: bool,
	consumed: usize,
	frames: Option<usize>,
	volume: FadeModel,
}

impl Machine {
	fn command(&mut self, c: &Cmd) {
		if self.state == PlaybackState::Stopped {
			return;
		}
		match c {
			Cmd::Pause(t) => {
				self.state = PlaybackState::Pausing;
				self.fade.set(-60.0, *t);
			}
			Cmd::Resume(t) | Cmd::ResumeAt(St::Immediate, t) => {
				self.state = PlaybackState::Resuming;
				self.fade.set(0.0, *t);
			}
			Cmd::ResumeAt(s, t) => {
				self.state = PlaybackState::WaitingToResume;
				self.waiting = Some(((*s).into(), *t));
			}
			Cmd::Stop(t) => {
				self.state = PlaybackState::Stopping;
				self.fade.set(-60.0, *t);
			}
			Cmd::Volume(v, t) => self.volume.set(*v as f64, *t),
			_ => {}
		}
	}

	/// one chunk of `n` frames; returns per-frame gain (fade x volume) or None when silent
	fn chunk(&mut self, n: usize, dt: f64, clock_now: f64, clock_exists: bool) -> Option<Vec<f64>> {
		let total = dt * n as f64;
		self.volume.update(total, clock_now);
		let finished = self.fade.update(total, clock_now);
		match self.state {
			PlaybackState::Pausing if finished => self.state = PlaybackState::Paused,
			PlaybackState::Resuming if finished => self.state = PlaybackState::Playing,
			PlaybackState::Stopping if finished => self.state = PlaybackState::Stopped,
			PlaybackState::WaitingToResume => {
				let (w, tw) = self.waiting.as_mut().unwrap();
				let now = match w {
					Wait::Immediate => true,
					Wait::Delayed(rem) => {
						*rem = (((*rem - total) * 1e9).round() / 1e9).max(0.0);
						*rem <= 0.0
					}
					Wait::Clock(t) => clock_exists && clock_now >= *t,
					Wait::Missing => false,
				};
				if matches!(w, Wait::Missing) {
					self.state = PlaybackState::Stopped;
				} else if now {
					let tw = *tw;
					self.state = PlaybackState::Resuming;
					self.fade.set(0.0, tw);
				}
			}
			_ => {}
		}
		// the sound's own start time
		match &mut self.own_start {
			Wait::Immediate => {}
			Wait::Delayed(rem) => {
				*rem = (((*rem - total) * 1e9).round() / 1e9).max(0.0);
				if *rem <= 0.0 {
					self.own_start = Wait::Immediate;
				}
			}
			Wait::Clock(t) => {
				if clock_now >= *t {
					self.own_start = Wait::Immediate;
				}
			}
			Wait::Missing => {
				self.state = PlaybackState::Stopped;
				self.never_start = true;
			}
		}
		if !matches!(self.own_start, Wait::Immediate) {
			return None;
		}
		if !matches!(self.state, PlaybackState::Playing | PlaybackState::Pausing | PlaybackState::Resuming | PlaybackState::Stopping) {
			return None;
		}
		let mut gains = Vec::with_capacity(n);
		for i in 0..n {
			let a = (i + 1) as f64 / n as f64;
			gains.push(self.fade.amp_at(a) * self.volume.amp_at(a));
			self.consumed += 1;
			if let Some(f) = self.frames {
				if self.consumed >= f + 1 {
					self.state = PlaybackState::Stopped;
				}
			}
		}
		Some(gains)
	}
}

// ------------------------------------------------------------------------------------------

enum H {
	Static(StaticSoundHandle),
	Stream(StreamingSoundHandle<ScriptError>, Arc<DecoderLog>, usize),
}

macro_rules! both {
	($h:expr, $x:ident => $e:expr) => {
		match $h {
			H::Static($x) => $e,
			H::Stream($x, _, _) => $e,
		}
	};
}

struct Ids {
	clock: kira::clock::ClockId,
	missing: kira::clock::ClockId,
}

fn start_time(s: St, ids: &Ids) -> StartTime {
	match s {
		St::Immediate => StartTime::Immediate,
		St::Delayed(d) => StartTime::Delayed(Duration::from_secs_f64(d)),
		St::Clock(t) => StartTime::ClockTime(ClockTime::from_ticks_f64(ids.clock, t)),
		St::MissingClock => StartTime::ClockTime(ClockTime::from_ticks_f64(ids.missing, 1.0)),
	}
}

fn tween(t: Tw, ids: &Ids) -> Tween {
	Tween {
		start_time: start_time(t.start, ids),
		duration: Duration::from_secs_f64(t.dur),
		easing: t.easing,
	}
}

fn source(c: &Case) -> Arc<[Frame]> {
	(0..c.len)
		.map(|i| {
			if c.looping {
				Frame::new(DC.0, DC.1)
			} else {
				Frame::from_mono((i + 1) as f32 / (c.len as f32 * 2.0))
			}
		})
		.collect::<Vec<_>>()
		.into()
}

fn clock_free(c: &Case) -> bool {
	let st_ok = |s: St| matches!(s, St::Immediate | St::Delayed(_));
	let tw_ok = |t: &Tw| st_ok(t.start);
	st_ok(c.start_time)
		&& c.fade_in.as_ref().map(tw_ok).unwrap_or(true)
		&& c.cmds.iter().all(|(_, cmd)| match cmd {
			Cmd::Pause(t) | Cmd::Resume(t) | Cmd::Stop(t) | Cmd::Volume(_, t) => tw_ok(t),
			Cmd::ResumeAt(s, t) => st_ok(*s) && tw_ok(t),
			_ => true,
		})
}

/// The same static sound with the same command history on the main track of a real manager
/// (callbacks of `cb` frames, internal buffer `ibs`) and driven directly with the renderer's
/// chunking: states after every callback and every output frame must agree exactly, so every
/// fade-driven step completes at the same audio time in both.
fn through_the_manager(c: &Case, ibs: usize, cb: usize) -> Result<(), Failure> {
	let ids = {
		let mut mb = MockInfoBuilder::new();
		let clock = mb.add_clock(true, 0, 0.0);
		let missing = mb.add_clock(true, 0, 0.0);
		Ids { clock, missing }
	};
	let frames = source(c);
	let data = || {
		let mut settings = StaticSoundSettings::new().start_time(start_time(c.start_time, &ids)).fade_in_tween(c.fade_in.map(|t| tween(t, &ids)));
		if c.looping {
			settings = settings.loop_region(..);
		}
		StaticSoundData {
			sample_rate: c.rate_hz,
			frames: frames.clone(),
			settings,
			slice: None,
		}
	};
	let mut mgr = default_manager(c.rate_hz, ibs);
	let mut hm = mgr.play(data()).map_err(|_| Failure::simple("setup", "play"))?;
	let (mut sound, mut hd) = data().into_sound().map_err(|_| Failure::simple("setup", "into_sound"))?;
	let info = MockInfoBuilder::new().build();
	let dt = 1.0 / c.rate_hz as f64;
	for k in 0..c.n_chunks {
		for (_, cmd) in c.cmds.iter().filter(|(at, _)| *at == k) {
			for h in [&mut hm, &mut hd] {
				match cmd {
					Cmd::Pause(tw) => h.pause(tween(*tw, &ids)),
					Cmd::Resume(tw) => h.resume(tween(*tw, &ids)),
					Cmd::ResumeAt(s, tw) => h.resume_at(start_time(*s, &ids), tween(*tw, &ids)),
					Cmd::Stop(tw) => h.stop(tween(*tw, &ids)),
					Cmd::SeekTo(p) => h.seek_to(*p),
					Cmd::SeekBy(p) => h.seek_by(*p),
					Cmd::Volume(v, tw) => h.set_volume(Decibels(*v), tween(*tw, &ids)),
					Cmd::Rate(r) => h.set_playback_rate(PlaybackRate(*r), Tween { duration: Duration::ZERO, ..Default::default() }),
					Cmd::LoopOff => h.set_loop_region(None),
				}
			}
		}
		let out = mgr.backend_mut().callback(cb, 2);
		if let Some(p) = &out.guard.panic {
			return Err(Failure::panic("", p));
		}
		let mut direct = vec![Frame::ZERO; cb];
		let was_finished = sound.finished();
		if !was_finished {
			sound.on_start_processing();
			let mut i = 0;
			while i < cb {
				let n = ibs.min(cb - i);
				sound.process(&mut direct[i..i + n], dt, &info);
				i += n;
			}
		}
		for i in 0..cb {
			let (l, r) = out.frame(i, 2);
			ensure!(l == direct[i].left.clamp(-1.0, 1.0) && r == direct[i].right.clamp(-1.0, 1.0), "same-through-the-manager", "callback {k} ({cb} frames, internal buffer {ibs}) frame {i}: the manager renders ({l}, {r}), the sound driven directly {:?}; case {c:?}", direct[i]);
		}
		ensure!(hm.state() == hd.state(), "same-through-the-manager", "after callback {k} ({cb} frames, internal buffer {ibs}) the sound in the manager reports {:?}, the sound driven directly {:?}: a fade-driven step completed at a different audio time; case {c:?}", hm.state(), hd.state());
	}
	Ok(())
}

fn run_case(c: &Case) -> Result<(bool, bool, bool), Failure> {
	streamctl::install();
	streamctl::set_callback_active(false);
	// the ids of the mock clocks: slot 0 exists in every Info we build, slot 1 never does
	let ids = {
		let mut mb = MockInfoBuilder::new();
		let clock = mb.add_clock(true, 0, 0.0);
		let missing = mb.add_clock(true, 0, 0.0);
		Ids { clock, missing }
	};
	let frames = source(c);
	let (mut sound, mut h): (Box<dyn Sound>, H) = if c.streaming {
		let (mut dec, log) = ScriptDecoder::new(frames.clone(), c.rate_hz);
		dec.packets = vec![7, 64];
		let mut settings = StreamingSoundSettings::new().start_time(start_time(c.start_time, &ids)).fade_in_tween(c.fade_in.map(|t| tween(t, &ids)));
		if c.looping {
			settings = settings.loop_region(..);
		}
		let data = StreamingSoundData::from_decoder(dec).with_settings(settings);
		let mark = streamctl::mark();
		let (s, handle) = data.into_sound().map_err(|e| Failure::simple("into-sound", format!("{e:?}")))?;
		let id = handle.verif_id();
		streamctl::adopt(id, mark);
		(s, H::Stream(handle, log, id))
	} else {
		let mut settings = StaticSoundSettings::new().start_time(start_time(c.start_time, &ids)).fade_in_tween(c.fade_in.map(|t| tween(t, &ids)));
		if c.looping {
			settings = settings.loop_region(..);
		}
		let data = StaticSoundData {
			sample_rate: c.rate_hz,
			frames: frames.clone(),
			settings,
			slice: None,
		};
		let (s, handle) = data.into_sound().map_err(|_| Failure::simple("into-sound", "static"))?;
		(s, H::Static(handle))
	};
	let mut m = Machine {
		state: PlaybackState::Playing,
		fade: FadeModel {
			value_db: if c.fade_in.is_some() { -60.0 } else { 0.0 },
			prev_db: if c.fade_in.is_some() { -60.0 } else { 0.0 },
			tween: None,
		},
		waiting: None,
		own_start: c.start_time.into(),
		never_start: false,
		consumed: 0,
		frames: if c.looping { None } else { Some(c.len) },
		volume: FadeModel {
			value_db: 0.0,
			prev_db: 0.0,
			tween: None,
		},
	};
	if let Some(t) = c.fade_in {
		m.fade.set(0.0, t);
	}
	let dt = 1.0 / c.rate_hz as f64;
	let mut t = 0.0f64;
	let mut model_states: Vec<PlaybackState> = vec![];
	let mut impl_states: Vec<PlaybackState> = vec![];
	let mut in_sync = true;
	let mut seek_or_rate = false;
	let mut cmd_during_fade = false;
	let mut used_resume_at = false;
	let mut last_out: Option<f32> = None;
	let mut seek_at_prev_boundary = false;
	let mut last_pos = both!(&h, x => x.position());
	let result = (|| -> Result<(), Failure> {
		for k in 0..c.n_chunks {
			let mut had_cmd = false;
			// issue the commands of this boundary; the sound reads: parameters, loop region,
			// pause, resume, stop, seek_by, seek_to - the model applies them in that order
			let here: Vec<&Cmd> = c.cmds.iter().filter(|(at, _)| *at == k).map(|(_, c)| c).collect();
			for cmd in &here {
				had_cmd = true;
				if m.fade.tween.is_some() && matches!(cmd, Cmd::Pause(_) | Cmd::Resume(_) | Cmd::ResumeAt(..) | Cmd::Stop(_)) {
					cmd_during_fade = true;
				}
				match cmd {
					Cmd::Pause(tw) => both!(&mut h, x => x.pause(tween(*tw, &ids))),
					Cmd::Resume(tw) => both!(&mut h, x => x.resume(tween(*tw, &ids))),
					Cmd::ResumeAt(s, tw) => {
						used_resume_at = true;
						both!(&mut h, x => x.resume_at(start_time(*s, &ids), tween(*tw, &ids)))
					}
					Cmd::Stop(tw) => both!(&mut h, x => x.stop(tween(*tw, &ids))),
					Cmd::SeekTo(p) => {
						seek_or_rate = true;
						both!(&mut h, x => x.seek_to(*p))
					}
					Cmd::SeekBy(p) => {
						seek_or_rate = true;
						both!(&mut h, x => x.seek_by(*p))
					}
					Cmd::Volume(v, tw) => both!(&mut h, x => x.set_volume(Decibels(*v), tween(*tw, &ids))),
					Cmd::Rate(r) => {
						seek_or_rate = true;
						both!(&mut h, x => x.set_playback_rate(PlaybackRate(*r), Tween { duration: Duration::ZERO, ..Default::default() }))
					}
					Cmd::LoopOff => {
						seek_or_rate = true;
						both!(&mut h, x => x.set_loop_region(None))
					}
				}
			}
			// same kind issued twice between two callbacks: the last one wins; kinds are applied
			// in the order pause, resume, stop
			for kind in 0..4 {
				let last = here.iter().rev().find(|c| match (kind, c) {
					(0, Cmd::Volume(..)) => true,
					(1, Cmd::Pause(_)) => true,
					(2, Cmd::Resume(_) | Cmd::ResumeAt(..)) => true,
					(3, Cmd::Stop(_)) => true,
					_ => false,
				});
				if let Some(cmd) = last {
					m.command(cmd);
				}
			}
			let state_before = impl_states.last().copied().unwrap_or(PlaybackState::Playing);
			// clock as seen by this chunk: the time at its end
			t += dt * c.chunk as f64;
			let ticks = c.clock_speed * t;
			let mut mb = MockInfoBuilder::new();
			mb.add_clock(true, ticks as u64, ticks.fract());
			let info = mb.build();
			if let H::Stream(_, log, id) = &h {
				streamctl::wait_quiescent_or_flag(&[(*id, log.clone())], Duration::from_secs(20));
				streamctl::set_callback_active(true);
			}
			let mut out = vec![Frame::new(9.0, 9.0); c.chunk];
			sound.on_start_processing();
			let pos_now = both!(&h, x => x.position());
			sound.process(&mut out, dt, &info);
			streamctl::set_callback_active(false);
			EDGE.with(|e| e.set(false));
			let gains = m.chunk(c.chunk, dt, ticks, true);
			let edge_chunk = EDGE.with(|e| e.get());
			let s_impl = both!(&h, x => x.state());
			model_states.push(m.state);
			impl_states.push(s_impl);
			// the state is one of the seven, and the reference reaches it within one callback
			if s_impl != m.state {
				in_sync = false;
			}
			// silence and frozen position while not advancing
			let frozen = |s: PlaybackState| matches!(s, PlaybackState::Paused | PlaybackState::WaitingToResume | PlaybackState::Stopped);
			if frozen(state_before) && state_before == s_impl && !had_cmd {
				for (i, f) in out.iter().enumerate() {
					ensure!(f.left == 0.0 && f.right == 0.0, "silent-while-not-advancing", "chunk {k} frame {i} = {f:?} while the state is {s_impl:?}; case {c:?}");
				}
				ensure!(pos_now == last_pos || s_impl == PlaybackState::Stopped || seek_at_prev_boundary, "position-frozen-while-not-advancing", "chunk {k}: position moved from {last_pos} to {pos_now} while {state_before:?}; case {c:?}");
			}
			last_pos = pos_now;
			seek_at_prev_boundary = here.iter().any(|c| matches!(c, Cmd::SeekTo(_) | Cmd::SeekBy(_)));
			if s_impl == PlaybackState::Stopped {
				ensure!(sound.finished(), "stopped-is-final", "chunk {k}: state Stopped but finished() is false; case {c:?}");
			}
			if state_before == PlaybackState::Stopped {
				ensure!(s_impl == PlaybackState::Stopped, "stopped-is-final", "chunk {k}: state went from Stopped to {s_impl:?}; case {c:?}");
				for (i, f) in out.iter().enumerate() {
					ensure!(f.left == 0.0 && f.right == 0.0, "stopped-is-final", "chunk {k} frame {i} = {f:?} after Stopped; case {c:?}");
				}
			}
			for f in &out {
				ensure!(f.left != 9.0 && f.left.is_finite() && f.right.is_finite(), "writes-every-frame", "chunk {k}: output not written / not finite: {f:?}; case {c:?}");
			}
			// gain envelope of the DC sound (only meaningful without seeks / rate changes)
			if c.looping && !seek_or_rate && in_sync {
				match &gains {
					None => {
						for (i, f) in out.iter().enumerate() {
							ensure!(f.left == 0.0 && f.right == 0.0, "silent-while-not-advancing", "chunk {k} frame {i} = {f:?}, reference is silent (state {:?}); case {c:?}", m.state);
						}
					}
					Some(g) => {
						for (i, f) in out.iter().enumerate() {
							let want = DC.0 as f64 * g[i];
							// (a gain that lands within a hair of -60 dB is 0.001 or exactly 0: both are right)
							let at_edge = edge_chunk && (f.left == 0.0 || (f.left as f64 - want).abs() <= 0.0011 * DC.0 as f64);
							// "exactly" silence / unity is asserted once the reference fade is over; while it
							// is still running a value that merely rounds to 0 dB or -60 dB proves nothing
							let fade_over = m.fade.tween.is_none();
							ensure!((f.left as f64 - want).abs() <= 2e-5 || at_edge, "fade-envelope", "chunk {k} frame {i}: left = {}, reference gain {} -> {want}; state {:?}; case {c:?}", f.left, g[i], m.state);
							if g[i] == 0.0 && fade_over {
								ensure!(f.left == 0.0 && f.right == 0.0, "fade-ends-at-exact-silence", "chunk {k} frame {i} = {f:?}, expected exact silence; case {c:?}");
							}
							if g[i] == 1.0 && fade_over {
								ensure!(f.left == DC.0 && f.right == DC.1, "fade-ends-at-exact-unity", "chunk {k} frame {i} = {f:?}, expected the source value; case {c:?}");
							}
						}
					}
				}
				// monotone envelope while a single fade is running
				let no_vol = m.volume.tween.is_none() && m.volume.value_db == 0.0 && m.volume.prev_db == 0.0;
				if !had_cmd && no_vol && gains.is_some() {
					let dir = match (state_before, s_impl) {
						(PlaybackState::Pausing, PlaybackState::Pausing | PlaybackState::Paused) | (PlaybackState::Stopping, PlaybackState::Stopping | PlaybackState::Stopped) => -1,
						(PlaybackState::Resuming, PlaybackState::Resuming | PlaybackState::Playing) => 1,
						_ => 0,
					};
					if dir != 0 {
						let mut prev = last_out.unwrap_or(if dir < 0 { f32::MAX } else { f32::MIN });
						for (i, f) in out.iter().enumerate() {
							// (the gain is a decibel value held in f32: one ulp of it is 4e-7 of the amplitude, and
							// prev + (cur - prev) * 1.0 need not round to cur - a step of that size against
							// the direction of the fade is rounding, not a reversal)
							let slack = prev.abs() * 2e-6 + 1e-12;
							let ok = if dir < 0 { f.left <= prev + slack } else { f.left >= prev - slack };
							ensure!(ok, "fade-monotone", "chunk {k} frame {i}: envelope went from {prev} to {} while {state_before:?}; case {c:?}", f.left);
							prev = f.left;
						}
					}
				}
			}
			last_out = if gains.is_some() { out.last().map(|f| f.left) } else { None };
		}
		Ok(())
	})();
	// end the decoder thread
	if let H::Stream(handle, _, _) = &mut h {
		handle.stop(Tween {
			duration: Duration::ZERO,
			..Default::default()
		});
		let info = MockInfoBuilder::new().build();
		let mut scratch = vec![Frame::ZERO; 2];
		sound.on_start_processing();
		sound.process(&mut scratch, dt, &info);
	}
	streamctl::abandon_all();
	result?;
	// the reported state follows the reference within one callback
	for k in 0..impl_states.len() {
		let s = impl_states[k];
		let lo = if k == 0 { PlaybackState::Playing } else { model_states[k - 1] };
		let hi = model_states[(k + 1).min(model_states.len() - 1)];
		let ok = s == model_states[k] || s == lo || s == hi;
		ensure!(ok, "state-follows-life-cycle", "after chunk {k}: handle reports {s:?}; reference: {lo:?} (one callback earlier), {:?} (now), {hi:?} (one later); reference trace {model_states:?}; reported trace {impl_states:?}; case {c:?}", model_states[k]);
	}
	// stop is never lost, finite sounds end
	let last = *impl_states.last().unwrap();
	if *model_states.last().unwrap() == PlaybackState::Stopped && model_states.iter().rev().take(3).all(|s| *s == PlaybackState::Stopped) {
		ensure!(last == PlaybackState::Stopped, "reaches-stopped", "the reference has been Stopped for three callbacks but the handle reports {last:?}; reference trace {model_states:?}; reported trace {impl_states:?}; case {c:?}");
	}
	Ok((cmd_during_fade, used_resume_at, in_sync))
}

/// part B: through the manager - a Stopped sound is unloaded at the next callback and its slot
/// becomes reusable
fn unload_check(streaming: bool, tween_chunks: usize) -> Result<(), Failure> {
	let mut mgr = default_manager(8000, 32);
	let mut track = mgr.add_sub_track(TrackBuilder::new().sound_capacity(1)).map_err(|_| Failure::simple("setup", "add_sub_track"))?;
	mgr.backend_mut().callback(32, 2);
	let frames: Arc<[Frame]> = vec![Frame::from_mono(0.5); 4000].into();
	enum Hh {
		S(StaticSoundHandle),
		T(StreamingSoundHandle<ScriptError>),
	}
	let play = |track: &mut kira::track::TrackHandle| -> Result<Hh, String> {
		if streaming {
			let (dec, _log) = ScriptDecoder::new(frames.clone(), 8000);
			track.play(StreamingSoundData::from_decoder(dec)).map(Hh::T).map_err(|e| format!("{e:?}"))
		} else {
			track
				.play(StaticSoundData {
					sample_rate: 8000,
					frames: frames.clone(),
					settings: StaticSoundSettings::new(),
					slice: None,
				})
				.map(Hh::S)
				.map_err(|e| format!("{e:?}"))
		}
	};
	let mut h = play(&mut track).map_err(|e| Failure::simple("unload", format!("first play failed: {e}")))?;
	ensure!(track.num_sounds() == 1, "unload", "num_sounds = {} after play", track.num_sounds());
	ensure!(play(&mut track).is_err(), "unload", "a second sound was accepted by a capacity-1 track");
	mgr.backend_mut().callback(32, 2);
	let tw = Tween {
		duration: Duration::from_secs_f64(tween_chunks as f64 * 32.0 / 8000.0),
		..Default::default()
	};
	match &mut h {
		Hh::S(x) => x.stop(tw),
		Hh::T(x) => x.stop(tw),
	}
	let state = |h: &Hh| match h {
		Hh::S(x) => x.state(),
		Hh::T(x) => x.state(),
	};
	let mut stopped_at = None;
	for k in 0..tween_chunks + 4 {
		mgr.backend_mut().callback(32, 2);
		if state(&h) == PlaybackState::Stopped {
			stopped_at = Some(k);
			break;
		}
	}
	let Some(k) = stopped_at else {
		return Err(Failure::simple("reaches-stopped", format!("sound not Stopped {} callbacks after stop(); state {:?}", tween_chunks + 4, state(&h))));
	};
	ensure!(k <= tween_chunks + 1, "reaches-stopped", "Stopped only after {k} callbacks for a fade of {tween_chunks} callbacks");
	// unloaded at the next callback
	mgr.backend_mut().callback(32, 2);
	ensure!(track.num_sounds() == 0, "unloaded-at-next-callback", "num_sounds = {} one callback after Stopped", track.num_sounds());
	let h2 = play(&mut track).map_err(|e| Failure::simple("slot-reusable", format!("slot not reusable after the sound stopped: {e}")))?;
	mgr.backend_mut().callback(32, 2);
	ensure!(state(&h2) == PlaybackState::Playing, "slot-reusable", "new sound in the reused slot reports {:?}", state(&h2));
	// further commands to the stopped sound change nothing
	match &mut h {
		Hh::S(x) => x.resume(Tween::default()),
		Hh::T(x) => x.resume(Tween::default()),
	}
	mgr.backend_mut().callback(32, 2);
	ensure!(state(&h) == PlaybackState::Stopped, "stopped-is-final", "a stopped sound reports {:?} after resume()", state(&h));
	ensure!(track.num_sounds() == 1, "stopped-is-final", "num_sounds = {}", track.num_sounds());
	match h2 {
		Hh::S(mut x) => x.stop(Tween { duration: Duration::ZERO, ..Default::default() }),
		Hh::T(mut x) => x.stop(Tween { duration: Duration::ZERO, ..Default::default() }),
	}
	mgr.backend_mut().callback(32, 2);
	mgr.backend_mut().callback(32, 2);
	Ok(())
}

const ALPHABET: usize = 10;

fn letter(i: usize, chunk_s: f64) -> Cmd {
	let short = Tw {
		start: St::Immediate,
		dur: chunk_s * 2.5,
		easing: Easing::Linear,
	};
	let zero = Tw {
		start: St::Immediate,
		dur: 0.0,
		easing: Easing::Linear,
	};
	match i {
		0 => Cmd::Pause(zero),
		1 => Cmd::Pause(short),
		2 => Cmd::Resume(zero),
		3 => Cmd::Resume(short),
		4 => Cmd::ResumeAt(St::Delayed(chunk_s * 1.5), short),
		5 => Cmd::Stop(zero),
		6 => Cmd::Stop(short),
		7 => Cmd::SeekTo(0.0),
		8 => Cmd::Volume(-6.0, short),
		_ => Cmd::ResumeAt(St::MissingClock, zero),
	}
}

fn gen_st(src: &mut Src, chunk_s: f64, clock_speed: f64, now_s: f64) -> St {
	match src.weighted(&[5, 3, 2, 1]) {
		0 => St::Immediate,
		1 => St::Delayed(src.f64_uniform(0.0, chunk_s * 5.0)),
		2 => St::Clock((clock_speed * now_s + src.f64_uniform(0.0, clock_speed * chunk_s * 6.0)).max(0.0)),
		_ => St::MissingClock,
	}
}

fn gen_tw(src: &mut Src, chunk_s: f64, clock_speed: f64, now_s: f64) -> Tw {
	Tw {
		start: match src.weighted(&[6, 2, 1]) {
			0 => St::Immediate,
			1 => St::Delayed(src.f64_uniform(0.0, chunk_s * 3.0)),
			_ => St::Clock(clock_speed * now_s + src.f64_uniform(0.0, clock_speed * chunk_s * 4.0)),
		},
		dur: match src.weighted(&[3, 3, 4]) {
			0 => 0.0,
			1 => src.f64_uniform(0.0, chunk_s),
			_ => src.f64_uniform(0.0, chunk_s * 6.0),
		},
		easing: gen_easing(src),
	}
}

fn decode(src: &mut Src, tier: Tier) -> Case {
	let mode = src.below(4);
	let rate_hz = 8000;
	if mode == 0 {
		// enumerated: sequence of up to 4 letters at offsets, both kinds
		let streaming = src.below(2) == 1;
		let looping = src.below(2) == 0;
		let chunk = 16;
		let chunk_s = chunk as f64 / rate_hz as f64;
		let n = src.below(5) as usize;
		let mut cmds = vec![];
		let mut at = 0;
		for _ in 0..n {
			let l = src.below(ALPHABET as u64) as usize;
			let gap = src.below(3) as usize; // 0, 1 or 3 chunks after the previous command
			at += [0, 1, 3][gap];
			let mut cmd = letter(l, chunk_s);
			if !looping && matches!(cmd, Cmd::SeekTo(_)) {
				cmd = Cmd::LoopOff;
			}
			cmds.push((at, cmd));
		}
		return Case {
			streaming,
			looping,
			len: if looping { 64 } else { 40 },
			rate_hz,
			start_time: St::Immediate,
			fade_in: None,
			clock_speed: 100.0,
			chunk,
			n_chunks: at + 10,
			cmds,
		};
	}
	let streaming = src.chance(1, 3);
	let looping = src.chance(2, 3);
	let chunk = src.pick(&[16usize, 1, 7, 64, 128]);
	let chunk_s = chunk as f64 / rate_hz as f64;
	let clock_speed = src.pick(&[100.0, 10.0, 1000.0]);
	let n_chunks = src.usize_in(4, tier.pick(40, 100));
	let mut cmds = vec![];
	for _ in 0..src.usize_in(0, tier.pick(12, 25)) {
		let at = src.index(n_chunks);
		let now_s = at as f64 * chunk_s;
		let (w_seek, w_loop_off) = if looping { (1, 0) } else { (0, 1) };
		let cmd = match src.weighted(&[4, 4, 3, 3, w_seek, w_seek, 2, w_seek, w_loop_off]) {
			0 => Cmd::Pause(gen_tw(src, chunk_s, clock_speed, now_s)),
			1 => Cmd::Resume(gen_tw(src, chunk_s, clock_speed, now_s)),
			2 => Cmd::ResumeAt(gen_st(src, chunk_s, clock_speed, now_s), gen_tw(src, chunk_s, clock_speed, now_s)),
			3 => Cmd::Stop(gen_tw(src, chunk_s, clock_speed, now_s)),
			4 => Cmd::SeekTo(src.f64_uniform(0.0, 0.01)),
			5 => Cmd::SeekBy(src.f64_uniform(-0.005, 0.005)),
			6 => Cmd::Volume(src.f32_in(-30.0, 0.0), gen_tw(src, chunk_s, clock_speed, now_s)),
			7 => Cmd::Rate(src.f64_uniform(0.25, 2.0)),
			_ => Cmd::LoopOff,
		};
		cmds.push((at, cmd));
	}
	cmds.sort_by_key(|(at, _)| *at);
	Case {
		streaming,
		looping,
		len: if looping { 64 } else { src.usize_in(1, 300) },
		rate_hz,
		start_time: if src.chance(1, 3) { gen_st(src, chunk_s, clock_speed, 0.0) } else { St::Immediate },
		fade_in: if src.chance(1, 4) { Some(gen_tw(src, chunk_s, clock_speed, 0.0)) } else { None },
		clock_speed,
		chunk,
		n_chunks,
		cmds,
	}
}

impl Property for C03 {
	fn id(&self) -> &'static str {
		"C03"
	}
	fn rule(&self) -> &'static str {
		"each case plays one static or streaming sound (a looping DC sound whose output equals its gain, or a finite ramp) as Box<dyn Sound> and issues a history of pause / resume / resume_at (delayed, clock, missing clock) / stop / seek_to / seek_by / set_volume / set_playback_rate / set_loop_region commands with generated tweens (zero, sub-callback, several callbacks; all easings; immediate / delayed / clock starts) at arbitrary callback boundaries, with the sound's own start time immediate / delayed / clock / missing clock and an optional fade-in. A reference life-cycle machine written from the handle documentation runs alongside. After every callback: reported state within one callback of the reference; exact silence and frozen position while Paused / WaitingToResume / Stopped; Stopped is final (state, finished(), silence); DC envelope equals the reference fade (2e-5), is monotone during a fade (to 2e-6 relative, two ulps of the f32 decibel value) and ends at exactly 0 / exactly the source value; stop is never lost and finite sounds end. Enumeration: every sequence of up to 3 (quick) / 4 (thorough) letters of a 10-letter alphabet x 3 spacings, for static and streaming, looping and finite. Through the manager: Stopped sounds are unloaded at the next callback and a capacity-1 track accepts a new sound; a quarter of the static, clock-free cases are repeated on the main track of a real manager (internal buffer 1..128, callback sizes that are not multiples of it) next to the same sound driven directly: states after every callback and every output frame must agree exactly. Non-trivial = a command arrives while a fade is in progress, or resume_at is used; distinct = distinct decoded choices."
	}
	fn assumptions(&self) -> Vec<String> {
		vec![
			"sounds are driven directly with a MockInfoBuilder Info whose clock shows the time at the end of the chunk; streaming decoders are kept ahead through hook H2".into(),
			"commands issued between the same two callbacks are applied in the order parameters, pause, resume, stop (what both sound types do); the last of one kind wins".into(),
			"while the sound waits for its own start time the handle reports Playing (the repository's tests fix this) and commands apply at once".into(),
		]
	}
	fn tape_len(&self, _tier: Tier) -> usize {
		300
	}
	fn cases(&self, tier: Tier) -> u64 {
		tier.pick(80_000, 800_000)
	}

	fn enumerations(&self, tier: Tier) -> Vec<Enumeration> {
		let depth = tier.pick(3usize, 4usize);
		let mut tapes = vec![];
		for streaming in 0..2u64 {
			// streaming cases cost a hand-shake per chunk: one level less
			let d = if streaming == 1 { depth - 1 } else { depth };
			for looping in 0..2u64 {
				for n in 0..=d {
					let count = (ALPHABET * 3).pow(n as u32);
					for idx in 0..count {
						let mut t = vec![enc(0, 4), enc(streaming, 2), enc(looping, 2), enc(n as u64, 5)];
						let mut x = idx;
						for _ in 0..n {
							let l = x % ALPHABET;
							x /= ALPHABET;
							let g = x % 3;
							x /= 3;
							t.push(enc(l as u64, ALPHABET as u64));
							t.push(enc(g as u64, 3));
						}
						tapes.push(t);
					}
				}
			}
		}
		vec![Enumeration {
			name: "all command sequences up to the depth bound over a 10-letter alphabet x 3 spacings (static depth d, streaming depth d-1; looping and finite)",
			tapes: Box::new(tapes.into_iter()),
			exhaustive: true,
		}]
	}

	fn run(&self, tape: &[u32], ctx: &mut Ctx) -> CaseResult {
		let mut src = Src::new(tape);
		let case = decode(&mut src, ctx.tier);
		ctx.describe(|| format!("{case:?}"));
		let (cmd_during_fade, used_resume_at, in_sync) = run_case(&case)?;
		ctx.count(if in_sync { "cases-with-reported-state-equal-to-reference-after-every-callback" } else { "cases-within-one-callback-of-reference" }, 1);
		// the manager-level unload check rides along on a fraction of the cases
		if src.chance(1, 50) {
			unload_check(case.streaming, src.usize_in(0, 3))?;
			ctx.count("unload-checks", 1);
		}
		let mut classes = vec![if case.streaming { "streaming" } else { "static" }, if case.looping { "looping-dc" } else { "finite" }];
		// a quarter of the static, clock-free cases again on the main track of a real manager, with
		// callbacks that are not a multiple of the internal buffer
		if !case.streaming && clock_free(&case) && src.chance(1, 4) {
			let ibs = src.pick(&[16usize, 1, 7, 64, 128]);
			let cb = case.chunk * src.usize_in(1, 3) + src.pick(&[0usize, 1, 5]);
			through_the_manager(&case, ibs, cb)?;
			classes.push("through-the-manager");
		}
		if cmd_during_fade {
			classes.push("command-during-fade");
		}
		if used_resume_at {
			classes.push("resume-at");
		}
		Ok(CaseInfo::new(&src, cmd_during_fade || used_resume_at, classes))
	}
}
