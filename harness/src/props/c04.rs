//! C04 - static playback is sample-accurate: slice, loop, reverse, seek, resample, end.

use crate::engine::tape::enc;
use crate::engine::{CaseInfo, CaseResult, Ctx, Enumeration, Failure, Property, Src, Tier};
use crate::ensure;
use kira::info::MockInfoBuilder;
use kira::sound::static_sound::{StaticSoundData, StaticSoundSettings};
use kira::sound::{EndPosition, PlaybackPosition, PlaybackState, Region, SoundData};
use kira::{Frame, PlaybackRate, Tween};
use std::sync::Arc;
use std::time::Duration;

pub struct C04;

/// frames outside the slice carry this value: any read outside the slice shows up in the output
const POISON: f32 = 777.0;

#[derive(Debug, Clone)]
enum Cmd {
	SeekTo(f64),
	SeekBy(f64),
	Loop(Option<(usize, Option<usize>)>),
	Rate(f64),
}

#[derive(Debug, Clone)]
struct Case {
	exact: bool,
	total_len: usize,
	slice: Option<(usize, usize)>,
	start: usize,
	loop_region: Option<(usize, Option<usize>)>,
	reverse: bool,
	rate: f64,
	sound_rate: u32,
	device_rate: u32,
	chunks: Vec<usize>,
	/// (chunk index before which the command is issued, command)
	cmds: Vec<(usize, Cmd)>,
	ramp: bool,
}

fn code(i: usize, ramp: bool, n: usize) -> Frame {
	if ramp {
		let v = (i + 1) as f32 / (n.max(1) as f32 * 2.0);
		Frame::new(v, -v)
	} else {
		// pseudo-random but index-determined values in [-1, 1]
		let mut x = (i as u64 + 1).wrapping_mul(0x9E3779B97F4A7C15);
		x ^= x >> 29;
		x = x.wrapping_mul(0xBF58476D1CE4E5B9);
		x ^= x >> 32;
		let l = ((x & 0xffffff) as f32 / 8388608.0) - 1.0;
		let r = (((x >> 24) & 0xffffff) as f32 / 8388608.0) - 1.0;
		Frame::new(l, r)
	}
}

// ------------------------------------------------------------------------------------------
// reference player, written from the documented transport semantics

struct Model {
	/// the audible slice
	src: Vec<Frame>,
	loop_region: Option<(usize, usize)>,
	reverse: bool,
	/// next index to be fed to the interpolator
	pos: usize,
	playing: bool,
	/// interpolation window: the last four frames in play order (value, index)
	win: [(f64, f64, usize); 4],
	until_empty: usize,
	frac: f64,
	stopped: bool,
	rate_prev: f64,
	rate_cur: f64,
	sound_rate: u32,
	crossed_loop: bool,
	reached_end: bool,
}

impl Model {
	fn resolve_loop(&self, l: Option<(usize, Option<usize>)>) -> Option<(usize, usize)> {
		l.map(|(s, e)| (s, e.unwrap_or(self.src.len()))).filter(|(s, e)| e > s)
	}

	fn new(c: &Case, src: Vec<Frame>) -> Self {
		let n = src.len();
		let (pos, playing) = if c.reverse {
			match n.checked_sub(c.start + 1) {
				Some(p) => (p, true),
				None => (0, false),
			}
		} else {
			(c.start, true)
		};
		let mut m = Model {
			src,
			loop_region: None,
			reverse: c.reverse,
			pos,
			playing,
			win: [(0.0, 0.0, pos); 4],
			until_empty: 0,
			frac: 0.0,
			stopped: false,
			rate_prev: c.rate,
			rate_cur: c.rate,
			sound_rate: c.sound_rate,
			crossed_loop: false,
			reached_end: false,
		};
		m.loop_region = m.resolve_loop(c.loop_region);
		// playback starts with the first frame already "current": three frames are pre-loaded
		for _ in 0..3 {
			m.advance();
		}
		m
	}

	fn backwards(&self) -> bool {
		(self.rate_cur.is_sign_negative()) != self.reverse
	}

	fn feed(&mut self) {
		let item = if self.playing {
			self.until_empty = 4;
			let f = self.src.get(self.pos).copied().unwrap_or(Frame::ZERO);
			(f.left as f64, f.right as f64, self.pos)
		} else {
			self.until_empty = self.until_empty.saturating_sub(1);
			(0.0, 0.0, self.pos)
		};
		self.win.copy_within(1.., 0);
		self.win[3] = item;
	}

	fn advance(&mut self) {
		self.feed();
		if self.playing {
			if self.backwards() {
				if let Some((s, e)) = self.loop_region {
					if self.pos <= s {
						// from the loop start straight to the loop end (modular for positions below)
						let len = e - s;
						let k = (s - self.pos) / len + 1;
						self.pos += k * len;
						self.crossed_loop = true;
					}
				}
				if self.pos == 0 {
					self.playing = false;
					self.reached_end = true;
				} else {
					self.pos -= 1;
				}
			} else {
				self.pos += 1;
				if let Some((s, e)) = self.loop_region {
					if self.pos >= e {
						// from the loop end straight to the loop start (modular for positions beyond)
						let len = e - s;
						self.pos = s + (self.pos - s) % len;
						self.crossed_loop = true;
					}
				}
				if self.pos >= self.src.len() {
					self.playing = false;
					self.reached_end = true;
				}
			}
		}
		if !self.playing && self.until_empty == 0 {
			self.stopped = true;
		}
	}

	fn seek_to_index(&mut self, mut index: usize) {
		if let Some((s, e)) = self.loop_region {
			let len = e - s;
			if index > self.pos {
				if index >= e {
					index = s + (index - s) % len;
				}
			} else if index < s {
				let k = (s - index + len - 1) / len;
				index += k * len;
			}
		}
		self.pos = index;
		if self.pos >= self.src.len() {
			self.playing = false;
		}
		if !self.stopped {
			// the frame at the seek target is fed at once so that it is not skipped
			self.feed();
		}
	}

	fn apply(&mut self, cmd: &Cmd) {
		if self.stopped {
			return;
		}
		match cmd {
			Cmd::SeekTo(t) => self.seek_to_index((t * self.sound_rate as f64) as usize),
			Cmd::SeekBy(d) => {
				let cur = self.pos as f64 / self.sound_rate as f64;
				self.seek_to_index(((cur + d) * self.sound_rate as f64) as usize)
			}
			Cmd::Loop(l) => self.loop_region = self.resolve_loop(*l),
			Cmd::Rate(_) => {}
		}
	}

	/// 4-point, 3rd-order Hermite (Niemitalo, x-form), in f64
	fn hermite(&self) -> (f64, f64) {
		let t = self.frac as f32 as f64;
		let h = |p: f64, c: f64, n1: f64, n2: f64| {
			let c0 = c;
			let c1 = (n1 - p) * 0.5;
			let c2 = p - c * 2.5 + n1 * 2.0 - n2 * 0.5;
			let c3 = (n2 - p) * 0.5 + (c - n1) * 1.5;
			((c3 * t + c2) * t + c1) * t + c0
		};
		(h(self.win[0].0, self.win[1].0, self.win[2].0, self.win[3].0), h(self.win[0].1, self.win[1].1, self.win[2].1, self.win[3].1))
	}

	/// renders one chunk of `n` frames at device step `dt`; `new_rate`: rate set before this chunk
	fn process(&mut self, n: usize, dt: f64, new_rate: Option<f64>) -> Vec<(f64, f64)> {
		self.rate_prev = self.rate_cur;
		if let Some(r) = new_rate {
			self.rate_cur = r;
		}
		let mut out = Vec::with_capacity(n);
		if self.stopped {
			out.resize(n, (0.0, 0.0));
			return out;
		}
		for i in 0..n {
			let a = (i + 1) as f64 / n as f64;
			let rate = self.rate_prev + (self.rate_cur - self.rate_prev) * a;
			out.push(self.hermite());
			self.frac += self.sound_rate as f64 * rate.abs() * dt;
			while self.frac >= 1.0 {
				self.frac -= 1.0;
				self.advance();
			}
		}
		out
	}

	fn heard_index(&self) -> usize {
		self.win[1].2
	}
}

// ------------------------------------------------------------------------------------------

fn region(l: Option<(usize, Option<usize>)>) -> Option<Region> {
	l.map(|(s, e)| Region {
		start: PlaybackPosition::Samples(s),
		end: match e {
			None => EndPosition::EndOfAudio,
			Some(e) => EndPosition::Custom(PlaybackPosition::Samples(e)),
		},
	})
}

fn exact_rate(r: u32) -> bool {
	r as f64 * (1.0 / r as f64) == 1.0
}

/// The same sound played on the main track of a real manager (internal buffer `ibs`, the case's
/// chunk sizes as callback sizes) and driven directly: the mixer adds nothing and loses nothing -
/// bit for bit, including the silence after the sound has ended.
fn through_the_manager(c: &Case, ibs: usize) -> Result<(), Failure> {
	let (a, b) = c.slice.unwrap_or((0, c.total_len));
	let (a, b) = (a.min(c.total_len), b.min(c.total_len));
	let n = b.saturating_sub(a);
	let mut frames = vec![Frame::from_mono(POISON); c.total_len];
	for i in 0..n {
		frames[a + i] = code(i, c.ramp, n);
	}
	let frames: Arc<[Frame]> = Arc::from(frames);
	let data = || StaticSoundData {
		sample_rate: c.sound_rate,
		frames: frames.clone(),
		settings: StaticSoundSettings::new().start_position(PlaybackPosition::Samples(c.start)).loop_region(region(c.loop_region)).reverse(c.reverse).playback_rate(PlaybackRate(c.rate)),
		slice: c.slice,
	};
	let mut mgr = crate::probes::default_manager(c.device_rate, ibs);
	let _h = mgr.play(data()).map_err(|_| Failure::simple("setup", "play"))?;
	let (mut sound, _h2) = data().into_sound().map_err(|_| Failure::simple("setup", "into_sound"))?;
	let info = MockInfoBuilder::new().build();
	let dt = 1.0 / c.device_rate as f64;
	let mut t = 0usize;
	for (ci, len) in c.chunks.iter().enumerate() {
		let len = (*len).max(1);
		let cb = mgr.backend_mut().callback(len, 2);
		if let Some(p) = &cb.guard.panic {
			return Err(Failure::panic("", p));
		}
		let mut direct = vec![Frame::ZERO; len];
		sound.on_start_processing();
		let mut i = 0;
		while i < len {
			let k = ibs.min(len - i);
			if !sound.finished() {
				sound.process(&mut direct[i..i + k], dt, &info);
			}
			i += k;
		}
		for i in 0..len {
			let (l, r) = cb.frame(i, 2);
			let want = (direct[i].left.clamp(-1.0, 1.0), direct[i].right.clamp(-1.0, 1.0));
			if (l, r) != want && !(l == want.0 && r == want.1) {
				let sig = "mixer-passes-a-single-sound-unchanged";
				return Err(Failure::new(sig, sig, format!("output frame {} (callback {ci}, frame {i} of {len}, internal buffer {ibs}): the manager renders ({l}, {r}), the sound driven directly gives {want:?}; case {c:?}", t + i)));
			}
		}
		t += len;
	}
	Ok(())
}

fn run_case(c: &Case) -> Result<(bool, bool, bool), Failure> {
	// source buffer: poison outside the slice
	let (a, b) = c.slice.unwrap_or((0, c.total_len));
	let (a, b) = (a.min(c.total_len), b.min(c.total_len));
	let n = b.saturating_sub(a);
	let mut frames = vec![Frame::from_mono(POISON); c.total_len];
	let mut src = Vec::with_capacity(n);
	for i in 0..n {
		let f = code(i, c.ramp, n);
		frames[a + i] = f;
		src.push(f);
	}
	let data = StaticSoundData {
		sample_rate: c.sound_rate,
		frames: Arc::from(frames),
		settings: StaticSoundSettings::new().start_position(PlaybackPosition::Samples(c.start)).loop_region(region(c.loop_region)).reverse(c.reverse).playback_rate(PlaybackRate(c.rate)),
		slice: c.slice,
	};
	let (mut sound, mut handle) = data.into_sound().map_err(|_| Failure::simple("into-sound", "into_sound failed"))?;
	let mut model = Model::new(c, src.clone());
	let info = MockInfoBuilder::new().build();
	let dt = 1.0 / c.device_rate as f64;
	let tol: f64 = if c.exact { 0.0 } else { 1e-5 };
	let mut t = 0usize; // frames rendered so far
	let mut had_seek = false;
	let mut frames_since_seek = usize::MAX;
	let mut seek_target: Option<usize> = None;
	// what the handle reports before the sound has seen its first callback: the frame playback will
	// begin with (forwards or in reverse)
	if !model.stopped {
		let reported = handle.position() * c.sound_rate as f64;
		let heard = model.heard_index() as f64;
		ensure!((reported - heard).abs() <= 1.0 + 1e-9, "position-names-heard-frame", "before the first callback: handle.position() = frame {reported}, playback begins at frame {heard}; case {c:?}");
	}
	for (ci, len) in c.chunks.iter().enumerate() {
		let mut new_rate = None;
		for (at, cmd) in &c.cmds {
			if *at == ci {
				match cmd {
					Cmd::SeekTo(p) => {
						handle.seek_to(*p);
						had_seek = true;
					}
					Cmd::SeekBy(d) => {
						handle.seek_by(*d);
						had_seek = true;
					}
					Cmd::Loop(l) => handle.set_loop_region(region(*l)),
					Cmd::Rate(r) => {
						handle.set_playback_rate(
							PlaybackRate(*r),
							Tween {
								duration: Duration::ZERO,
								..Default::default()
							},
						);
						new_rate = Some(*r);
					}
				}
			}
		}
		sound.on_start_processing();
		// the reported position is published before the commands are read
		let heard_before_commands = model.heard_index() as f64;
		let model_stopped_before = model.stopped;
		// the model applies commands in the order the sound reads them
		for kind in 0..3 {
			for (at, cmd) in &c.cmds {
				if *at == ci {
					let k = match cmd {
						Cmd::Loop(_) => 0,
						Cmd::SeekBy(_) => 1,
						Cmd::SeekTo(_) => 2,
						Cmd::Rate(_) => 3,
					};
					if k == kind {
						// several commands of one kind before a chunk: only the last counts
						let last = c.cmds.iter().filter(|(a2, c2)| *a2 == ci && std::mem::discriminant(c2) == std::mem::discriminant(cmd)).last().map(|(_, c2)| c2 as *const Cmd);
						if last == Some(cmd as *const Cmd) {
							let before = model.pos;
							model.apply(cmd);
							if matches!(cmd, Cmd::SeekTo(_) | Cmd::SeekBy(_)) && !model.stopped {
								frames_since_seek = 0;
								seek_target = Some(model.pos);
								let _ = before;
							}
						}
					}
				}
			}
		}
		// reported position names the frame being heard (to within one frame)
		if !model_stopped_before {
			let reported = handle.position() * c.sound_rate as f64;
			let heard = heard_before_commands;
			ensure!((reported - heard).abs() <= 1.0 + 1e-9, "position-names-heard-frame", "before chunk {ci} (t={t}): handle.position() = frame {reported}, model hears frame {heard}; case {c:?}");
		}
		let mut out = vec![Frame::ZERO; *len];
		sound.process(&mut out, dt, &info);
		let want = model.process(*len, dt, new_rate);
		for i in 0..*len {
			let (l, r) = (out[i].left, out[i].right);
			ensure!(l.abs() < 100.0 && r.abs() < 100.0, "reads-only-inside-slice", "output frame {} = ({l}, {r}) contains data from outside the slice; case {c:?}", t + i);
			let (wl, wr) = want[i];
			let ok = if c.exact { l as f64 == wl && r as f64 == wr } else { (l as f64 - wl).abs() <= tol && (r as f64 - wr).abs() <= tol };
			if !ok {
				let oracle = if c.exact { "bit-exact-playback" } else { "hermite-resampling" };
				// the known finding is keyed on its input class: a device rate whose f64
				// reciprocal does not multiply back to exactly 1.0
				let sig = if c.exact && !exact_rate(c.device_rate) { "bit-exact-playback:device-rate-R-with-R*(1/R)!=1".to_string() } else { oracle.to_string() };
				return Err(Failure::new(oracle, sig, format!("output frame {} (chunk {ci}, offset {i}) = ({l}, {r}), reference = ({wl}, {wr}); case {c:?}", t + i)));
			}
		}
		t += len;
		if frames_since_seek != usize::MAX {
			frames_since_seek += len;
		}
		// seek accuracy: once the four-frame window has refilled the heard index is within one
		// frame of target + frames played - 2 (the interpolator runs two frames ahead)
		if c.exact && c.rate == 1.0 && !c.reverse && frames_since_seek != usize::MAX && frames_since_seek >= 4 && c.loop_region.is_none() && !c.cmds.iter().any(|(_, c)| matches!(c, Cmd::Loop(_))) && !model.stopped && model.playing {
			if let Some(target) = seek_target {
				let heard_impl = (handle_position_after(&mut *sound, &handle) * c.sound_rate as f64).round() as i64;
				let ideal = target as i64 + frames_since_seek as i64 - 2;
				ensure!((heard_impl - ideal).abs() <= 1, "seek-lands-within-one-frame", "{frames_since_seek} frames after a seek to frame {target} the sound reports frame {heard_impl}, expected {ideal} +- 1; case {c:?}");
				// consumed: the check above already called on_start_processing once more, which is harmless
			}
			seek_target = None;
		}
		// end of playback
		let state = handle.state();
		if model.stopped {
			ensure!(state == PlaybackState::Stopped, "reports-stopped-after-last-frame", "after {t} frames the reference has ended but the handle reports {state:?}; case {c:?}");
			ensure!(sound.finished(), "reports-stopped-after-last-frame", "after {t} frames the reference has ended but finished() is false; case {c:?}");
		} else {
			ensure!(state != PlaybackState::Stopped, "stops-only-after-last-frame", "after {t} frames the handle reports Stopped but the reference is still playing (heard frame {}); case {c:?}", model.heard_index());
		}
	}
	Ok((model.crossed_loop, model.reached_end, had_seek))
}

/// `position()` is refreshed by on_start_processing; calling it again between chunks only
/// re-reads commands (none pending) and republishes the position
fn handle_position_after(sound: &mut dyn kira::sound::Sound, handle: &kira::sound::static_sound::StaticSoundHandle) -> f64 {
	sound.on_start_processing();
	handle.position()
}

const EXACT_RATES: [u32; 8] = [44100, 48000, 8000, 22050, 96000, 192000, 1, 1000];

fn decode(src: &mut Src, ctx: &mut Ctx) -> Case {
	let mode = src.below(4);
	if mode == 0 {
		// small explicit case (also the target of the exhaustive enumeration)
		let total = src.below(13) as usize;
		let slice = match src.below(2) {
			0 => None,
			_ => {
				let a = src.below(total as u64 + 1) as usize;
				let b = a + src.below((total - a) as u64 + 1) as usize;
				Some((a, b))
			}
		};
		let n = slice.map(|(a, b)| b - a).unwrap_or(total);
		let start = src.below(n as u64 + 2) as usize;
		let loop_region = match src.below(3) {
			0 => None,
			1 => {
				let s = src.below(n as u64 + 1) as usize;
				Some((s, None))
			}
			_ => {
				let s = src.below(n as u64 + 1) as usize;
				let e = src.below(n as u64 + 2) as usize;
				Some((s, Some(e)))
			}
		};
		let reverse = src.below(2) == 1;
		let rate = if src.below(2) == 1 { -1.0 } else { 1.0 };
		let chunk = 1 + src.below(5) as usize;
		let frames = 3 * n + 12;
		let mut chunks = vec![];
		let mut left = frames;
		while left > 0 {
			let k = chunk.min(left);
			chunks.push(k);
			left -= k;
		}
		return Case {
			exact: true,
			total_len: total,
			slice,
			start,
			loop_region,
			reverse,
			rate,
			sound_rate: 48000,
			device_rate: 48000,
			chunks,
			cmds: vec![],
			ramp: false,
		};
	}
	let exact = mode == 1;
	let total = match src.weighted(&[2, 3, 3]) {
		0 => src.usize_in(0, 6),
		1 => src.usize_in(0, 64),
		_ => src.usize_in(0, if ctx.tier == Tier::Thorough { 5000 } else { 600 }),
	};
	let slice = if src.chance(1, 3) {
		let a = src.usize_in(0, total);
		let b = src.usize_in(a, total);
		Some((a, b))
	} else {
		None
	};
	let n = slice.map(|(a, b)| b - a).unwrap_or(total);
	let start = match src.weighted(&[4, 4, 1]) {
		0 => 0,
		1 => src.usize_in(0, n),
		_ => src.usize_in(n, n + 3),
	};
	let gen_loop = |src: &mut Src| -> Option<(usize, Option<usize>)> {
		match src.weighted(&[4, 2, 4]) {
			0 => None,
			1 => Some((src.usize_in(0, n), None)),
			_ => {
				let s = src.usize_in(0, n);
				Some((s, Some(src.usize_in(0, n + 1))))
			}
		}
	};
	let loop_region = gen_loop(src);
	let reverse = src.chance(1, 4);
	let (sound_rate, device_rate, rate);
	if exact {
		let mut r = if src.chance(1, 3) { src.int(8000, 192000) as u32 } else { src.pick(&EXACT_RATES) };
		if !exact_rate(r) && ctx.exclude("device-rate-R-with-R*(1/R)!=1") {
			// nearest rate for which the per-frame increment is exactly 1.0
			while !exact_rate(r) {
				r += 1;
			}
		}
		sound_rate = r;
		device_rate = r;
		rate = if src.chance(1, 3) { -1.0 } else { 1.0 };
	} else {
		sound_rate = src.pick(&[44100u32, 48000, 8000, 22050, 1000, 96000]);
		device_rate = if src.bool() { sound_rate } else { src.pick(&[44100u32, 48000, 8000, 192000, 11025, 12345]) };
		rate = match src.weighted(&[3, 3, 3]) {
			0 => src.pick(&[0.5, 2.0, 0.25, -0.5, 1.5, 0.0, 4.0, -2.0]),
			1 => src.f64_uniform(0.0, 3.0),
			_ => src.f64_uniform(-8.0, 8.0),
		};
	}
	let max_chunk = 300;
	let speed = (rate.abs() * sound_rate as f64 / device_rate as f64).max(0.05);
	let want_frames = (((n as f64 * 2.5 + 16.0) / speed) as usize).clamp(8, if ctx.tier == Tier::Thorough { 20000 } else { 3000 });
	let mut chunks = vec![];
	let mut left = want_frames;
	let mode = src.weighted(&[2, 2, 3]);
	let fixed = src.usize_in(1, max_chunk);
	while left > 0 {
		let k = match mode {
			0 => 1,
			1 => fixed,
			_ => src.usize_in(1, max_chunk),
		}
		.min(left);
		chunks.push(k);
		left -= k;
	}
	let mut cmds = vec![];
	for _ in 0..src.weighted(&[4, 3, 2, 1]) {
		let at = src.index(chunks.len());
		let dur = n as f64 / sound_rate as f64;
		let cmd = match src.weighted(&[3, 3, 2, if exact { 0 } else { 2 }]) {
			0 => Cmd::SeekTo(match src.weighted(&[1, 4, 1]) {
				0 => 0.0,
				1 => src.f64_uniform(0.0, dur),
				_ => src.f64_uniform(0.0, dur * 1.5 + 0.001),
			}),
			1 => Cmd::SeekBy(src.f64_uniform(-dur, dur)),
			2 => Cmd::Loop(gen_loop(src)),
			_ => Cmd::Rate(src.f64_uniform(-4.0, 4.0)),
		};
		cmds.push((at, cmd));
	}
	Case {
		exact,
		total_len: total,
		slice,
		start,
		loop_region,
		reverse,
		rate,
		sound_rate,
		device_rate,
		chunks,
		cmds,
		ramp: src.chance(1, 4),
	}
}

impl Property for C04 {
	fn id(&self) -> &'static str {
		"C04"
	}
	fn rule(&self) -> &'static str {
		"each case plays one StaticSoundData (index-coded frames, frames outside the slice poisoned with 777.0) as a Box<dyn Sound> with MockInfoBuilder, chunk by chunk, next to an independent reference player. Exact mode (rate +-1, device rate == sound rate, rates R with R*(1/R)==1.0): output must equal the reference bit-for-bit, including the first frame (no latency), loop wraps, reverse, the end (exact zeros) and Stopped reported exactly when the reference has ended. Other rates / rate pairs / zero-duration rate changes: |out - f64 Hermite reference| <= 1e-5. seek_to / seek_by / set_loop_region at arbitrary chunk boundaries; position() must name the heard frame within one frame, from before the first callback on; seeks must land within one frame once the 4-frame window has refilled. A third of the command-free cases are also played on the main track of a real manager (internal buffer 1..128, the case's chunk sizes as callback sizes) and must come out bit for bit as when driven directly, including the silence after the end. Enumeration: all small cases (length <= 6 quick / <= 9 thorough) x slice x start x loop region x reverse x rate sign. Non-trivial = crosses a loop end, reaches the end of data, or contains a seek; distinct = distinct decoded choices."
	}
	fn assumptions(&self) -> Vec<String> {
		vec![
			"the reference player is written from the transport semantics fixed by the documentation and the repository's own transport tests (positions beyond a loop end fold into the loop modulo its length); it uses f64 and its own index arithmetic".into(),
			"device rates R for which R as f64 * (1.0 / R as f64) != 1.0 are a known finding (not bit-exact at rate 1) and are excluded by construction from the exact mode".into(),
			"volume 0 dB and centre panning throughout (gain paths belong to C03/C09)".into(),
		]
	}
	fn tape_len(&self, _tier: Tier) -> usize {
		400
	}
	fn cases(&self, tier: Tier) -> u64 {
		tier.pick(3_000_000, 30_000_000)
	}

	fn enumerations(&self, tier: Tier) -> Vec<Enumeration> {
		let max_len = tier.pick(6usize, 9usize);
		let mut tapes = vec![];
		for total in 0..=max_len {
			let mut slices: Vec<Option<(usize, usize)>> = vec![None];
			for a in 0..=total {
				for b in a..=total {
					slices.push(Some((a, b)));
				}
			}
			for slice in slices {
				let n = slice.map(|(a, b)| b - a).unwrap_or(total);
				for start in 0..n + 2 {
					let mut loops: Vec<(u64, usize, usize)> = vec![(0, 0, 0)];
					for s in 0..=n {
						loops.push((1, s, 0));
						for e in 0..n + 2 {
							loops.push((2, s, e));
						}
					}
					for (lk, ls, le) in &loops {
						for reverse in 0..2u64 {
							for neg in 0..2u64 {
								for chunk in [0u64, 2] {
									let mut t = vec![enc(0, 4), enc(total as u64, 13)];
									match slice {
										None => t.push(enc(0, 2)),
										Some((a, b)) => {
											t.push(enc(1, 2));
											t.push(enc(a as u64, total as u64 + 1));
											t.push(enc((b - a) as u64, (total - a) as u64 + 1));
										}
									}
									t.push(enc(start as u64, n as u64 + 2));
									t.push(enc(*lk, 3));
									if *lk >= 1 {
										t.push(enc(*ls as u64, n as u64 + 1));
									}
									if *lk == 2 {
										t.push(enc(*le as u64, n as u64 + 2));
									}
									t.push(enc(reverse, 2));
									t.push(enc(neg, 2));
									t.push(enc(chunk, 5));
									tapes.push(t);
								}
							}
						}
					}
				}
			}
		}
		vec![Enumeration {
			name: "all small exact-mode cases (length, slice, start, loop region, reverse, rate sign, chunk size 1 and 3)",
			tapes: Box::new(tapes.into_iter()),
			exhaustive: true,
		}]
	}

	fn run(&self, tape: &[u32], ctx: &mut Ctx) -> CaseResult {
		let mut src = Src::new(tape);
		let case = decode(&mut src, ctx);
		ctx.describe(|| format!("{case:?}"));
		let (crossed_loop, reached_end, had_seek) = run_case(&case)?;
		let mut classes = vec![if case.exact { "exact" } else { "resampled" }];
		if case.cmds.is_empty() && src.chance(1, 3) {
			let ibs = src.pick(&[16usize, 1, 3, 64, 128]);
			through_the_manager(&case, ibs)?;
			classes.push("through-the-manager");
		}
		if crossed_loop {
			classes.push("crossed-loop");
		}
		if reached_end {
			classes.push("reached-end");
		}
		if had_seek {
			classes.push("seek");
		}
		if case.reverse {
			classes.push("reverse");
		}
		if case.slice.is_some() {
			classes.push("slice");
		}
		Ok(CaseInfo::new(&src, crossed_loop || reached_end || had_seek, classes))
	}
}
