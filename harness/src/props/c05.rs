//! C05 - clocks keep exact audio time; clock-scheduled events fire in the right buffer.
//!
//! Part A (this file, `run`): histories through the real renderer against a clock model.
//! Part B (`schedule_case`): reader / writer interleavings of `ClockHandle::time()` with the audio
//! thread's updates, enumerated through the H1 hook points.

use crate::engine::{CaseInfo, CaseResult, Ctx, Failure, Property, Src, Tier};
use crate::ensure;
use crate::probes::agent::{Phase, Stage, Target, World, PHASES, TARGETS};
use crate::probes::{clocksched, default_manager, streamctl, Mgr, ProbeEffectBuilder, ProbeKind};
use kira::clock::{ClockHandle, ClockSpeed, ClockTime};
use kira::sound::static_sound::{StaticSoundData, StaticSoundHandle, StaticSoundSettings};
use kira::sound::PlaybackState;
use kira::track::TrackBuilder;
use kira::{Frame, StartTime, Tween, Value};
use std::sync::Arc;
use std::time::Duration;

pub struct C05;

#[derive(Debug, Clone, Copy, PartialEq)]
enum Unit {
	Tps,
	Tpm,
	Spt,
}

#[derive(Debug, Clone, Copy, PartialEq)]
struct Speed {
	unit: Unit,
	v: f64,
}

impl Speed {
	fn kira(&self) -> ClockSpeed {
		match self.unit {
			Unit::Tps => ClockSpeed::TicksPerSecond(self.v),
			Unit::Tpm => ClockSpeed::TicksPerMinute(self.v),
			Unit::Spt => ClockSpeed::SecondsPerTick(self.v),
		}
	}
	fn tps(&self) -> f64 {
		match self.unit {
			Unit::Tps => self.v,
			Unit::Tpm => self.v / 60.0,
			Unit::Spt => 1.0 / self.v,
		}
	}
	fn in_unit(&self, u: Unit) -> f64 {
		let tps = self.tps();
		match u {
			Unit::Tps => tps,
			Unit::Tpm => tps * 60.0,
			Unit::Spt => 1.0 / tps,
		}
	}
}

#[derive(Debug, Clone, Copy, PartialEq)]
enum TStart {
	Immediate,
	Delayed(f64),
	/// on clock `i` at (ticks, fraction)
	Clock(usize, u64, f64),
}

#[derive(Debug, Clone, PartialEq)]
enum Op {
	AddClock(Speed),
	Start(usize),
	Pause(usize),
	Stop(usize),
	SetSpeed(usize, Speed, TStart, f64),
	DropClock(usize),
	/// looping DC sound scheduled on clock i at (ticks, fraction)
	PlayAt(usize, u64, f64),
	/// a volume-control tween 0 dB -> -6 dB (zero duration) scheduled on clock i
	TweenAt(usize, u64, f64),
	/// a tweener modulator told to jump 0 -> 1 at a clock time, watched through a probe parameter
	TweenerAt(usize, u64, f64),
	/// play a DC sound and pause it at once (always followed by a callback and then `ArmResume`)
	PlayPaused,
	/// resume the most recent paused sound at a clock time
	ArmResume(usize, u64, f64),
	Callback(usize),
	/// the first half of a callback (`on_start_processing`); the ops up to the matching
	/// `CallbackEnd` are issued between the two halves, where a second thread's calls can land
	CallbackBegin,
	/// the second half (`process`) of the callback opened by `CallbackBegin`
	CallbackEnd(usize),
}

#[derive(Debug, Clone)]
struct Case {
	ibs: usize,
	sample_rate: u32,
	ops: Vec<Op>,
}

// ------------------------------------------------------------------------------------------
// clock model

#[derive(Debug, Clone, Copy, PartialEq)]
enum Place {
	Queued,
	Live,
	Gone,
}

#[derive(Debug, Clone)]
struct MClock {
	place: Place,
	dropped: bool,
	ticking: bool,
	started: bool,
	ticks: u64,
	frac: f64,
	speed: Speed,
	prev_speed: Speed,
	/// from, to, duration, elapsed, start condition
	tween: Option<(Speed, Speed, f64, f64, TStart)>,
	pending_ticking: Option<bool>,
	pending_reset: bool,
	pending_speed: Option<(Speed, TStart, f64)>,
	/// what the handle shows: refreshed at the start of every callback
	shown: (u64, f64),
	shown_ticking: bool,
	/// total ticks as a real number, for the tolerance comparison
	total: f64,
}

#[derive(Debug, Clone)]
struct Waiter {
	kind: WaiterKind,
	clock: usize,
	at: (u64, f64),
	/// chunk counter at which the event fired in the model
	fired: Option<usize>,
	cancelled: bool,
	live_from_callback: usize,
}

#[derive(Debug, Clone, Copy, PartialEq)]
enum WaiterKind {
	SoundStart,
	/// a parameter tween (volume control effect) scheduled on the clock
	ParamTween,
	/// a tweener modulator's tween scheduled on the clock
	TweenerTween,
	Resume,
}

struct Model {
	clocks: Vec<MClock>,
}

impl Model {
	fn reached(&self, clock: usize, at: (u64, f64)) -> Option<bool> {
		let c = &self.clocks[clock];
		if c.place != Place::Live {
			return None;
		}
		// a ticking clock that has not advanced yet is at time zero
		let now = if c.started { (c.ticks, c.frac) } else { (0, 0.0) };
		Some(c.ticking && now >= at)
	}

	fn on_start_processing(&mut self) {
		for i in 0..self.clocks.len() {
			let c = &mut self.clocks[i];
			if c.place == Place::Live && c.dropped {
				c.place = Place::Gone;
			}
			if c.place == Place::Queued {
				c.place = Place::Live;
			}
			if c.place != Place::Live {
				continue;
			}
			if let Some((to, start, dur)) = c.pending_speed.take() {
				c.tween = Some((c.speed, to, dur, 0.0, start));
			}
			if let Some(t) = c.pending_ticking.take() {
				c.ticking = t;
			}
			if std::mem::take(&mut c.pending_reset) {
				c.started = false;
				c.ticks = 0;
				c.frac = 0.0;
				c.total = 0.0;
			}
			c.shown = if c.started { (c.ticks, c.frac) } else { (0, 0.0) };
			c.shown_ticking = c.ticking;
		}
	}

	/// clocks are updated in creation order, each seeing the others' state of the moment (the ones
	/// before it already advanced) and a stopped stand-in for itself
	fn chunk(&mut self, dt: f64) {
		for i in 0..self.clocks.len() {
			if self.clocks[i].place != Place::Live {
				continue;
			}
			// speed parameter
			let mut c = self.clocks[i].clone();
			c.prev_speed = c.speed;
			if let Some((from, to, dur, mut time, mut start)) = c.tween.take() {
				let started = match &mut start {
					TStart::Immediate => true,
					TStart::Delayed(rem) => {
						if *rem <= 0.0 {
							true
						} else {
							*rem = (((*rem - dt) * 1e9).round() / 1e9).max(0.0);
							false
						}
					}
					TStart::Clock(k, ticks, frac) => {
						if *k == i {
							// the property: a tween scheduled on the clock's own time takes effect
							// when it is due
							c.ticking && (if c.started { (c.ticks, c.frac) } else { (0, 0.0) }) >= (*ticks, *frac)
						} else {
							self.reached(*k, (*ticks, *frac)).unwrap_or(false)
						}
					}
				};
				if started {
					time += dt;
					if time >= dur {
						c.speed = to;
					} else {
						let a = from.in_unit(to.unit);
						c.speed = Speed {
							unit: to.unit,
							v: a + (to.v - a) * (time / dur),
						};
						c.tween = Some((from, to, dur, time, start));
					}
				} else {
					c.tween = Some((from, to, dur, time, start));
				}
			}
			if c.ticking {
				if !c.started {
					c.started = true;
					c.ticks = 0;
					c.frac = 0.0;
				}
				let adv = c.speed.tps() * dt;
				c.frac += adv;
				c.total += adv;
				while c.frac >= 1.0 {
					c.frac -= 1.0;
					c.ticks += 1;
				}
			}
			self.clocks[i] = c;
		}
	}
}

// ------------------------------------------------------------------------------------------

struct Real {
	mgr: Mgr,
	clocks: Vec<Option<ClockHandle>>,
	ids: Vec<kira::clock::ClockId>,
}

fn tstart(t: TStart, ids: &[kira::clock::ClockId]) -> StartTime {
	match t {
		TStart::Immediate => StartTime::Immediate,
		TStart::Delayed(d) => StartTime::Delayed(Duration::from_secs_f64(d)),
		TStart::Clock(i, ticks, fraction) => StartTime::ClockTime(ClockTime { clock: ids[i], ticks, fraction }),
	}
}

const DC: f32 = 0.25;

fn dc_sound(start: StartTime, sample_rate: u32) -> StaticSoundData {
	let frames: Arc<[Frame]> = vec![Frame::from_mono(DC); 16].into();
	StaticSoundData {
		sample_rate,
		frames,
		settings: StaticSoundSettings::new().loop_region(..).start_time(start),
		slice: None,
	}
}

struct Outcome {
	event_mid_callback: bool,
	events: usize,
	own_clock_tween: bool,
	mid_callback_ops: bool,
}

fn run_case(c: &Case, ctx: &mut Ctx) -> Result<Outcome, Failure> {
	let mgr = default_manager(c.sample_rate, c.ibs);
	let mut real = Real { mgr, clocks: vec![], ids: vec![] };
	let mut model = Model { clocks: vec![] };
	let dt = 1.0 / c.sample_rate as f64;
	// each scheduled event lives on its own sub-track so that its start is readable in isolation:
	// the k-th event uses channel gain 1 and is identified by muting all others? simpler: events
	// are probed one at a time through dedicated tracks with a probe effect recording the first
	// chunk in which signal / parameter change arrives
	struct Ev {
		waiter: Waiter,
		log: Arc<crate::probes::EffectLog>,
		sound: Option<StaticSoundHandle>,
		/// chunk counter (global) at which the implementation fired it
		fired_impl: Option<usize>,
		_track: kira::track::TrackHandle,
	}
	let mut events: Vec<Ev> = vec![];
	let mut chunk_counter = 0usize;
	let mut callback_counter = 0usize;
	let mut out = Outcome {
		event_mid_callback: false,
		events: 0,
		own_clock_tween: false,
		mid_callback_ops: false,
	};
	for (oi, op) in c.ops.iter().enumerate() {
		match op {
			Op::AddClock(speed) => {
				let h = real.mgr.add_clock(speed.kira()).map_err(|_| Failure::simple("setup", "clock limit"))?;
				real.ids.push(h.id());
				real.clocks.push(Some(h));
				model.clocks.push(MClock {
					place: Place::Queued,
					dropped: false,
					ticking: false,
					started: false,
					ticks: 0,
					frac: 0.0,
					speed: *speed,
					prev_speed: *speed,
					tween: None,
					pending_ticking: None,
					pending_reset: false,
					pending_speed: None,
					shown: (0, 0.0),
					shown_ticking: false,
					total: 0.0,
				});
			}
			Op::Start(i) => {
				if let Some(Some(h)) = real.clocks.get_mut(*i) {
					h.start();
					model.clocks[*i].pending_ticking = Some(true);
				}
			}
			Op::Pause(i) => {
				if let Some(Some(h)) = real.clocks.get_mut(*i) {
					h.pause();
					model.clocks[*i].pending_ticking = Some(false);
				}
			}
			Op::Stop(i) => {
				if let Some(Some(h)) = real.clocks.get_mut(*i) {
					h.stop();
					model.clocks[*i].pending_ticking = Some(false);
					model.clocks[*i].pending_reset = true;
					// the handle shows zero at once
					model.clocks[*i].shown = (0, 0.0);
				}
			}
			Op::SetSpeed(i, speed, start, dur) => {
				if matches!(start, TStart::Clock(k, ..) if *k >= real.ids.len()) {
					continue;
				}
				if let Some(Some(h)) = real.clocks.get_mut(*i) {
					h.set_speed(
						speed.kira(),
						Tween {
							start_time: tstart(*start, &real.ids),
							duration: Duration::from_secs_f64(*dur),
							..Default::default()
						},
					);
					let start_q = match start {
						TStart::Delayed(d) => TStart::Delayed(Duration::from_secs_f64(*d).as_secs_f64()),
						s => *s,
					};
					model.clocks[*i].pending_speed = Some((*speed, start_q, Duration::from_secs_f64(*dur).as_secs_f64()));
					if matches!(start, TStart::Clock(k, ..) if k == i) {
						out.own_clock_tween = true;
					}
				}
			}
			Op::DropClock(i) => {
				if let Some(s) = real.clocks.get_mut(*i) {
					if s.take().is_some() {
						model.clocks[*i].dropped = true;
					}
				}
			}
			Op::PlayAt(i, ticks, frac) | Op::TweenAt(i, ticks, frac) | Op::TweenerAt(i, ticks, frac) => {
				if *i >= real.ids.len() {
					continue;
				}
				let at = StartTime::ClockTime(ClockTime {
					clock: real.ids[*i],
					ticks: *ticks,
					fraction: *frac,
				});
				let mut b = TrackBuilder::new();
				let kind;
				let log;
				let mut sound = None;
				match op {
					Op::PlayAt(..) => {
						kind = WaiterKind::SoundStart;
						log = b.add_effect(ProbeEffectBuilder::new(ProbeKind::Pass));
						let mut track = real.mgr.add_sub_track(b).map_err(|_| Failure::simple("setup", "track limit"))?;
						sound = track.play(dc_sound(at, c.sample_rate)).ok();
						events.push(Ev {
							waiter: Waiter {
								kind,
								clock: *i,
								at: (*ticks, *frac),
								fired: None,
								cancelled: false,
								live_from_callback: callback_counter,
							},
							log,
							sound,
							fired_impl: None,
							_track: track,
						});
					}
					Op::TweenAt(..) => {
						kind = WaiterKind::ParamTween;
						let mut vol = b.add_effect(kira::effect::volume_control::VolumeControlBuilder::new(kira::Decibels(0.0)));
						log = b.add_effect(ProbeEffectBuilder::new(ProbeKind::Pass));
						let mut track = real.mgr.add_sub_track(b).map_err(|_| Failure::simple("setup", "track limit"))?;
						sound = track.play(dc_sound(StartTime::Immediate, c.sample_rate)).ok();
						vol.set_volume(
							kira::Decibels(-6.0),
							Tween {
								start_time: at,
								duration: Duration::ZERO,
								..Default::default()
							},
						);
						std::mem::forget(vol);
						events.push(Ev {
							waiter: Waiter {
								kind,
								clock: *i,
								at: (*ticks, *frac),
								fired: None,
								cancelled: false,
								live_from_callback: callback_counter,
							},
							log,
							sound,
							fired_impl: None,
							_track: track,
						});
					}
					Op::TweenerAt(..) => {
						kind = WaiterKind::TweenerTween;
						let mut tweener = real.mgr.add_modulator(kira::modulator::tweener::TweenerBuilder { initial_value: 0.0 }).map_err(|_| Failure::simple("setup", "modulator limit"))?;
						tweener.set(
							1.0,
							Tween {
								start_time: at,
								duration: Duration::ZERO,
								..Default::default()
							},
						);
						log = b.add_effect(ProbeEffectBuilder::new(ProbeKind::Pass).param(Value::FromModulator {
							id: tweener.id(),
							mapping: kira::Mapping {
								input_range: (0.0, 1.0),
								output_range: (0.0, 1.0),
								easing: kira::Easing::Linear,
							},
						}));
						let track = real.mgr.add_sub_track(b).map_err(|_| Failure::simple("setup", "track limit"))?;
						std::mem::forget(tweener); // keep the modulator alive for the whole case
						events.push(Ev {
							waiter: Waiter {
								kind,
								clock: *i,
								at: (*ticks, *frac),
								fired: None,
								cancelled: false,
								live_from_callback: callback_counter,
							},
							log,
							sound,
							fired_impl: None,
							_track: track,
						});
					}
					_ => unreachable!(),
				}
				out.events += 1;
			}
			Op::PlayPaused => {
				let mut b = TrackBuilder::new();
				let log = b.add_effect(ProbeEffectBuilder::new(ProbeKind::Pass));
				let mut track = real.mgr.add_sub_track(b).map_err(|_| Failure::simple("setup", "track limit"))?;
				let mut sound = track.play(dc_sound(StartTime::Immediate, c.sample_rate)).ok();
				if let Some(s) = &mut sound {
					s.pause(Tween {
						duration: Duration::ZERO,
						..Default::default()
					});
				}
				events.push(Ev {
					waiter: Waiter {
						kind: WaiterKind::Resume,
						clock: 0,
						at: (0, 0.0),
						fired: None,
						// not armed yet
						cancelled: true,
						live_from_callback: usize::MAX,
					},
					log,
					sound,
					fired_impl: None,
					_track: track,
				});
			}
			Op::ArmResume(i, ticks, frac) => {
				if *i >= real.ids.len() {
					continue;
				}
				let Some(e) = events.iter_mut().rev().find(|e| e.waiter.kind == WaiterKind::Resume && e.waiter.live_from_callback == usize::MAX) else { continue };
				if let Some(s) = &mut e.sound {
					s.resume_at(
						StartTime::ClockTime(ClockTime {
							clock: real.ids[*i],
							ticks: *ticks,
							fraction: *frac,
						}),
						Tween {
							duration: Duration::ZERO,
							..Default::default()
						},
					);
				}
				e.waiter.clock = *i;
				e.waiter.at = (*ticks, *frac);
				e.waiter.cancelled = false;
				e.waiter.live_from_callback = callback_counter;
				out.events += 1;
			}
			Op::CallbackBegin => {
				for e in &events {
					e.log.calls.lock().unwrap().clear();
				}
				let g = real.mgr.backend_mut().begin_callback();
				if let Some(p) = &g.panic {
					return Err(Failure::panic("", p));
				}
				model.on_start_processing();
				// whatever is issued from here on is picked up by the next callback
				callback_counter += 1;
				out.mid_callback_ops = true;
			}
			Op::Callback(n) | Op::CallbackEnd(n) => {
				if matches!(op, Op::Callback(_)) {
					for e in &events {
						e.log.calls.lock().unwrap().clear();
					}
					let g = real.mgr.backend_mut().begin_callback();
					if let Some(p) = &g.panic {
						return Err(Failure::panic("", p));
					}
					model.on_start_processing();
					callback_counter += 1;
				}
				let cb = real.mgr.backend_mut().end_callback(*n, 2);
				if let Some(p) = &cb.guard.panic {
					return Err(Failure::panic("", p));
				}
				// index of the callback being processed
				let this_callback = callback_counter - 1;
				// chunks of this callback
				let mut left = *n;
				let first_chunk = chunk_counter;
				let mut k_in_cb = 0;
				while left > 0 {
					let k = left.min(c.ibs);
					model.chunk(dt * k as f64);
					// which waiting events fire in this chunk (clock state at the end of the chunk)
					for e in events.iter_mut() {
						if e.waiter.fired.is_none() && !e.waiter.cancelled && this_callback >= e.waiter.live_from_callback {
							match model.reached(e.waiter.clock, e.waiter.at) {
								Some(true) => {
									e.waiter.fired = Some(chunk_counter);
									if k_in_cb > 0 {
										out.event_mid_callback = true;
									}
								}
								Some(false) => {}
								None => {
									// the clock is gone (or never arrived): the event is cancelled
									if model.clocks[e.waiter.clock].place == Place::Gone {
										e.waiter.cancelled = true;
									}
								}
							}
						}
					}
					chunk_counter += 1;
					k_in_cb += 1;
					left -= k;
				}
				// read the probes: one process call per chunk of this callback
				for (ei, e) in events.iter_mut().enumerate() {
					let calls = e.log.calls.lock().unwrap();
					if e.fired_impl.is_none() {
						for (j, r) in calls.iter().enumerate() {
							let hit = match e.waiter.kind {
								WaiterKind::SoundStart | WaiterKind::Resume => r.first_in.left != 0.0,
								WaiterKind::ParamTween => r.first_in.left != 0.0 && r.first_in.left != DC,
								WaiterKind::TweenerTween => r.param != 0.0,
							};
							// a resume ramps up from silence inside its first chunk: its first frame
							// is still 0, so look at the chunk's presence of signal through the
							// following call instead
							if hit {
								let mut at = first_chunk + j;
								if e.waiter.kind == WaiterKind::Resume && at > 0 {
									// signal visible at the first frame one chunk after the ramp
									at -= 1;
								}
								e.fired_impl = Some(at);
								break;
							}
						}
					}
					let _ = ei;
				}
				// handle-visible clock state
				for (i, h) in real.clocks.iter().enumerate() {
					let Some(h) = h else { continue };
					let m = &model.clocks[i];
					if m.place != Place::Live {
						continue;
					}
					let t = h.time();
					ensure!(t.fraction >= 0.0 && t.fraction < 1.0, "clock-fraction-range", "op #{oi}: clock {i} reports fraction {}; case {c:?}", t.fraction);
					let got = t.ticks as f64 + t.fraction;
					let want = m.shown.0 as f64 + m.shown.1;
					let tol = 1e-9 * (1.0 + want.abs()) + 1e-12 * chunk_counter as f64;
					if (got - want).abs() > tol && out.own_clock_tween {
						return Err(Failure::new("clock-advances-by-speed-times-audio-time", "clock-advances-by-speed-times-audio-time:speed-tween-scheduled-on-own-clock", format!("op #{oi}: clock {i} shows {} ticks + {}, the reference has {} + {} (a speed tween scheduled on the clock's own time is in the history); case {c:?}", t.ticks, t.fraction, m.shown.0, m.shown.1)));
					}
					ensure!((got - want).abs() <= tol, "clock-advances-by-speed-times-audio-time", "op #{oi} (callback of {n} frames, internal buffer {}): clock {i} shows {} ticks + {}, the reference (speed x elapsed audio time, as of the previous callback's end) has {} + {}; case {c:?}", c.ibs, t.ticks, t.fraction, m.shown.0, m.shown.1);
					ensure!(h.ticking() == m.shown_ticking, "clock-ticking-flag", "op #{oi}: clock {i} ticking() = {}, reference {}; case {c:?}", h.ticking(), m.shown_ticking);
				}
			}
		}
		// a stop is visible on the handle immediately
		if let Op::Stop(i) = op {
			if let Some(Some(h)) = real.clocks.get(*i) {
				let t = h.time();
				ensure!(t.ticks == 0 && t.fraction == 0.0, "stop-resets-to-zero", "op #{oi}: time() = {t:?} right after stop(); case {c:?}");
			}
		}
	}
	// scheduled events: the implementation fires in the chunk the model names
	for (ei, e) in events.iter().enumerate() {
		match (e.waiter.fired, e.fired_impl) {
			(Some(m), Some(i)) => {
				if m != i {
					let sig = format!("scheduled-event-fires-in-the-right-buffer:{:?}:{}", e.waiter.kind, if i > m { "late" } else { "early" });
					return Err(Failure::new("scheduled-event-fires-in-the-right-buffer", sig, format!("event {ei} ({:?} on clock {} at {:?}): the clock reaches that time in internal buffer #{m}, the event begins in #{i}; case {c:?}", e.waiter.kind, e.waiter.clock, e.waiter.at)));
				}
			}
			(None, Some(i)) => {
				return Err(Failure::simple("scheduled-event-fires-in-the-right-buffer", format!("event {ei} ({:?} on clock {} at {:?}) fired in internal buffer #{i} but the reference clock never reached that time while ticking; case {c:?}", e.waiter.kind, e.waiter.clock, e.waiter.at)));
			}
			(Some(m), None) => {
				// the last chunk may hide a resume ramp; only complain if there was room
				if m + 2 < chunk_counter {
					return Err(Failure::simple("scheduled-event-fires-in-the-right-buffer", format!("event {ei} ({:?} on clock {} at {:?}) should have fired in internal buffer #{m} (of {chunk_counter}) but never did; case {c:?}", e.waiter.kind, e.waiter.clock, e.waiter.at)));
				}
			}
			(None, None) => {}
		}
		if e.waiter.cancelled && matches!(e.waiter.kind, WaiterKind::SoundStart | WaiterKind::Resume) {
			if let Some(s) = &e.sound {
				ensure!(s.state() == PlaybackState::Stopped, "cancelled-when-clock-is-gone", "event {ei}: the clock was removed before the time was reached but the waiting sound reports {:?}; case {c:?}", s.state());
			}
		}
	}
	let _ = ctx;
	Ok(out)
}

// ------------------------------------------------------------------------------------------
// part C: a clock and a sound scheduled on it, handed over at every moment of a callback

#[derive(Debug, Clone)]
struct HandOff {
	sample_rate: u32,
	ibs: usize,
	phase: Phase,
	target: Target,
	other_first: bool,
	/// ticks the clock advances per internal buffer
	per_buffer: f64,
	at: (u64, f64),
}

/// The gameplay thread creates a clock, starts it and plays a sound scheduled on it - all at one
/// of the moments of a callback at which a second thread's calls can land. The sound must wait
/// for the clock (never report Stopped while the clock's handle is alive) and begin in the
/// callback during which the clock, as read back from its handle, reaches the time.
fn hand_off(c: &HandOff) -> Result<(), Failure> {
	let mut stage = Stage::new(c.sample_rate, c.ibs, c.other_first)?;
	let tps = c.per_buffer * c.sample_rate as f64 / c.ibs as f64;
	let (target, at, sample_rate) = (c.target, c.at, c.sample_rate);
	let mut made: Option<(ClockHandle, StaticSoundHandle)> = None;
	let reached = |t: ClockTime| t.ticks > at.0 || (t.ticks == at.0 && t.fraction >= at.1);
	// reads[k] = the handle's time after callback k = the clock as of the start of callback k
	let mut reads: Vec<ClockTime> = vec![];
	let mut first_audible: Option<usize> = None;
	let mut k = 0usize;
	let mut tail = 0;
	while k < 80 && tail < 3 {
		let cb = if k == 0 {
			let (r, cb) = stage.callback(c.ibs, c.phase, move |w: &mut World| -> Result<(ClockHandle, StaticSoundHandle), &'static str> {
				let mut clock = w.mgr.add_clock(ClockSpeed::TicksPerSecond(tps)).map_err(|_| "clock limit")?;
				clock.start();
				let data = dc_sound(
					StartTime::ClockTime(ClockTime {
						clock: clock.id(),
						ticks: at.0,
						fraction: at.1,
					}),
					sample_rate,
				);
				let sound = match target {
					Target::Main => w.mgr.play(data),
					Target::AgentTrack => w.agent_track.play(data),
					Target::OtherTrack => w.other_track.play(data),
				}
				.map_err(|_| "sound limit")?;
				Ok((clock, sound))
			})?;
			made = Some(r.map_err(|e| Failure::simple("setup", e))?);
			cb
		} else {
			stage.callback(c.ibs, Phase::Before, |_| ())?.1
		};
		let (clock, sound) = made.as_ref().unwrap();
		if first_audible.is_none() && cb.out.iter().any(|x| *x != 0.0) {
			first_audible = Some(k);
		}
		ensure!(
			sound.state() != PlaybackState::Stopped,
			"cancelled-only-when-the-clock-is-gone",
			"a clock was created and started and a sound scheduled on it at {:?}, all {:?} of callback 0; after callback {k} the sound reports Stopped although the clock's handle is alive (clock shows {:?}); {c:?}",
			c.at,
			c.phase,
			clock.time()
		);
		reads.push(clock.time());
		if reached(*reads.last().unwrap()) {
			tail += 1;
		}
		k += 1;
	}
	ensure!(tail >= 3, "setup", "the clock did not reach {:?} within 80 callbacks; {c:?}", c.at);
	// the clock reaches the time during callback K: first K whose end (= start of K + 1) is at or past it
	let reach = reads.iter().position(|t| reached(*t)).unwrap().saturating_sub(1);
	let Some(s) = first_audible else {
		return Err(Failure::new("scheduled-event-fires-in-the-right-buffer", "scheduled-event-fires-in-the-right-buffer:SoundStart:never", format!("the clock reached {:?} during callback {reach} (handle reads {:?}) but the sound scheduled on it never became audible in {k} callbacks; calls made {:?} of callback 0; {c:?}", c.at, &reads[..reads.len().min(reach + 3)], c.phase)));
	};
	ensure!(s >= reach, "scheduled-event-fires-in-the-right-buffer", "the sound began in callback {s}, the clock only reached {:?} during callback {reach}; {c:?}", c.at);
	// (a sound handed over during callback 0 may arrive with callback 1)
	if s > reach.max(1) {
		return Err(Failure::new("scheduled-event-fires-in-the-right-buffer", "scheduled-event-fires-in-the-right-buffer:SoundStart:late", format!("the clock reached {:?} during callback {reach} but the sound began in callback {s}; calls made {:?} of callback 0; {c:?}", c.at, c.phase)));
	}
	Ok(())
}

// ------------------------------------------------------------------------------------------
// part B: schedules of ClockHandle::time() against the audio thread's publication of the time

const ORDERS: [[u8; 4]; 6] = [
	[clocksched::RT, clocksched::RF, clocksched::WT, clocksched::WF],
	[clocksched::WT, clocksched::WF, clocksched::RT, clocksched::RF],
	[clocksched::RT, clocksched::WT, clocksched::RF, clocksched::WF],
	[clocksched::WT, clocksched::RT, clocksched::WF, clocksched::RF],
	// the two orders in which the reader's loads straddle exactly one of the two stores
	[clocksched::RT, clocksched::WT, clocksched::WF, clocksched::RF],
	[clocksched::WT, clocksched::RT, clocksched::RF, clocksched::WF],
];

#[derive(Debug, Clone)]
struct SchedCase {
	ibs: usize,
	speed_tps: f64,
	/// per step: callback size and the interleaving (index into ORDERS)
	steps: Vec<(usize, usize)>,
}

fn schedule_case(sc: &SchedCase) -> Result<(usize, usize), Failure> {
	streamctl::install();
	let mut mgr = default_manager(48000, sc.ibs);
	let mut clock = mgr.add_clock(ClockSpeed::TicksPerSecond(sc.speed_tps)).map_err(|_| Failure::simple("setup", "clock"))?;
	clock.start();
	// values the clock publishes: (0,0) before the first callback, then one per callback
	let mut published: Vec<(u64, f64)> = vec![(0, 0.0)];
	let mut model = (0u64, 0.0f64);
	let mut started = false;
	let mut last_read: Option<(u64, f64)> = None;
	let mut straddles = 0;
	let mut timeouts = 0;
	let dt = 1.0 / 48000.0;
	for (si, (n, order)) in sc.steps.iter().enumerate() {
		// what this callback will publish: the state at the end of the previous callback
		let will_publish = if started { model } else { (0, 0.0) };
		published.push(will_publish);
		let mut renderer = mgr.backend_mut().renderer.take().expect("renderer");
		clocksched::arm(&ORDERS[*order]);
		let mut out = vec![0.0f32; n * 2];
		let read = std::thread::scope(|s| {
			let w = s.spawn(|| {
				renderer.on_start_processing();
				clocksched::finish(1);
				renderer.process(&mut out, 2);
			});
			let t = clock.time();
			clocksched::finish(0);
			w.join().expect("audio thread panicked");
			(t.ticks, t.fraction)
		});
		if !clocksched::disarm() {
			timeouts += 1;
		}
		mgr.backend_mut().renderer = Some(renderer);
		// advance the model through this callback's chunks
		let mut left = *n;
		while left > 0 {
			let k = left.min(sc.ibs);
			if !started {
				started = true;
				model = (0, 0.0);
			}
			model.1 += sc.speed_tps * dt * k as f64;
			while model.1 >= 1.0 {
				model.1 -= 1.0;
				model.0 += 1;
			}
			left -= k;
		}
		if *order >= 4 {
			straddles += 1;
		}
		// the value read is one the clock published (to rounding), and reads never go backwards
		let near = |a: (u64, f64), b: (u64, f64)| ((a.0 as f64 + a.1) - (b.0 as f64 + b.1)).abs() <= 1e-9 * (1.0 + b.0 as f64) && (a.0 == b.0 || (a.1 - b.1).abs() > 0.5);
		let known = published.iter().any(|p| near(read, *p));
		if !known {
			return Err(Failure::new(
				"time-read-is-a-value-the-clock-had",
				if *order >= 4 { "time-read-is-a-value-the-clock-had:loads-straddle-one-store" } else { "time-read-is-a-value-the-clock-had" },
				format!("step {si}: time() returned {} ticks + {} under interleaving {:?} (0/1 = reader loads ticks/fraction, 2/3 = audio thread stores ticks/fraction); the clock published only {:?}; case {sc:?}", read.0, read.1, ORDERS[*order], &published[published.len().saturating_sub(3)..]),
			));
		}
		if let Some(prev) = last_read {
			let back = (prev.0 as f64 + prev.1) - (read.0 as f64 + read.1);
			if back > 1e-9 {
				return Err(Failure::new(
					"time-never-goes-backwards",
					if *order >= 4 { "time-never-goes-backwards:loads-straddle-one-store" } else { "time-never-goes-backwards" },
					format!("step {si}: time() went from {prev:?} to {read:?} while the clock was running (interleaving {:?}); case {sc:?}", ORDERS[*order]),
				));
			}
		}
		last_read = Some(read);
	}
	Ok((straddles, timeouts))
}

fn gen_speed(src: &mut Src) -> Speed {
	match src.index(3) {
		0 => Speed {
			unit: Unit::Tps,
			v: match src.weighted(&[3, 4, 1]) {
				0 => src.pick(&[1000.0, 100.0, 48000.0, 10.0]),
				1 => src.f64_log(1.0, 5000.0),
				_ => src.f64_log(5000.0, 1e4),
			},
		},
		1 => Speed {
			unit: Unit::Tpm,
			v: src.f64_log(60.0, 3e5),
		},
		_ => Speed {
			unit: Unit::Spt,
			v: src.f64_log(1e-4, 1.0),
		},
	}
}

fn decode(src: &mut Src, ctx: &mut Ctx) -> Case {
	let sample_rate = src.pick(&[48000u32, 44100, 8000, 96000]);
	let ibs = match src.weighted(&[3, 3, 2]) {
		0 => src.pick(&[128usize, 1, 2, 64, 512]),
		1 => src.usize_in(1, 64),
		_ => src.usize_in(1, 512),
	};
	let n_ops = src.usize_in(4, ctx.tier.pick(40, 100));
	let cb_s = ibs as f64 / sample_rate as f64;
	let mut ops = vec![Op::AddClock(gen_speed(src))];
	let mut n_clocks = 1usize;
	let mut speeds = vec![];
	if let Op::AddClock(s) = &ops[0] {
		speeds.push(*s);
	}
	let mut elapsed_cb = 0usize;
	for _ in 0..n_ops {
		let gen_at = |src: &mut Src, speed: Speed, elapsed: usize| -> (u64, f64) {
			// a time somewhere in the next few callbacks at the clock's current speed
			let now = speed.tps() * elapsed as f64 * cb_s;
			let ahead = speed.tps() * cb_s * src.f64_uniform(0.0, 6.0);
			let t = now + ahead;
			match src.weighted(&[2, 2, 1]) {
				0 => (t.ceil() as u64, 0.0),
				1 => (t as u64, t.fract()),
				_ => (t as u64, 0.0),
			}
		};
		let op = match src.weighted(&[12, 1, 5, 2, 2, 4, 1, 4, 3, 3, 1]) {
			0 => {
				elapsed_cb += 1;
				Op::Callback(match src.weighted(&[3, 3, 2, 2]) {
					0 => ibs,
					1 => src.usize_in(1, ibs * 3),
					2 => 1,
					_ => ibs * src.usize_in(1, 3),
				})
			}
			1 => {
				if n_clocks < 4 {
					n_clocks += 1;
					let s = gen_speed(src);
					speeds.push(s);
					Op::AddClock(s)
				} else {
					Op::Callback(ibs)
				}
			}
			2 => Op::Start(src.index(n_clocks)),
			3 => Op::Pause(src.index(n_clocks)),
			4 => Op::Stop(src.index(n_clocks)),
			5 => {
				let i = src.index(n_clocks);
				let s = gen_speed(src);
				let mut start = match src.weighted(&[4, 2, 2]) {
					0 => TStart::Immediate,
					1 => TStart::Delayed(src.f64_uniform(0.0, cb_s * 4.0)),
					_ => {
						let k = src.index(n_clocks);
						let (t, f) = gen_at(src, speeds[k], elapsed_cb);
						TStart::Clock(k, t, f)
					}
				};
				if matches!(start, TStart::Clock(k, ..) if k == i) && ctx.exclude("speed-tween-scheduled-on-the-clocks-own-time") {
					start = TStart::Immediate;
				}
				speeds[i] = s;
				Op::SetSpeed(
					i,
					s,
					start,
					match src.weighted(&[3, 2, 3]) {
						0 => 0.0,
						1 => src.f64_uniform(0.0, cb_s),
						_ => src.f64_uniform(0.0, cb_s * 8.0),
					},
				)
			}
			6 => Op::DropClock(src.index(n_clocks)),
			7 => {
				let i = src.index(n_clocks);
				let (t, f) = gen_at(src, speeds[i], elapsed_cb);
				Op::PlayAt(i, t, f)
			}
			8 => {
				let i = src.index(n_clocks);
				let (t, f) = gen_at(src, speeds[i], elapsed_cb);
				Op::TweenAt(i, t, f)
			}
			9 => {
				let i = src.index(n_clocks);
				ops.push(Op::PlayPaused);
				ops.push(Op::Callback(ibs));
				elapsed_cb += 1;
				let (t, f) = gen_at(src, speeds[i], elapsed_cb);
				Op::ArmResume(i, t, f)
			}
			_ => {
				let i = src.index(n_clocks);
				let (t, f) = gen_at(src, speeds[i], elapsed_cb);
				if ctx.exclude("tweener-modulator-tween-scheduled-on-a-clock-time") {
					Op::TweenAt(i, t, f)
				} else {
					Op::TweenerAt(i, t, f)
				}
			}
		};
		ops.push(op);
	}
	for _ in 0..src.usize_in(2, 5) {
		ops.push(Op::Callback(src.usize_in(1, ibs * 2)));
	}
	// a third of the histories issue some of their calls in the middle of a callback: the run of
	// calls in front of a callback moves between its `on_start_processing` and its `process`
	// (drawn after everything else so that older tapes keep their meaning)
	if src.chance(1, 3) {
		let mut moved = Vec::with_capacity(ops.len() + 8);
		let mut run_start = 0usize; // index in `moved` where the current run of calls begins
		for op in ops {
			match op {
				Op::Callback(n) => {
					let run_len = moved.len() - run_start;
					let movable = run_len > 0 && !moved[run_start..].iter().any(|o| matches!(o, Op::PlayPaused));
					if movable && src.chance(1, 2) {
						// keep a prefix of the run in front of the callback
						let keep = src.usize_in(0, run_len - 1);
						moved.insert(run_start + keep, Op::CallbackBegin);
						moved.push(Op::CallbackEnd(n));
					} else {
						moved.push(Op::Callback(n));
					}
					run_start = moved.len();
				}
				other => moved.push(other),
			}
		}
		ops = moved;
	}
	Case { ibs, sample_rate, ops }
}

impl Property for C05 {
	fn id(&self) -> &'static str {
		"C05"
	}
	fn rule(&self) -> &'static str {
		"part A - each case runs up to four real clocks through the renderer (internal buffer 1..512, callbacks of arbitrary sizes, four device rates): speeds in all three units, fixed or tweened (immediate / delayed / scheduled on another clock), start / pause / stop / drop histories, and events scheduled for clock times with whole and fractional ticks: a DC sound start, a parameter tween start seen through a probe effect, and a resume_at. A clock model integrates speed x elapsed audio time per internal buffer; after every callback ClockHandle::time() / ticking() must equal the model's value as of the end of the previous callback (1e-9 relative), stop() must show zero at once, and every scheduled event must begin in exactly the internal buffer during which the model clock reaches the time while ticking (never late, never while paused or short of the time), or be cancelled (sound Stopped) when the clock is gone. A third of the histories issue runs of their calls between the two halves of a callback (after Renderer::on_start_processing, before Renderer::process), where a second thread's calls can land: the model treats them as picked up by the next callback. Part C rides on every other history: a clock is created and started and a sound scheduled on it (0.2 .. 3 ticks ahead), all at one of six moments of a callback - before it, from on_start_processing of a custom sound on a sub-track (after the mixer's sub-track ring, before the main track's sound ring and the clock ring are drained) or on the main track, between the halves, or from process of such a sound - with the sound on the main track, the agent's track or another track; the sound must never report Stopped while the clock's handle is alive and must begin in the callback during which the clock, as read back from its handle, reaches the time (not earlier; not later than that callback or the one after the hand-over). Non-trivial = an event fires in an internal buffer that is not the first of its callback; distinct = distinct decoded choices. Part B (schedules) is reported under counters."
	}
	fn assumptions(&self) -> Vec<String> {
		vec![
			"the handle shows the clock as of the start of the current callback (that is when the audio thread publishes it); the comparison accounts for that".into(),
			"a speed tween scheduled on the clock's own time is a known finding (it never starts) and is excluded by construction from the random histories; its witness is replayed on every run".into(),
			"speed tweens are linear".into(),
		]
	}
	fn tape_len(&self, _tier: Tier) -> usize {
		500
	}
	fn cases(&self, tier: Tier) -> u64 {
		tier.pick(400_000, 3_000_000)
	}

	fn run(&self, tape: &[u32], ctx: &mut Ctx) -> CaseResult {
		let mut src = Src::new(tape);
		if src.below(8) == 7 {
			// part B: a schedule case
			let ibs = src.pick(&[128usize, 16, 1, 64]);
			let speed_tps = src.pick(&[1000.0, 375.0, 48000.0, 10.0, 2999.0]);
			let n_steps = src.usize_in(1, 12);
			let mut steps = vec![];
			for _ in 0..n_steps {
				let n = src.pick(&[ibs, 1, ibs * 2, ibs + 1]);
				let mut order = src.index(6);
				if order >= 4 && ctx.exclude("time()-loads-straddle-exactly-one-store") {
					order -= 4;
				}
				steps.push((n, order));
			}
			let sc = SchedCase { ibs, speed_tps, steps };
			ctx.describe(|| format!("{sc:?}"));
			let (straddles, timeouts) = schedule_case(&sc)?;
			ctx.count("schedule-cases", 1);
			ctx.count("schedule-steps", sc.steps.len() as u64);
			if timeouts > 0 {
				ctx.count("schedule-timeouts", timeouts as u64);
			}
			let interleaved = sc.steps.iter().any(|(_, o)| *o >= 2);
			return Ok(CaseInfo::new(&src, interleaved, if straddles > 0 { vec!["schedule", "schedule-straddling"] } else { vec!["schedule"] }));
		}
		let case = decode(&mut src, ctx);
		ctx.describe(|| format!("{case:?}"));
		let o = run_case(&case, ctx)?;
		let mut classes = vec![];
		// part C rides on every other history (drawn last: older tapes keep their meaning)
		if src.chance(1, 2) {
			let per_buffer = src.f64_uniform(0.1, 1.5);
			let t = src.f64_uniform(0.2, 3.0);
			let h = HandOff {
				sample_rate: case.sample_rate,
				ibs: case.ibs,
				phase: PHASES[src.index(PHASES.len())],
				target: TARGETS[src.index(TARGETS.len())],
				other_first: src.bool(),
				per_buffer,
				at: if src.bool() { (t.ceil() as u64, 0.0) } else { (t as u64, t.fract()) },
			};
			ctx.describe(|| format!("{case:?}; then {h:?}"));
			hand_off(&h)?;
			if h.phase != Phase::Before {
				classes.push("clock-and-sound-handed-over-inside-a-callback");
			}
		}
		if o.event_mid_callback {
			classes.push("event-fires-mid-callback");
		}
		if o.events > 0 {
			classes.push("scheduled-events");
		}
		if o.own_clock_tween {
			classes.push("own-clock-speed-tween");
		}
		if o.mid_callback_ops {
			classes.push("calls-between-the-halves-of-a-callback");
		}
		if case.ops.iter().any(|o| matches!(o, Op::SetSpeed(_, _, _, d) if *d > 0.0)) {
			classes.push("speed-tween");
		}
		Ok(CaseInfo::new(&src, o.event_mid_callback, classes))
	}
}
