//! C06 - tweens start on time, follow their easing, end exactly on target, never jump.

use crate::engine::{CaseInfo, CaseResult, Ctx, Failure, Property, Src, Tier};
use crate::ensure;
use crate::scene::gen::gen_easing;
use glam::{Quat, Vec3};
use kira::clock::{ClockSpeed, ClockTime};
use kira::info::MockInfoBuilder;
use kira::modulator::tweener::TweenerBuilder;
use kira::modulator::ModulatorBuilder;
use kira::{Decibels, Easing, Mapping, Mix, Panning, Parameter, PlaybackRate, StartTime, Tween, Tweenable, Value};
use std::fmt::Debug;
use std::time::Duration;

pub struct C06;

#[derive(Debug, Clone, Copy, PartialEq)]
enum Ty {
	F64,
	F32,
	Decibels,
	Panning,
	Rate,
	Mix,
	Speed,
	Duration,
	Vec3,
	Quat,
	/// the tweener modulator (same history through TweenerBuilder)
	Tweener,
}

#[derive(Debug, Clone, Copy, PartialEq)]
enum Start {
	Immediate,
	Delayed(f64),
	/// clock time in ticks (the mock clock runs at `clock_speed` ticks per second from t = 0)
	Clock(f64),
}

#[derive(Debug, Clone)]
enum Step {
	Set { target: Vec<f64>, variant: usize, start: Start, dur: f64, easing: Easing },
	Update(f64),
}

#[derive(Debug, Clone)]
struct Case {
	ty: Ty,
	init: Vec<f64>,
	init_variant: usize,
	clock_speed: f64,
	steps: Vec<Step>,
	/// from this step on the clock no longer exists (plain parameters only): a tween still waiting
	/// for a time on it never starts
	clock_gone_at: Option<usize>,
}

/// `Easing::apply` through a mapping (see C19)
fn ease(e: Easing, x: f64) -> f64 {
	Mapping {
		input_range: (0.0, 1.0),
		output_range: (0.0f64, 1.0f64),
		easing: e,
	}
	.map(x)
}

/// independent easing curves (documentation of `Easing`): power curves in / out / in-out
fn ease_ref(e: Easing, x: f64) -> f64 {
	let x = x.clamp(0.0, 1.0);
	let inp = |x: f64, p: f64| x.powf(p);
	match e {
		Easing::Linear => x,
		Easing::InPowi(p) => inp(x, p as f64),
		Easing::InPowf(p) => inp(x, p),
		Easing::OutPowi(p) => 1.0 - inp(1.0 - x, p as f64),
		Easing::OutPowf(p) => 1.0 - inp(1.0 - x, p),
		Easing::InOutPowi(p) => {
			if x < 0.5 {
				0.5 * inp(2.0 * x, p as f64)
			} else {
				1.0 - 0.5 * inp(2.0 - 2.0 * x, p as f64)
			}
		}
		Easing::InOutPowf(p) => {
			if x < 0.5 {
				0.5 * inp(2.0 * x, p)
			} else {
				1.0 - 0.5 * inp(2.0 - 2.0 * x, p)
			}
		}
	}
}

// --------------------------------------------------------------------------------------------
// a uniform view on every tweenable type: components as f64

trait Codec {
	type T: Tweenable + Debug;
	fn make(x: &[f64], variant: usize) -> Self::T;
	/// components of `v`, expressed in the representation of `like` (matters for ClockSpeed)
	fn read(v: Self::T, like: &Self::T) -> Vec<f64>;
	fn rel_tol() -> f64;
}

macro_rules! scalar_codec {
	($name:ident, $t:ty, $make:expr, $read:expr, $tol:expr) => {
		struct $name;
		impl Codec for $name {
			type T = $t;
			fn make(x: &[f64], _variant: usize) -> $t {
				($make)(x[0])
			}
			fn read(v: $t, _like: &$t) -> Vec<f64> {
				vec![($read)(v)]
			}
			fn rel_tol() -> f64 {
				$tol
			}
		}
	};
}

scalar_codec!(CF64, f64, |x: f64| x, |v: f64| v, 1e-12);
scalar_codec!(CF32, f32, |x: f64| x as f32, |v: f32| v as f64, 2e-6);
scalar_codec!(CDb, Decibels, |x: f64| Decibels(x as f32), |v: Decibels| v.0 as f64, 2e-6);
scalar_codec!(CPan, Panning, |x: f64| Panning(x as f32), |v: Panning| v.0 as f64, 2e-6);
scalar_codec!(CRate, PlaybackRate, |x: f64| PlaybackRate(x), |v: PlaybackRate| v.0, 1e-12);
scalar_codec!(CMix, Mix, |x: f64| Mix(x as f32), |v: Mix| v.0 as f64, 2e-6);
scalar_codec!(CDur, Duration, |x: f64| Duration::from_secs_f64(x.abs()), |v: Duration| v.as_secs_f64(), 1e-9);

struct CSpeed;
impl Codec for CSpeed {
	type T = ClockSpeed;
	fn make(x: &[f64], variant: usize) -> ClockSpeed {
		let v = x[0].abs() + 0.01;
		match variant % 3 {
			0 => ClockSpeed::TicksPerSecond(v),
			1 => ClockSpeed::TicksPerMinute(v),
			_ => ClockSpeed::SecondsPerTick(v),
		}
	}
	fn read(v: ClockSpeed, like: &ClockSpeed) -> Vec<f64> {
		vec![match like {
			ClockSpeed::TicksPerSecond(_) => v.as_ticks_per_second(),
			ClockSpeed::TicksPerMinute(_) => v.as_ticks_per_minute(),
			ClockSpeed::SecondsPerTick(_) => v.as_seconds_per_tick(),
		}]
	}
	fn rel_tol() -> f64 {
		1e-11
	}
}

struct CVec3;
impl Codec for CVec3 {
	type T = Vec3;
	fn make(x: &[f64], _variant: usize) -> Vec3 {
		Vec3::new(x[0] as f32, x[1] as f32, x[2] as f32)
	}
	fn read(v: Vec3, _like: &Vec3) -> Vec<f64> {
		vec![v.x as f64, v.y as f64, v.z as f64]
	}
	fn rel_tol() -> f64 {
		2e-6
	}
}

// --------------------------------------------------------------------------------------------

/// the tween currently governing the parameter, as the oracle sees it
#[derive(Debug, Clone)]
struct Active {
	/// value when the tween was set (in the representation of the target), read from the parameter
	from: Vec<f64>,
	to: Vec<f64>,
	dur: f64,
	easing: Easing,
	/// ideal start time (seconds since the beginning of the history)
	t_ideal: f64,
	/// slack of the implementation's start relative to the ideal: it starts within
	/// [t_ideal - early, t_ideal + late]
	early: f64,
	late: f64,
	/// known once the update that crosses the start has been seen
	start_known: bool,
	kind: Start,
	t_set: f64,
}

const TIME_SLACK: f64 = 2e-7;

/// Pins down when the tween starts counting, as the property allows it:
/// * delayed: with the update after the one in which the delay ran out (at most one update late);
/// * clock: with the update during which the clock reaches the time, counted whole (at most one
///   update early, never late).
/// Once known, `t_ideal` holds that instant and the hull collapses to a point.
fn locate_start(a: &mut Active, t_prev: f64, t: f64, clock_speed: f64, clock_gone: bool) {
	if a.start_known {
		return;
	}
	if clock_gone && matches!(a.kind, Start::Clock(_)) {
		return;
	}
	match a.kind {
		Start::Immediate => a.start_known = true,
		Start::Delayed(_) => {
			if a.late > 0.0 {
				// the previous update ended within rounding of the delay: the start is either
				// that update's end or this one's
				a.late = t - a.t_ideal;
				a.start_known = true;
			} else if (t - a.t_ideal).abs() < TIME_SLACK {
				a.t_ideal = t;
				a.late = f64::MIN_POSITIVE; // decided at the next update
			} else if t > a.t_ideal {
				a.t_ideal = t;
				a.start_known = true;
			}
		}
		Start::Clock(ticks) => {
			let now = clock_speed * t;
			let reached = (now as u64, now.fract()) >= (ticks as u64, ticks.fract());
			if reached {
				// never late: the clock must have been short of the time one update earlier
				// (or the tween was set during that update)
				a.t_ideal = t_prev.max(a.t_set);
				a.start_known = true;
			}
		}
	}
}

fn hull(a: &Active, t: f64) -> Option<(f64, f64)> {
	hull3(a, t).map(|(lo, hi, _)| (lo, hi))
}

/// (eased fraction at the early end of the timing window, at the late end, end clearly passed)
fn hull3(a: &Active, t: f64) -> Option<(f64, f64, bool)> {
	// elapsed time of the implementation lies in [lo, hi]
	if !a.start_known && a.late == 0.0 {
		// the start has not been reached yet
		return None;
	}
	let exact = a.start_known && a.late == 0.0 && a.early == 0.0;
	let slack = if exact { 0.0 } else { TIME_SLACK };
	// (the implementation adds its elapsed time up update by update, the reference subtracts two
	// running sums: the two differ by a few ulps, and an easing like OutPowf(0.1), which is vertical
	// at its end, turns one ulp of time into 3 % of the span - so the window is never narrower than
	// the rounding of the sums)
	let rounding = 64.0 * f64::EPSILON * t.abs().max(a.dur).max(a.t_ideal.abs());
	let lo = t - (a.t_ideal + a.late) - slack - rounding;
	let hi = t - (a.t_ideal - a.early) + slack + rounding;
	if hi < 0.0 {
		return None;
	}
	// a zero-duration tween is at its target as soon as any time has elapsed since its start
	let f = |e: f64| {
		if a.dur <= 0.0 {
			if e > 0.0 {
				1.0
			} else {
				0.0
			}
		} else {
			ease_ref(a.easing, (e / a.dur).clamp(0.0, 1.0))
		}
	};
	// the implementation accumulates elapsed time update by update: allow rounding
	let ended = lo - a.dur >= 1e-9 * t.max(1.0) && lo > 0.0;
	Some((f(lo.max(0.0)), f(hi.max(0.0)), ended))
}

fn run_typed<C: Codec>(c: &Case) -> Result<(bool, bool, bool), Failure> {
	let init = C::make(&c.init, c.init_variant);
	let mut p: Parameter<C::T> = Parameter::new(Value::Fixed(init), init);
	let mut t = 0.0f64;
	let mut active: Option<Active> = None;
	let mut retargeted = false;
	let mut short_tween = false;
	let mut nonlinear = false;
	let mut held: Option<(C::T, Vec<f64>)> = None; // value that must be held (before start / after end)
	let mut mb0 = MockInfoBuilder::new();
	let clock_id = mb0.add_clock(true, 0, 0.0);
	drop(mb0);
	let tol = C::rel_tol();
	for (si, step) in c.steps.iter().enumerate() {
		match step {
			Step::Set { target, variant, start, dur, easing } => {
				let target_v = C::make(target, *variant);
				let cur = p.value();
				let from = C::read(cur, &target_v);
				let to = C::read(target_v, &target_v);
				if active.as_ref().map(|a| hull(a, t).map(|(_, hi)| hi < 1.0).unwrap_or(true)).unwrap_or(false) {
					retargeted = true;
				}
				if !matches!(easing, Easing::Linear) {
					nonlinear = true;
				}
				let dur_q = Duration::from_secs_f64(*dur).as_secs_f64();
				let (kind, t_ideal) = match start {
					Start::Immediate => (Start::Immediate, t),
					Start::Delayed(d) => {
						let d = Duration::from_secs_f64(*d).as_secs_f64();
						if d == 0.0 {
							(Start::Immediate, t)
						} else {
							(Start::Delayed(d), t + d)
						}
					}
					Start::Clock(ticks) => (Start::Clock(*ticks), (ticks / c.clock_speed).max(t)),
				};
				let start_time = match start {
					Start::Immediate => StartTime::Immediate,
					Start::Delayed(d) => StartTime::Delayed(Duration::from_secs_f64(*d)),
					Start::Clock(ticks) => StartTime::ClockTime(ClockTime::from_ticks_f64(clock_id, *ticks)),
				};
				p.set(
					Value::Fixed(target_v),
					Tween {
						start_time,
						duration: Duration::from_secs_f64(*dur),
						easing: *easing,
					},
				);
				active = Some(Active {
					from: from.clone(),
					to,
					dur: dur_q,
					easing: *easing,
					t_ideal,
					early: 0.0,
					late: 0.0,
					start_known: matches!(kind, Start::Immediate),
					kind,
					t_set: t,
				});
				held = Some((cur, from));
			}
			Step::Update(dt) => {
				let t_prev = t;
				t += dt;
				// the mock clock shows the time at the end of the update (clocks are advanced
				// before parameters in every chunk)
				let ticks_now = c.clock_speed * t;
				let clock_gone = c.clock_gone_at.map(|g| si >= g).unwrap_or(false);
				let mut mb = MockInfoBuilder::new();
				if !clock_gone {
					let id = mb.add_clock(true, ticks_now as u64, ticks_now.fract());
					debug_assert_eq!(id, clock_id);
				}
				let info = mb.build();
				let before = p.value();
				p.update(*dt, &info);
				let prev = p.previous_value();
				let now = p.value();
				// continuity: each update interpolates from the previous update's final value
				{
					let like = now;
					let (a, b) = (C::read(prev, &like), C::read(before, &like));
					ensure!(a == b, "continuity", "step {si}: previous_value() = {prev:?} but the value before the update was {before:?}; case {c:?}");
					let i0 = C::read(p.interpolated_value(0.0), &like);
					let i1 = C::read(p.interpolated_value(1.0), &like);
					let n = C::read(now, &like);
					for k in 0..n.len() {
						let scale = a[k].abs().max(n[k].abs()).max(1e-30);
						ensure!((i0[k] - a[k]).abs() <= 4.0 * tol * scale, "continuity", "step {si}: interpolated_value(0) = {:?}, previous_value() = {prev:?}; case {c:?}", p.interpolated_value(0.0));
						ensure!((i1[k] - n[k]).abs() <= 4.0 * tol * scale, "continuity", "step {si}: interpolated_value(1) = {:?}, value() = {now:?}; case {c:?}", p.interpolated_value(1.0));
					}
				}
				let Some(a) = active.as_mut() else {
					// no tween was ever set: the value never moves
					ensure!(C::read(now, &now) == C::read(before, &now), "holds-value", "step {si}: value changed from {before:?} to {now:?} without a tween; case {c:?}");
					continue;
				};
				locate_start(a, t_prev, t, c.clock_speed, clock_gone);
				// A tween that had already started on the clock when the clock disappeared: kira asks the
				// clock again at every update, so such a tween stands still from then on (as it does while
				// its clock is paused; C05's reference models the same for clock-speed tweens). The
				// property does not say what "elapsed" means once the clock is gone: no claim here.
				if clock_gone && matches!(a.kind, Start::Clock(_)) && a.start_known {
					continue;
				}
				if a.dur > 0.0 && a.dur < *dt {
					short_tween = true;
				}
				let like = C::make(&a.to, match &c.steps[..=si].iter().rev().find_map(|s| if let Step::Set { variant, .. } = s { Some(*variant) } else { None }) {
					Some(v) => *v,
					None => 0,
				});
				let got = C::read(now, &like);
				match hull(a, t) {
					None => {
						// not started yet: the value at set() time is held exactly
						let (hv, hcomp) = held.as_ref().unwrap();
						ensure!(got == *hcomp, "holds-until-start", "step {si} (t={t}): value {now:?} but the tween (start {:?}, ideal start {}) has not started; expected the held value {hv:?}; case {c:?}", a.kind, a.t_ideal);
					}
					Some((f_lo, f_hi)) => {
						let ended = hull3(a, t).map(|x| x.2).unwrap_or(false);
						for k in 0..got.len() {
							let (s, g) = (a.from[k], a.to[k]);
							let v_lo = s + (g - s) * f_lo;
							let v_hi = s + (g - s) * f_hi;
							let (lo, hi) = (v_lo.min(v_hi), v_lo.max(v_hi));
							let scale = s.abs().max(g.abs()).max(1e-30);
							let slack = 8.0 * tol * scale + 1e-9 * (g - s).abs() + 2e-9;
							ensure!(
								got[k] >= lo - slack && got[k] <= hi + slack,
								"follows-easing",
								"step {si} (t={t}): component {k} = {} outside [{lo}, {hi}] (tween {s} -> {g}, dur {}, {:?}, ideal start {}, slack -{}/+{}); case {c:?}",
								got[k],
								a.dur,
								a.easing,
								a.t_ideal,
								a.early,
								a.late
							);
							// never outside the interval between start and target
							ensure!(got[k] >= s.min(g) - slack && got[k] <= s.max(g) + slack, "stays-between-start-and-target", "step {si}: component {k} = {} outside [{}, {}]; case {c:?}", got[k], s.min(g), s.max(g));
						}
						if ended {
							// the whole timing window is past the end: exactly the target
							ensure!(got == a.to, "ends-exactly-on-target", "step {si} (t={t}): value {now:?} but the tween ended (dur {}, ideal start {}); expected exactly {:?}; case {c:?}", a.dur, a.t_ideal, a.to);
						}
					}
				}
			}
		}
	}
	Ok((retargeted, short_tween, nonlinear))
}

fn run_quat(c: &Case) -> Result<(bool, bool, bool), Failure> {
	let mk = |x: &[f64]| {
		let q = Quat::from_xyzw(x[0] as f32, x[1] as f32, x[2] as f32, x[3] as f32);
		if q.length_squared() > 1e-6 {
			q.normalize()
		} else {
			Quat::IDENTITY
		}
	};
	let init = mk(&c.init);
	let mut p: Parameter<Quat> = Parameter::new(Value::Fixed(init), init);
	let info = MockInfoBuilder::new().build();
	let mut cur: Option<(Quat, Quat, f64, f64, Easing)> = None; // from, to, t_set, dur, easing
	let mut t = 0.0;
	let mut retargeted = false;
	for (si, step) in c.steps.iter().enumerate() {
		match step {
			Step::Set { target, dur, easing, .. } => {
				let to = mk(target);
				if cur.as_ref().map(|(_, _, ts, d, _)| t < ts + d).unwrap_or(false) {
					retargeted = true;
				}
				cur = Some((p.value(), to, t, Duration::from_secs_f64(*dur).as_secs_f64(), *easing));
				p.set(
					Value::Fixed(to),
					Tween {
						start_time: StartTime::Immediate,
						duration: Duration::from_secs_f64(*dur),
						easing: *easing,
					},
				);
			}
			Step::Update(dt) => {
				t += dt;
				p.update(*dt, &info);
				let q = p.value();
				ensure!((q.length() - 1.0).abs() < 1e-4, "quat-unit-norm", "step {si}: |q| = {}; case {c:?}", q.length());
				if let Some((from, to, ts, d, e)) = &cur {
					let el = t - ts;
					if el >= *d {
						ensure!(q == *to, "ends-exactly-on-target", "step {si}: orientation {q:?} after the tween ended, expected {to:?}; case {c:?}");
					} else {
						let total = from.angle_between(*to) as f64;
						let done = from.angle_between(q) as f64;
						let want = total.min(2.0 * std::f64::consts::PI - total) * ease_ref(*e, el / d);
						let total_short = total.min(2.0 * std::f64::consts::PI - total);
						ensure!((done.min(2.0 * std::f64::consts::PI - done) - want).abs() <= 2e-3 * total_short.max(1.0) + 2e-3, "follows-easing", "step {si}: rotated {done} rad of {total} rad, expected {want}; case {c:?}");
					}
				}
			}
		}
	}
	Ok((retargeted, false, false))
}

fn run_tweener(c: &Case) -> Result<(bool, bool, bool), Failure> {
	// the modulator id is only needed by the handle
	let mut mb0 = MockInfoBuilder::new();
	let mid = mb0.add_modulator(0.0);
	let clock_id = mb0.add_clock(true, 0, 0.0);
	drop(mb0);
	let (mut m, mut h) = TweenerBuilder { initial_value: c.init[0] }.build(mid);
	let mut t = 0.0f64;
	let mut active: Option<Active> = None;
	let mut held = c.init[0];
	let mut retargeted = false;
	let mut short_tween = false;
	let mut nonlinear = false;
	for (si, step) in c.steps.iter().enumerate() {
		match step {
			Step::Set { target, start, dur, easing, .. } => {
				let start_time = match start {
					Start::Immediate => StartTime::Immediate,
					Start::Delayed(d) => StartTime::Delayed(Duration::from_secs_f64(*d)),
					Start::Clock(ticks) => StartTime::ClockTime(ClockTime::from_ticks_f64(clock_id, *ticks)),
				};
				h.set(
					target[0],
					Tween {
						start_time,
						duration: Duration::from_secs_f64(*dur),
						easing: *easing,
					},
				);
				// the command is picked up at the start of the next callback
				m.on_start_processing();
				if active.as_ref().map(|a| hull(a, t).map(|(_, hi)| hi < 1.0).unwrap_or(true)).unwrap_or(false) {
					retargeted = true;
				}
				if !matches!(easing, Easing::Linear) {
					nonlinear = true;
				}
				let (kind, t_ideal) = match start {
					Start::Immediate => (Start::Immediate, t),
					Start::Delayed(d) => {
						let d = Duration::from_secs_f64(*d).as_secs_f64();
						if d == 0.0 {
							(Start::Immediate, t)
						} else {
							(Start::Delayed(d), t + d)
						}
					}
					Start::Clock(ticks) => (Start::Clock(*ticks), (ticks / c.clock_speed).max(t)),
				};
				held = m.value();
				active = Some(Active {
					from: vec![held],
					to: vec![target[0]],
					dur: Duration::from_secs_f64(*dur).as_secs_f64(),
					easing: *easing,
					t_ideal,
					early: 0.0,
					late: 0.0,
					start_known: matches!(kind, Start::Immediate),
					kind,
					t_set: t,
				});
			}
			Step::Update(dt) => {
				let t_prev = t;
				t += dt;
				let ticks_now = c.clock_speed * t;
				let mut mb = MockInfoBuilder::new();
				mb.add_modulator(0.0);
				mb.add_clock(true, ticks_now as u64, ticks_now.fract());
				let info = mb.build();
				m.update(*dt, &info);
				let got = m.value();
				let Some(a) = active.as_mut() else {
					ensure!(got == c.init[0], "holds-value", "step {si}: tweener value {got} changed without a tween; case {c:?}");
					continue;
				};
				locate_start(a, t_prev, t, c.clock_speed, false);
				if a.dur > 0.0 && a.dur < *dt {
					short_tween = true;
				}
				match hull(a, t) {
					None => ensure!(got == held, "holds-until-start", "step {si} (t={t}): tweener value {got}, expected the held value {held}; case {c:?}"),
					Some((f_lo, f_hi)) => {
						let (s, g) = (a.from[0], a.to[0]);
						let (v_lo, v_hi) = (s + (g - s) * f_lo, s + (g - s) * f_hi);
						let slack = 1e-11 * s.abs().max(g.abs()).max(1e-30) + 1e-9 * (g - s).abs();
						ensure!(got >= v_lo.min(v_hi) - slack && got <= v_lo.max(v_hi) + slack, "follows-easing", "step {si} (t={t}): tweener value {got} outside [{}, {}] (tween {s} -> {g}, dur {}, {:?}, ideal start {}); case {c:?}", v_lo.min(v_hi), v_lo.max(v_hi), a.dur, a.easing, a.t_ideal);
						if hull3(a, t).map(|x| x.2).unwrap_or(false) {
							ensure!(got == g, "ends-exactly-on-target", "step {si} (t={t}): tweener value {got} after the tween ended, expected exactly {g}; case {c:?}");
						}
					}
				}
			}
		}
	}
	Ok((retargeted, short_tween, nonlinear))
}


// --------------------------------------------------------------------------------------------
// part B: a tween on a volume of a live signal path, through the manager

#[derive(Debug, Clone, Copy, PartialEq)]
enum BTarget {
	Main,
	Track,
	Sound,
	Effect,
}

#[derive(Debug, Clone)]
struct BCase {
	target: BTarget,
	rate: u32,
	buf: usize,
	from_db: f32,
	to_db: f32,
	dur_frames: usize,
	delay_frames: usize,
	easing: Easing,
	pre: Vec<usize>,
	partition: Vec<usize>,
	/// target Track only: the track has no effect, no child and no sound while the tween is issued;
	/// the sound is played this many frames later (0 = the sound is there from the start)
	late: usize,
}

fn decode_b(src: &mut Src) -> BCase {
	let db = |src: &mut Src| -(src.below(161) as f32) * 0.25;
	BCase {
		target: src.pick(&[BTarget::Main, BTarget::Track, BTarget::Sound, BTarget::Effect]),
		rate: src.pick(&[8192u32, 48000, 44100, 22050]),
		buf: src.pick(&[16usize, 1, 7, 128, 64]),
		from_db: db(src),
		to_db: db(src),
		dur_frames: src.pick(&[300usize, 0, 1, 5, 40, 1000, 2500]) + src.below(7) as usize,
		delay_frames: if src.chance(1, 3) { src.pick(&[1usize, 10, 100, 333]) } else { 0 },
		easing: gen_easing(src),
		pre: (0..src.usize_in(0, 2)).map(|_| src.pick(&[64usize, 1, 10])).collect(),
		partition: (0..src.usize_in(1, 4)).map(|_| src.pick(&[64usize, 1, 7, 100, 23, 256])).collect(),
		late: if src.chance(1, 2) { src.pick(&[200usize, 1, 17, 64, 1500, 4000]) } else { 0 },
	}
}

fn run_manager(c: &BCase) -> Result<(bool, bool, bool), Failure> {
	use crate::models::param::db_to_amp;
	use crate::probes::default_manager;
	use kira::effect::volume_control::VolumeControlBuilder;
	use kira::sound::static_sound::{StaticSoundData, StaticSoundSettings};
	use kira::track::TrackBuilder;
	use kira::Frame;
	let mut mgr = default_manager(c.rate, c.buf);
	let init = |t: BTarget| Decibels(if t == c.target { c.from_db } else { 0.0 });
	if c.target == BTarget::Main {
		mgr.main_track().set_volume(init(BTarget::Main), Tween { duration: Duration::ZERO, ..Default::default() });
	}
	let late = if c.target == BTarget::Track { c.late } else { 0 };
	let mut tb = TrackBuilder::new().volume(init(BTarget::Track));
	let mut effect = if late == 0 { Some(tb.add_effect(VolumeControlBuilder::new(init(BTarget::Effect)))) } else { None };
	let mut track = mgr.add_sub_track(tb).map_err(|_| Failure::simple("setup", "track"))?;
	let data = StaticSoundData {
		sample_rate: c.rate,
		frames: (0..64).map(|_| Frame::from_mono(1.0)).collect::<Vec<_>>().into(),
		settings: StaticSoundSettings::new().loop_region(..).volume(init(BTarget::Sound)),
		slice: None,
	};
	let mut sound = if late == 0 { Some(track.play(data.clone()).map_err(|_| Failure::simple("setup", "play"))?) } else { None };
	// settle (the sound's first frames pass through its resampler)
	mgr.backend_mut().callback(32, 2);
	let a_from = db_to_amp(c.from_db as f64);
	let a_to = db_to_amp(c.to_db as f64);
	let tol = |x: f64| 3e-5 * x.max(1e-3);
	for n in &c.pre {
		let cb = mgr.backend_mut().callback(*n, 2);
		for i in 0..*n {
			if late > 0 {
				break;
			}
			let (l, _) = cb.frame(i, 2);
			ensure!((l as f64 - a_from).abs() <= tol(a_from), "holds-start-value-before-the-tween", "before any command the output is {l}, the start volume {} dB is {a_from}; case {c:?}", c.from_db);
		}
	}
	let dt = 1.0 / c.rate as f64;
	let tween = Tween {
		start_time: if c.delay_frames > 0 { StartTime::Delayed(Duration::from_secs_f64(c.delay_frames as f64 * dt)) } else { StartTime::Immediate },
		duration: Duration::from_secs_f64(c.dur_frames as f64 * dt),
		easing: c.easing,
	};
	let delay = match tween.start_time {
		StartTime::Delayed(d) => d.as_secs_f64(),
		_ => 0.0,
	};
	let dur = tween.duration.as_secs_f64();
	match c.target {
		BTarget::Main => mgr.main_track().set_volume(Decibels(c.to_db), tween),
		BTarget::Track => track.set_volume(Decibels(c.to_db), tween),
		BTarget::Sound => sound.as_mut().unwrap().set_volume(Decibels(c.to_db), tween),
		BTarget::Effect => effect.as_mut().unwrap().set_volume(Decibels(c.to_db), tween),
	}
	let curve = |t: f64| -> f64 {
		// decibel value t seconds after the tween's start
		if t <= 0.0 {
			c.from_db as f64
		} else if t >= dur {
			c.to_db as f64
		} else {
			c.from_db as f64 + (c.to_db as f64 - c.from_db as f64) * ease_ref(c.easing, t / dur)
		}
	};
	let total = (c.delay_frames + c.dur_frames + 2 * c.buf + 64).max(if late > 0 { late + 256 + 2 * c.buf } else { 0 });
	let mut done = 0usize; // frames since the start of the callback that picked the command up
	let mut k = 0;
	let mut short = false;
	// frames before this one are not judged (the late sound is not there yet / still passing through
	// its resampler)
	let mut judge_from = 0usize;
	while done < total {
		let n = c.partition[k % c.partition.len()];
		k += 1;
		if late > 0 && sound.is_none() {
			if done >= late {
				sound = Some(track.play(data.clone()).map_err(|_| Failure::simple("setup", "play"))?);
				judge_from = done + 32;
			} else {
				judge_from = usize::MAX;
			}
		}
		let cb = mgr.backend_mut().callback(n, 2);
		if let Some(p) = &cb.guard.panic {
			return Err(Failure::panic("", p));
		}
		let mut i = 0;
		while i < n {
			let len = c.buf.min(n - i);
			short |= dur > 0.0 && dur < len as f64 * dt;
			for j in 0..len {
				if done + i + j < judge_from {
					continue;
				}
				let (l, r) = cb.frame(i + j, 2);
				let (lo, hi) = (a_from.min(a_to), a_from.max(a_to));
				ensure!(l == r && l as f64 >= lo - tol(lo) && l as f64 <= hi + tol(hi), "never-outside-start-and-target", "frame {} after the command: output ({l}, {r}) is outside [{lo}, {hi}] (tween {} dB -> {} dB); case {c:?}", done + i + j, c.from_db, c.to_db);
			}
			// at the end of each internal buffer the value is on the curve, for the audio time that has
			// passed since the command was picked up (delayed starts may lag by one buffer)
			let t_end = (done + i + len) as f64 * dt;
			let (l, _) = cb.frame(i + len - 1, 2);
			let lag = if c.delay_frames > 0 { c.buf as f64 * dt } else { 0.0 };
			// (the duration is rounded to nanoseconds: grant that much on the time axis)
			let (d1, d2) = (curve(t_end - delay + 2.0 * TIME_SLACK), curve(t_end - delay - lag - 2.0 * TIME_SLACK));
			let (a1, a2) = (db_to_amp(d1), db_to_amp(d2));
			let (lo, hi) = (a1.min(a2), a1.max(a2));
			let slack = tol(hi);
			if done + i + len - 1 >= judge_from && !((l as f64) >= lo - slack && (l as f64) <= hi + slack) {
				let sig = if t_end - delay - lag >= dur + 2.0 * TIME_SLACK { "ends-exactly-on-target-after-the-duration" } else { "follows-the-curve-in-audio-time" };
				return Err(Failure::new(sig, sig, format!("{:.9} s of audio after the command was picked up (frame {}), tween {} dB -> {} dB over {dur} s delayed {delay} s: output {l}, the curve gives [{lo}, {hi}]; case {c:?}", t_end, done + i + len, c.from_db, c.to_db)));
			}
			i += len;
		}
		done += n;
	}
	Ok((false, short, c.easing != Easing::Linear))
}

// --------------------------------------------------------------------------------------------
// part C: very many very small updates (device rates up to 192 kHz with an internal buffer of one
// frame): the tween still takes its duration in audio time

#[derive(Debug, Clone)]
struct LCase {
	rate: u32,
	updates: usize,
	from: f64,
	to: f64,
	/// tween duration as a fraction of the run
	frac: f64,
	easing: Easing,
}

fn decode_long(src: &mut Src) -> LCase {
	LCase {
		rate: src.pick(&[192000u32, 48000, 96000, 44100]),
		updates: src.pick(&[60_000usize, 20_000, 150_000]),
		from: src.f64_uniform(-50.0, 50.0),
		to: src.f64_uniform(-50.0, 50.0),
		frac: src.pick(&[0.8f64, 0.5, 0.97]),
		easing: gen_easing(src),
	}
}

fn run_long(c: &LCase) -> Result<(bool, bool, bool), Failure> {
	let info = MockInfoBuilder::new().build();
	let dt = 1.0 / c.rate as f64;
	let dur = Duration::from_secs_f64(c.updates as f64 * dt * c.frac);
	let d = dur.as_secs_f64();
	let mut p = Parameter::new(Value::Fixed(c.from), c.from);
	p.set(
		Value::Fixed(c.to),
		Tween {
			start_time: StartTime::Immediate,
			duration: dur,
			easing: c.easing,
		},
	);
	let span = (c.to - c.from).abs().max(1e-9);
	for k in 1..=c.updates {
		p.update(dt, &info);
		if k % 997 == 0 || k == c.updates {
			let t = k as f64 * dt;
			let v = p.value();
			// the curve over a window of two updates around the elapsed audio time
			let at = |t: f64| if t >= d { c.to } else { c.from + (c.to - c.from) * ease_ref(c.easing, (t / d).clamp(0.0, 1.0)) };
			let (a, b) = (at(t - dt), at(t + dt));
			let (lo, hi) = (a.min(b), a.max(b));
			ensure!(v >= lo - 1e-9 * span && v <= hi + 1e-9 * span, "follows-the-curve-in-audio-time", "after {k} updates of 1/{} s ({t:.6} s) a tween {} -> {} over {d:.6} s ({:?}) is at {v}, the curve gives [{lo}, {hi}]; case {c:?}", c.rate, c.from, c.to, c.easing);
		}
	}
	ensure!(p.value() == c.to, "ends-exactly-on-target", "after the whole run the value is {}, target {}; case {c:?}", p.value(), c.to);
	Ok((false, false, c.easing != Easing::Linear))
}

fn decode(src: &mut Src, tier: Tier) -> Case {
	let ty = src.pick(&[Ty::F64, Ty::Decibels, Ty::F32, Ty::Panning, Ty::Rate, Ty::Mix, Ty::Speed, Ty::Duration, Ty::Vec3, Ty::Quat, Ty::Tweener]);
	let dims = match ty {
		Ty::Vec3 => 3,
		Ty::Quat => 4,
		_ => 1,
	};
	let gen_val = |src: &mut Src| -> Vec<f64> {
		(0..dims)
			.map(|_| match ty {
				Ty::Decibels => src.f64_in(-80.0, 12.0),
				Ty::Panning => src.f64_in(-1.0, 1.0),
				Ty::Mix => src.f64_in(0.0, 1.0),
				Ty::Rate => src.f64_in(-4.0, 4.0),
				Ty::Speed => src.f64_log(0.01, 1000.0),
				Ty::Duration => src.f64_in(0.0, 10.0),
				Ty::Quat => src.f64_uniform(-1.0, 1.0),
				_ => match src.weighted(&[3, 1]) {
					0 => src.f64_in(-10.0, 10.0),
					_ => src.f64_in(-1e6, 1e6),
				},
			})
			.collect()
	};
	let init = gen_val(src);
	let init_variant = src.index(3);
	let clock_speed = src.pick(&[1.0, 2.0, 10.0, 0.5, 100.0]);
	// update steps: audio-buffer sized, tiny, or large
	let base_dt = src.pick(&[128.0 / 48000.0, 1.0 / 48000.0, 512.0 / 44100.0, 0.01, 1.0, 64.0 / 8000.0]);
	let n_steps = src.usize_in(2, tier.pick(40, 120));
	let mut steps = vec![];
	let mut t = 0.0;
	for _ in 0..n_steps {
		if src.chance(1, 4) {
			let start = match src.weighted(&[5, 3, if ty == Ty::Quat { 0 } else { 2 }]) {
				0 => Start::Immediate,
				1 => Start::Delayed(match src.weighted(&[1, 3, 2]) {
					0 => 0.0,
					1 => src.f64_uniform(0.0, base_dt * 4.0),
					_ => src.f64_uniform(0.0, base_dt * 20.0),
				}),
				_ => Start::Clock({
					let now_ticks = clock_speed * t;
					match src.weighted(&[1, 3, 2]) {
						0 => f64::floor(now_ticks * 0.5),
						1 => now_ticks + src.f64_uniform(0.0, clock_speed * base_dt * 6.0),
						_ => (now_ticks + src.f64_uniform(0.0, clock_speed * base_dt * 20.0)).ceil(),
					}
				}),
			};
			let dur = match src.weighted(&[2, 2, 3, 3]) {
				0 => 0.0,
				1 => src.f64_uniform(0.0, base_dt),
				2 => src.f64_uniform(0.0, base_dt * 6.0),
				_ => src.f64_uniform(0.0, base_dt * 30.0),
			};
			steps.push(Step::Set {
				target: gen_val(src),
				variant: src.index(3),
				start,
				dur,
				easing: gen_easing(src),
			});
		} else {
			let dt = match src.weighted(&[6, 2, 1]) {
				0 => base_dt,
				1 => (base_dt * src.f64_uniform(0.01, 1.0)).max(2e-6),
				_ => base_dt * src.f64_uniform(1.0, 3.0),
			};
			t += dt;
			steps.push(Step::Update(dt));
		}
	}
	// always finish with a few updates so tweens can end
	for _ in 0..src.usize_in(1, 6) {
		steps.push(Step::Update(base_dt));
	}
	Case {
		ty,
		init,
		init_variant,
		clock_speed,
		clock_gone_at: if !matches!(ty, Ty::Quat | Ty::Tweener) && src.chance(1, 6) { Some(src.index(steps.len())) } else { None },
		steps,
	}
}

impl Property for C06 {
	fn id(&self) -> &'static str {
		"C06"
	}
	fn rule(&self) -> &'static str {
		"each case drives one public kira::Parameter<T> (T in f64, f32, Decibels, Panning, PlaybackRate, Mix, ClockSpeed with all unit pairs, Duration, Vec3, Quat) or the tweener modulator through a generated history of set(target, tween) and update(dt) calls: durations 0 / shorter than an update / long, all seven easings with positive powers, starts immediate / delayed / on a mock clock (which in one case in six disappears at some step: a tween still waiting for a time on it never starts and holds its value; nothing is claimed about one that had already started), overlapping set() calls mid-tween, update steps of buffer size, fractions of it, and multiples. After every update the value is checked against start + (target-start)*ease(elapsed/duration) evaluated with an independent easing implementation over the timing window the property grants (exact for immediate starts; one update for delayed and clock starts): held exactly before the start, inside the hull during, exactly the target once the whole window is past the end, never outside [start, target], previous_value/interpolated_value continuous. One case in six instead tweens a live volume (main track, sub-track, sound or volume-control effect) of a DC signal path through the real manager at 8192..48000 Hz with internal buffers 1..128 and callback sizes that are not multiples of the buffer: the output holds the start value before the command, stays inside [start, target], is on the curve at the end of every internal buffer for the audio time elapsed since the command was picked up (one buffer of lag granted to delayed starts) and is exactly the target once the duration has passed; half of the sub-track cases tween the volume of a track that is empty at the time (no sound, no effect, no child) and only play the sound 1..4000 frames later - from then on the output must be on the same curve, counted from the command. One case in 240 drives an f64 parameter through 20 000..150 000 updates of one frame at 44.1..192 kHz and checks every 997th value against the curve at the elapsed audio time (two updates of slack, 1e-9 of the span). Non-trivial = a retarget mid-tween, a tween shorter than one update, a non-linear easing, or (manager cases) a callback size that is not a multiple of the buffer; distinct = distinct decoded choices."
	}
	fn assumptions(&self) -> Vec<String> {
		vec![
			"the mock clock passed to update() shows the clock time at the end of the update, as in the renderer (clocks advance before parameters in each chunk)".into(),
			"relative tolerances: 1e-12 for f64-valued types, 2e-6 for f32-valued types (x8 for the hull test), timing slack 2e-7 s for Duration rounding to nanoseconds".into(),
			"the start value of a retargeted tween is read from Parameter::value() at the time of set(); a jump shows up as the next value leaving the hull".into(),
			"Quat: unit norm and rotated angle against the eased fraction of the shortest arc (2e-3 rad tolerance), immediate starts only".into(),
		]
	}
	fn tape_len(&self, _tier: Tier) -> usize {
		500
	}
	fn cases(&self, tier: Tier) -> u64 {
		tier.pick(1_500_000, 15_000_000)
	}

	fn run(&self, tape: &[u32], ctx: &mut Ctx) -> CaseResult {
		let mut src = Src::new(tape);
		let family = src.below(6);
		if family == 4 && src.below(40) == 0 {
			let case = decode_long(&mut src);
			ctx.describe(|| format!("{case:?}"));
			let (_, _, nonlinear) = run_long(&case)?;
			let mut classes = vec!["many-small-updates"];
			if nonlinear {
				classes.push("non-linear-easing");
			}
			return Ok(CaseInfo::new(&src, true, classes));
		}
		if family == 5 {
			let case = decode_b(&mut src);
			ctx.describe(|| format!("{case:?}"));
			let (_, short, nonlinear) = run_manager(&case)?;
			let mut classes = vec!["through-the-manager"];
			if short {
				classes.push("tween-shorter-than-update");
			}
			if nonlinear {
				classes.push("non-linear-easing");
			}
			if case.partition.iter().any(|n| n % case.buf != 0) {
				classes.push("callback-not-a-multiple-of-the-buffer");
			}
			return Ok(CaseInfo::new(&src, short || nonlinear || case.partition.iter().any(|n| n % case.buf != 0), classes));
		}
		let case = decode(&mut src, ctx.tier);
		ctx.describe(|| format!("{case:?}"));
		// sanity of the reference easing against the crate's own curve is part of C19; here the
		// reference is used on its own
		let _ = ease;
		let (retargeted, short_tween, nonlinear) = match case.ty {
			Ty::F64 => run_typed::<CF64>(&case)?,
			Ty::F32 => run_typed::<CF32>(&case)?,
			Ty::Decibels => run_typed::<CDb>(&case)?,
			Ty::Panning => run_typed::<CPan>(&case)?,
			Ty::Rate => run_typed::<CRate>(&case)?,
			Ty::Mix => run_typed::<CMix>(&case)?,
			Ty::Speed => run_typed::<CSpeed>(&case)?,
			Ty::Duration => run_typed::<CDur>(&case)?,
			Ty::Vec3 => run_typed::<CVec3>(&case)?,
			Ty::Quat => run_quat(&case)?,
			Ty::Tweener => run_tweener(&case)?,
		};
		let mut classes = vec![match case.ty {
			Ty::F64 => "f64",
			Ty::F32 => "f32",
			Ty::Decibels => "decibels",
			Ty::Panning => "panning",
			Ty::Rate => "playback-rate",
			Ty::Mix => "mix",
			Ty::Speed => "clock-speed",
			Ty::Duration => "duration",
			Ty::Vec3 => "vec3",
			Ty::Quat => "quat",
			Ty::Tweener => "tweener-modulator",
		}];
		if retargeted {
			classes.push("retarget-mid-tween");
		}
		if short_tween {
			classes.push("tween-shorter-than-update");
		}
		if nonlinear {
			classes.push("non-linear-easing");
		}
		Ok(CaseInfo::new(&src, retargeted || short_tween || nonlinear, classes))
	}
}
