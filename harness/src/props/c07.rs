//! C07 - handle commands reach the audio thread exactly once; last write wins; none torn.
//!
//! Seven generated scenario families (chosen from the tape; S lives in c07s.rs):
//!  V  volume commands on four resources of one signal path (sound, effect, track, main track)
//!  T  token commands on probe Sound / Effect / Modulator objects built on `kira::command`
//!  P  seek commands on a static sound (audible index jumps) and seek / loop-region commands on
//!     a streaming sound (indices delivered by the decoder, recorded through hook H2)
//!  K  clock start / pause / stop / set_speed and tweener set
//!  R  a writer thread racing a reader thread on one `CommandWriter` / `CommandReader` pair
//!  H  a gameplay thread playing a sound and issuing setters while this thread runs callbacks

use crate::engine::{CaseInfo, CaseResult, Ctx, Failure, Property, Src, Tier};
use crate::ensure;
use crate::models::param::DbParam;
use crate::probes::{default_manager, manager, streamctl, ProbeEffectBuilder, ProbeKind, ScriptDecoder};
use kira::clock::ClockSpeed;
use kira::command::{command_writer_and_reader, CommandReader, CommandWriter};
use kira::effect::volume_control::VolumeControlBuilder;
use kira::effect::{Effect, EffectBuilder};
use kira::info::Info;
use kira::modulator::tweener::TweenerBuilder;
use kira::modulator::{Modulator, ModulatorBuilder, ModulatorId};
use kira::sound::static_sound::{StaticSoundData, StaticSoundSettings};
use kira::sound::streaming::{StreamingSoundData, StreamingSoundSettings};
use kira::sound::{Sound, SoundData};
use kira::track::{MainTrackBuilder, TrackBuilder};
use kira::{Capacities, Decibels, Easing, Frame, Mapping, StartTime, Tween, Value};
use std::sync::atomic::{AtomicBool, AtomicU64, Ordering};
use std::sync::{Arc, Mutex};
use std::time::Duration;

pub struct C07;

const RATE: u32 = 8192;
const DT: f64 = 1.0 / RATE as f64;

fn tween_frames(n: usize) -> Tween {
	Tween {
		start_time: StartTime::Immediate,
		duration: Duration::from_secs_f64(n as f64 / RATE as f64),
		easing: Easing::Linear,
	}
}

fn dc_sound(volume_db: f32) -> StaticSoundData {
	StaticSoundData {
		sample_rate: RATE,
		frames: (0..64).map(|_| Frame::from_mono(1.0)).collect::<Vec<_>>().into(),
		settings: StaticSoundSettings::new().loop_region(..).volume(Decibels(volume_db)),
		slice: None,
	}
}

struct Outcome {
	nontrivial: bool,
	classes: Vec<&'static str>,
}

// ------------------------------------------------------------------------------------------
// V: volumes

#[derive(Debug, Clone)]
struct VGap {
	/// (resource: 0 sound, 1 effect, 2 track, 3 main track; target dB; tween length in frames;
	/// start time written as a delay of zero instead of "immediate" - the same thing)
	cmds: Vec<(usize, f32, usize, bool)>,
	frames: usize,
}

#[derive(Debug, Clone)]
struct VCase {
	buf: usize,
	create_gap: usize,
	init: [f32; 4],
	gaps: Vec<VGap>,
	/// the sub-track persists until its sounds finish, and its handle is dropped in this gap right
	/// after the gap's commands were written (the looping sound keeps the track alive)
	persist_drop: Option<usize>,
	/// the sound starts this many frames after it was played (0: at once); commands written while it
	/// waits are read and run their tweens all the same
	start_delay: usize,
}

fn gen_volumes(src: &mut Src) -> VCase {
	let n = src.usize_in(2, 10);
	let db = |src: &mut Src| -> f32 { src.pick(&[0.0f32, -3.0, -6.0, 3.0, -12.5, -20.0, -40.0, 6.0, -59.0]) + src.below(4) as f32 * 0.25 };
	let init = [db(src), db(src), db(src), db(src)];
	let buf = src.pick(&[16usize, 1, 4, 64, 128]);
	let create_gap = if src.chance(1, 2) { 0 } else { src.index(n) };
	let mut gaps = vec![];
	for _ in 0..n {
		let k = src.weighted(&[2, 3, 3, 2, 1, 1]);
		let mut cmds: Vec<(usize, f32, usize, bool)> = vec![];
		for _ in 0..k {
			// bursts on one resource are likely
			let res = if !cmds.is_empty() && src.chance(1, 2) { cmds[cmds.len() - 1].0 } else { src.index(4) };
			cmds.push((res, db(src), src.pick(&[0usize, 1, 37, 400, 2000, 10]), false));
		}
		gaps.push(VGap {
			cmds,
			frames: src.pick(&[64usize, 1, 7, 100, 200, 33]),
		});
	}
	let persist_drop = if src.chance(1, 4) { Some(src.usize_in(create_gap, n - 1)) } else { None };
	for g in gaps.iter_mut() {
		for c in g.cmds.iter_mut() {
			c.3 = src.chance(1, 4);
		}
	}
	let start_delay = if src.chance(1, 4) { src.pick(&[150usize, 1, 20, 64, 400]) } else { 0 };
	VCase { buf, create_gap, init, gaps, persist_drop, start_delay }
}

fn run_volumes(c: &VCase) -> Result<Outcome, Failure> {
	let mut mgr = manager(RATE, c.buf, Capacities::default(), MainTrackBuilder::new().volume(Decibels(c.init[3])));
	let mut model: Vec<DbParam> = c.init.iter().map(|d| DbParam::new(*d as f64)).collect();
	let mut live = None;
	let mut burst = false;
	let mut restart = false;
	let mut fresh_cmd = false;
	let mut since_creation = 0usize;
	let mut since_start = 0usize;
	let mut started = c.start_delay == 0;
	let mut dropped_with_pending = false;
	let mut cmd_while_waiting = false;
	let mut t = 0usize;
	for (g, gap) in c.gaps.iter().enumerate() {
		if g == c.create_gap {
			let mut tb = TrackBuilder::new().volume(Decibels(c.init[2])).persist_until_sounds_finish(c.persist_drop.is_some());
			let ev = tb.add_effect(VolumeControlBuilder::new(Decibels(c.init[1])));
			let mut track = mgr.add_sub_track(tb).map_err(|_| Failure::simple("setup", "track"))?;
			let mut data = dc_sound(c.init[0]);
			if c.start_delay > 0 {
				data.settings = data.settings.start_time(StartTime::Delayed(Duration::from_secs_f64(c.start_delay as f64 / RATE as f64)));
			}
			let sound = track.play(data).map_err(|_| Failure::simple("setup", "play"))?;
			live = Some((Some(track), ev, sound));
			since_creation = 0;
		}
		let mut pending: [Option<(f32, usize)>; 4] = [None; 4];
		for (res, db, dur, zero_delay) in &gap.cmds {
			let mut tw = tween_frames(*dur);
			if *zero_delay {
				tw.start_time = StartTime::Delayed(Duration::ZERO);
			}
			match (res, &mut live) {
				(3, _) => mgr.main_track().set_volume(Decibels(*db), tw),
				(0, Some((_, _, s))) => s.set_volume(Decibels(*db), tw),
				(1, Some((_, e, _))) => e.set_volume(Decibels(*db), tw),
				(2, Some((Some(t), _, _))) => t.set_volume(Decibels(*db), tw),
				_ => continue,
			}
			cmd_while_waiting |= !started && *res == 0;
			burst |= pending[*res].is_some();
			fresh_cmd |= g == c.create_gap && *res < 3;
			pending[*res] = Some((*db, *dur));
		}
		for r in 0..4 {
			if let Some((db, dur)) = pending[r] {
				restart |= model[r].tween.is_some();
				model[r].set(db as f64, tween_frames(dur).duration.as_secs_f64());
			}
		}
		if c.persist_drop == Some(g) {
			if let Some((track, _, _)) = &mut live {
				dropped_with_pending |= pending[2].is_some();
				drop(track.take());
			}
		}
		let cb = mgr.backend_mut().callback(gap.frames, 2);
		if let Some(p) = &cb.guard.panic {
			return Err(Failure::panic("", p));
		}
		let mut i = 0;
		let _ = crate::models::param::take_edge_hit();
		while i < gap.frames {
			let len = c.buf.min(gap.frames - i);
			let dtc = DT * len as f64;
			model[3].update(dtc);
			if live.is_some() {
				for m in model[..3].iter_mut() {
					m.update(dtc);
				}
			}
			for j in 0..len {
				let a = (j + 1) as f64 / len as f64;
				// (the renderer clamps its output to [-1, 1])
				let want = if live.is_some() { model.iter().map(|m| m.amp_at(a)).product::<f64>().min(1.0) } else { 0.0 };
				let (l, r) = cb.frame(i + j, 2);
				let tol = 1e-4 * want.max(1e-3) + if crate::models::param::take_edge_hit() { 4e-3 } else { 0.0 };
				// a sound with a delayed start is silent until the internal buffer in which the delay runs
				// out; from then on it is judged like any other
				if live.is_some() && !started {
					if l == 0.0 && r == 0.0 {
						ensure!(since_creation <= c.start_delay + 2 * c.buf + 8, "command-applied-exactly-once-at-next-callback", "a sound with a start delay of {} frames is still silent {since_creation} frames after it was played; case {c:?}", c.start_delay);
						since_creation += 1;
						continue;
					}
					// (it begins with the internal buffer during which the delay runs out: up to one buffer
					// before the delay is over; when exactly a delayed start falls is C03's matter)
					ensure!(since_creation + c.buf + 1 >= c.start_delay, "command-applied-exactly-once-at-next-callback", "a sound with a start delay of {} frames is audible {since_creation} frames after it was played; case {c:?}", c.start_delay);
					started = true;
					since_start = 0;
				}
				// the sound's first frames pass through its resampler (silence before the first frame)
				let starting = live.is_some() && since_start < 4;
				let ok = |x: f32| if starting { (x as f64) <= want + tol && x >= 0.0 } else { (x as f64 - want).abs() <= tol };
				if !(ok(l) && ok(r)) {
					let sig = if g == c.create_gap { "command-before-first-callback-applied" } else { "command-applied-exactly-once-at-next-callback" };
					return Err(Failure::new(sig, sig, format!("frame {} (callback {g}, frame {} of it): output ({l}, {r}), the reference that applies the last command of each kind once at the start of the callback gives {want}; model {model:?}; case {c:?}", t + i + j, i + j)));
				}
				if live.is_some() {
					since_creation += 1;
					since_start += 1;
				}
			}
			i += len;
		}
		t += gap.frames;
	}
	let mut classes = vec!["volumes"];
	if burst {
		classes.push("burst-of-same-kind");
	}
	if restart {
		classes.push("command-during-tween");
	}
	if fresh_cmd {
		classes.push("command-before-first-callback");
	}
	if dropped_with_pending {
		classes.push("handle-dropped-in-the-gap-of-its-last-command");
	}
	if cmd_while_waiting {
		classes.push("command-to-a-sound-waiting-for-its-start");
	}
	Ok(Outcome {
		nontrivial: burst || restart || fresh_cmd,
		classes,
	})
}

// ------------------------------------------------------------------------------------------
// T: tokens through probe objects built on the public command module

type Token = [u64; 4];

fn token(seq: u64, probe: u64) -> Token {
	[seq, !seq, seq.wrapping_mul(0x9E37_79B9_7F4A_7C15), probe]
}

fn token_ok(t: &Token) -> bool {
	t[1] == !t[0] && t[2] == t[0].wrapping_mul(0x9E37_79B9_7F4A_7C15)
}

#[derive(Debug, Default)]
struct TokLog {
	/// (number of the on_start_processing call, token read in it)
	reads: Mutex<Vec<(u64, Token)>>,
	on_starts: AtomicU64,
	stop: AtomicBool,
}

struct TokCore {
	reader: CommandReader<Token>,
	log: Arc<TokLog>,
	n: u64,
}

impl TokCore {
	fn on_start(&mut self) {
		self.n += 1;
		if let Some(t) = self.reader.read() {
			let mut r = self.log.reads.lock().unwrap();
			if r.len() < r.capacity() {
				r.push((self.n, t));
			}
		}
		self.log.on_starts.store(self.n, Ordering::SeqCst);
	}
}

fn tok_pair() -> (CommandWriter<Token>, TokCore, Arc<TokLog>) {
	let (w, reader) = command_writer_and_reader();
	let log = Arc::new(TokLog {
		reads: Mutex::new(Vec::with_capacity(256)),
		..Default::default()
	});
	(w, TokCore { reader, log: log.clone(), n: 0 }, log)
}

struct TokEffect(TokCore);
impl Effect for TokEffect {
	fn on_start_processing(&mut self) {
		self.0.on_start();
	}
	fn process(&mut self, _input: &mut [Frame], _dt: f64, _info: &Info) {}
}
struct TokEffectBuilder(TokCore);
impl EffectBuilder for TokEffectBuilder {
	type Handle = ();
	fn build(self) -> (Box<dyn Effect>, ()) {
		(Box::new(TokEffect(self.0)), ())
	}
}

struct TokSound(TokCore);
impl Sound for TokSound {
	fn on_start_processing(&mut self) {
		self.0.on_start();
	}
	fn process(&mut self, out: &mut [Frame], _dt: f64, _info: &Info) {
		out.fill(Frame::ZERO);
	}
	fn finished(&self) -> bool {
		self.0.log.stop.load(Ordering::SeqCst)
	}
}
struct TokSoundData(TokCore);
impl SoundData for TokSoundData {
	type Error = ();
	type Handle = ();
	fn into_sound(self) -> Result<(Box<dyn Sound>, ()), ()> {
		Ok((Box::new(TokSound(self.0)), ()))
	}
}

struct TokModulator(TokCore);
impl Modulator for TokModulator {
	fn on_start_processing(&mut self) {
		self.0.on_start();
	}
	fn update(&mut self, _dt: f64, _info: &Info) {}
	fn value(&self) -> f64 {
		0.0
	}
	fn finished(&self) -> bool {
		self.0.log.stop.load(Ordering::SeqCst)
	}
}
struct TokModulatorBuilder(TokCore);
impl ModulatorBuilder for TokModulatorBuilder {
	type Handle = ();
	fn build(self, _id: ModulatorId) -> (Box<dyn Modulator>, ()) {
		(Box::new(TokModulator(self.0)), ())
	}
}

#[derive(Debug, Clone, Copy, PartialEq)]
enum TPlace {
	MainEffect,
	SubTrackEffect,
	SoundOnMain,
	SoundOnNewTrack,
	SoundOnOldTrack,
	Modulator,
	/// an effect on a track created through `TrackHandle::add_sub_track` of an existing track
	NestedTrackEffect,
	/// a sound on a track created through `TrackHandle::add_sub_track` of a track created in the same gap
	SoundOnNewNestedTrack,
}

#[derive(Debug, Clone)]
struct TProbe {
	place: TPlace,
	create_gap: usize,
	/// the gap (at or after creation) in which the track that holds the probe is paused; commands
	/// to resources on a paused track are still read at every callback
	pause_gap: Option<usize>,
	/// number of tokens written in each gap (gaps before creation write to the not yet added probe)
	writes: Vec<usize>,
}

#[derive(Debug, Clone)]
struct TCase {
	buf: usize,
	frames: Vec<usize>,
	probes: Vec<TProbe>,
}

fn gen_tokens(src: &mut Src) -> TCase {
	let n = src.usize_in(2, 9);
	let frames = (0..n).map(|_| src.pick(&[32usize, 1, 5, 100, 64])).collect();
	let np = src.usize_in(1, 5);
	let mut probes = vec![];
	for _ in 0..np {
		let place = src.pick(&[TPlace::SubTrackEffect, TPlace::MainEffect, TPlace::SoundOnMain, TPlace::SoundOnNewTrack, TPlace::SoundOnOldTrack, TPlace::Modulator, TPlace::NestedTrackEffect, TPlace::SoundOnNewNestedTrack]);
		let create_gap = if place == TPlace::MainEffect { 0 } else { src.index(n) };
		let writes = (0..n).map(|_| src.weighted(&[3, 3, 2, 1, 1])).collect();
		let on_track = matches!(place, TPlace::SubTrackEffect | TPlace::SoundOnNewTrack | TPlace::SoundOnOldTrack | TPlace::NestedTrackEffect | TPlace::SoundOnNewNestedTrack);
		let pause_gap = if on_track && src.chance(1, 3) { Some(src.usize_in(create_gap, n - 1)) } else { None };
		probes.push(TProbe { place, create_gap, pause_gap, writes });
	}
	TCase {
		buf: src.pick(&[16usize, 1, 64]),
		frames,
		probes,
	}
}

fn run_tokens(c: &TCase) -> Result<Outcome, Failure> {
	let n = c.frames.len();
	let mut writers = vec![];
	let mut cores: Vec<Option<TokCore>> = vec![];
	let mut logs = vec![];
	for _ in &c.probes {
		let (w, core, log) = tok_pair();
		writers.push(w);
		cores.push(Some(core));
		logs.push(log);
	}
	let mut main = MainTrackBuilder::new();
	for (i, p) in c.probes.iter().enumerate() {
		if p.place == TPlace::MainEffect {
			// (tokens of gap 0 are written below, after the manager exists but before its first callback;
			// one token is written even before the effect is handed to the builder)
			writers[i].write(token(1_000_000, i as u64));
			main.add_effect(TokEffectBuilder(cores[i].take().unwrap()));
		}
	}
	let mut mgr = manager(RATE, c.buf, Capacities::default(), main);
	let mut old_track = mgr.add_sub_track(TrackBuilder::new()).map_err(|_| Failure::simple("setup", "track"))?;
	let mut probe_track: Vec<Option<kira::track::TrackHandle>> = (0..c.probes.len()).map(|_| None).collect();
	let mut paused_track = false;
	let mut nested = false;
	// parents of nested probe tracks (kept alive for the whole case)
	let mut parents: Vec<kira::track::TrackHandle> = vec![];
	// expected reads per probe
	let mut expect: Vec<Vec<(u64, Token)>> = vec![vec![]; c.probes.len()];
	let mut last_unread: Vec<Option<Token>> = c.probes.iter().enumerate().map(|(i, p)| (p.place == TPlace::MainEffect).then(|| token(1_000_000, i as u64))).collect();
	let mut seq = 0u64;
	let mut burst = false;
	let mut early = false;
	for g in 0..n {
		for (i, p) in c.probes.iter().enumerate() {
			let write_before_adding = g == p.create_gap && p.place != TPlace::MainEffect && (i + g) % 2 == 0;
			let do_writes = |writers: &mut Vec<CommandWriter<Token>>, last_unread: &mut Vec<Option<Token>>, seq: &mut u64, burst: &mut bool| {
				for k in 0..p.writes[g] {
					*seq += 1;
					let t = token(*seq, i as u64);
					writers[i].write(t);
					*burst |= k > 0;
					last_unread[i] = Some(t);
				}
			};
			if write_before_adding {
				do_writes(&mut writers, &mut last_unread, &mut seq, &mut burst);
			}
			if g == p.create_gap && p.place != TPlace::MainEffect {
				let core = cores[i].take().unwrap();
				match p.place {
					TPlace::SubTrackEffect => {
						let t = mgr.add_sub_track(TrackBuilder::new().with_effect(TokEffectBuilder(core))).map_err(|_| Failure::simple("setup", "track"))?;
						probe_track[i] = Some(t);
					}
					TPlace::SoundOnMain => {
						mgr.play(TokSoundData(core)).map_err(|_| Failure::simple("setup", "play"))?;
					}
					TPlace::SoundOnOldTrack => {
						old_track.play(TokSoundData(core)).map_err(|_| Failure::simple("setup", "play"))?;
					}
					TPlace::SoundOnNewTrack => {
						let mut t = mgr.add_sub_track(TrackBuilder::new()).map_err(|_| Failure::simple("setup", "track"))?;
						t.play(TokSoundData(core)).map_err(|_| Failure::simple("setup", "play"))?;
						probe_track[i] = Some(t);
					}
					TPlace::Modulator => {
						mgr.add_modulator(TokModulatorBuilder(core)).map_err(|_| Failure::simple("setup", "modulator"))?;
					}
					TPlace::NestedTrackEffect => {
						nested = true;
						let t = old_track.add_sub_track(TrackBuilder::new().with_effect(TokEffectBuilder(core))).map_err(|_| Failure::simple("setup", "track"))?;
						probe_track[i] = Some(t);
					}
					TPlace::SoundOnNewNestedTrack => {
						nested = true;
						let mut parent = mgr.add_sub_track(TrackBuilder::new()).map_err(|_| Failure::simple("setup", "track"))?;
						let mut t = parent.add_sub_track(TrackBuilder::new()).map_err(|_| Failure::simple("setup", "track"))?;
						t.play(TokSoundData(core)).map_err(|_| Failure::simple("setup", "play"))?;
						probe_track[i] = Some(t);
						parents.push(parent);
					}
					TPlace::MainEffect => unreachable!(),
				}
			}
			if !write_before_adding {
				do_writes(&mut writers, &mut last_unread, &mut seq, &mut burst);
			}
			early |= g <= p.create_gap && p.writes[g] > 0;
			if p.pause_gap == Some(g) {
				paused_track = true;
				match (&mut probe_track[i], p.place) {
					(Some(t), _) => t.pause(tween_frames(0)),
					(None, TPlace::SoundOnOldTrack) => old_track.pause(tween_frames(0)),
					_ => {}
				}
			}
		}
		let cb = mgr.backend_mut().callback(c.frames[g], 2);
		if let Some(p) = &cb.guard.panic {
			return Err(Failure::panic("", p));
		}
		for (i, p) in c.probes.iter().enumerate() {
			if g >= p.create_gap {
				if let Some(t) = last_unread[i].take() {
					expect[i].push(((g - p.create_gap + 1) as u64, t));
				}
			}
		}
	}
	for (i, p) in c.probes.iter().enumerate() {
		let got = logs[i].reads.lock().unwrap().clone();
		let starts = logs[i].on_starts.load(Ordering::SeqCst);
		for (_, t) in &got {
			ensure!(token_ok(t) && t[3] == i as u64, "command-not-torn", "probe {i} ({:?}) read a token that was never written: {t:?}; case {c:?}", p.place);
		}
		ensure!(starts == (n - p.create_gap) as u64, "commands-drained-once-per-callback", "probe {i} ({:?}) created before callback {} of {n} saw {starts} on_start_processing calls (one per callback expected); case {c:?}", p.place, p.create_gap);
		if got != expect[i] {
			let show = |v: &Vec<(u64, Token)>| v.iter().map(|(k, t)| format!("{}:{}", k, t[0])).collect::<Vec<_>>().join(" ");
			let sig = if got.len() > expect[i].len() {
				"command-read-more-than-once"
			} else if got.first().map(|x| x.0) != expect[i].first().map(|x| x.0) || got.first().map(|x| x.1) != expect[i].first().map(|x| x.1) {
				"command-before-first-callback-read"
			} else {
				"last-command-read-at-next-callback"
			};
			return Err(Failure::new(sig, sig, format!("probe {i} ({:?}): reads (callback:token) were [{}], expected [{}] - the last token of every burst, once, in the callback that follows it; case {c:?}", p.place, show(&got), show(&expect[i]))));
		}
		logs[i].stop.store(true, Ordering::SeqCst);
	}
	let mut classes = vec!["tokens"];
	if burst {
		classes.push("burst-of-same-kind");
	}
	if early {
		classes.push("command-before-first-callback");
	}
	if paused_track {
		classes.push("command-to-a-resource-on-a-paused-track");
	}
	if nested {
		classes.push("command-to-a-resource-on-a-nested-track");
	}
	drop(parents);
	Ok(Outcome { nontrivial: burst || early || paused_track, classes })
}

// ------------------------------------------------------------------------------------------
// P: positions

#[derive(Debug, Clone, Copy, PartialEq)]
enum Seek {
	To(usize),
	/// frames, may be negative
	By(i64),
}

#[derive(Debug, Clone)]
struct PGap {
	/// burst of seeks of one kind for the static sound
	st: Vec<Seek>,
	/// burst of seeks of one kind for the streaming sound
	sm: Vec<Seek>,
	/// loop regions (start, end) for the streaming sound
	sm_loop: Vec<Option<(usize, usize)>>,
	/// decoder steps granted in this gap
	steps: u64,
	frames: usize,
}

#[derive(Debug, Clone)]
struct PCase {
	buf: usize,
	gaps: Vec<PGap>,
}

const PLEN: usize = 60000;

fn gen_positions(src: &mut Src) -> PCase {
	let n = src.usize_in(3, 10);
	let mut gaps = vec![];
	for _ in 0..n {
		let burst = |src: &mut Src| -> Vec<Seek> {
			let k = src.weighted(&[4, 3, 2, 1]);
			let to = src.bool();
			(0..k).map(|_| if to { Seek::To(src.usize_in(500, 40000)) } else { Seek::By(src.pick(&[1i64, -1]) * src.usize_in(150, 3000) as i64) }).collect()
		};
		let st = burst(src);
		let sm = burst(src);
		let sm_loop = (0..src.weighted(&[5, 2, 1])).map(|_| if src.chance(1, 4) { None } else { Some((src.usize_in(0, 3), src.usize_in(5, 60))) }).collect();
		gaps.push(PGap {
			st,
			sm,
			sm_loop,
			steps: src.pick(&[40u64, 0, 1, 2, 130, 7]),
			frames: src.pick(&[64usize, 8, 100, 200, 33]),
		});
	}
	PCase {
		buf: src.pick(&[16usize, 1, 64, 128]),
		gaps,
	}
}

fn run_positions(c: &PCase) -> Result<Outcome, Failure> {
	streamctl::install();
	streamctl::set_callback_active(false);
	streamctl::capture_pushes(true);
	streamctl::set_default_budget(Some(0));
	let r = run_positions_inner(c);
	streamctl::set_default_budget(None);
	streamctl::capture_pushes(false);
	streamctl::set_callback_active(false);
	streamctl::abandon_all();
	r
}

fn run_positions_inner(c: &PCase) -> Result<Outcome, Failure> {
	let mut mgr = default_manager(RATE, c.buf);
	let ramp: Arc<[Frame]> = (0..PLEN).map(|i| Frame::from_mono((i + 1) as f32 / 65536.0)).collect::<Vec<_>>().into();
	let mut st = mgr
		.play(StaticSoundData {
			sample_rate: RATE,
			frames: ramp.clone(),
			settings: StaticSoundSettings::new(),
			slice: None,
		})
		.map_err(|_| Failure::simple("setup", "play"))?;
	let (dec, dlog) = ScriptDecoder::new(ramp.clone(), RATE);
	let mark = streamctl::mark();
	let mut sm = mgr.play(StreamingSoundData::from_decoder(dec).with_settings(StreamingSoundSettings::new().volume(Decibels::SILENCE))).map_err(|_| Failure::simple("setup", "play stream"))?;
	let id = sm.verif_id();
	streamctl::adopt(id, mark);
	let streams = [(id, dlog.clone())];

	// --- streaming reference: what the decoder must deliver
	let mut want_pushes: Vec<usize> = vec![];
	let mut pos = 0usize;
	let mut region: Option<(usize, usize)> = None;
	let mut pend_to: Option<usize> = None;
	let mut pend_by: Option<i64> = None;
	let mut pend_loop: Option<Option<(usize, usize)>> = None;
	let mut sm_burst = false;
	let mut sm_deferred = false;

	// --- static reference: where the audible index may jump
	let mut audible: Vec<Vec<f32>> = vec![];
	let mut st_burst = false;

	for gap in c.gaps.iter() {
		// static sound
		for s in &gap.st {
			match s {
				Seek::To(i) => st.seek_to(*i as f64 / RATE as f64),
				Seek::By(a) => st.seek_by(*a as f64 / RATE as f64),
			}
		}
		st_burst |= gap.st.len() > 1;
		// streaming sound (commands of one kind pile up until the decoder's next step; kinds whose
		// relative order would matter are not mixed while one of them is waiting)
		if pend_to.is_none() && pend_by.is_none() {
			for l in &gap.sm_loop {
				// regions are placed ahead of the decoder so that entering them is unambiguous
				let l = l.map(|(a, b)| (pos + 2 + a, pos + 2 + a + b));
				match l {
					Some((a, b)) => sm.set_loop_region(a as f64 / RATE as f64..b as f64 / RATE as f64),
					None => sm.set_loop_region(None),
				}
				sm_burst |= pend_loop.is_some();
				pend_loop = Some(l);
			}
		}
		let eff_region = pend_loop.unwrap_or(region);
		for s in &gap.sm {
			match (s, eff_region) {
				(_, Some((a, b))) => {
					if pend_by.is_some() {
						continue;
					}
					// inside a loop region seeks stay inside it
					let x = match s {
						Seek::To(i) => *i,
						Seek::By(x) => x.unsigned_abs() as usize,
					};
					let target = a + x % (b - a);
					sm.seek_to(target as f64 / RATE as f64);
					sm_burst |= pend_to.is_some();
					pend_to = Some(target);
				}
				(Seek::To(i), None) => {
					if pend_by.is_some() {
						continue;
					}
					sm.seek_to(*i as f64 / RATE as f64);
					sm_burst |= pend_to.is_some();
					pend_to = Some(*i);
				}
				(Seek::By(x), None) => {
					if pend_to.is_some() {
						continue;
					}
					sm.seek_by(*x as f64 / RATE as f64);
					sm_burst |= pend_by.is_some();
					pend_by = Some(*x);
				}
			}
		}
		if gap.steps == 0 && (pend_to.is_some() || pend_by.is_some() || pend_loop.is_some()) {
			sm_deferred = true;
		}
		let reported = sm.position();
		for _ in 0..gap.steps {
			if let Some(l) = pend_loop.take() {
				region = l;
			}
			if let Some(x) = pend_by.take() {
				// the decoder seeks to round((reported position + amount) * rate)
				pos = ((reported + x as f64 / RATE as f64) * RATE as f64).round() as usize;
			}
			if let Some(t) = pend_to.take() {
				pos = t;
			}
			want_pushes.push(pos);
			pos += 1;
			if let Some((a, b)) = region {
				while pos >= b {
					pos -= b - a;
				}
			}
		}
		streamctl::grant(id, gap.steps);
		streamctl::settle(&streams)?;
		streamctl::set_callback_active(true);
		let cb = mgr.backend_mut().callback(gap.frames, 2);
		streamctl::set_callback_active(false);
		if let Some(p) = &cb.guard.panic {
			return Err(Failure::panic("", p));
		}
		audible.push((0..gap.frames).map(|i| cb.out[2 * i]).collect());
	}
	// --- streaming oracle
	streamctl::settle(&streams)?;
	let got = streamctl::take_pushes(id);
	if std::env::var("KVERIF_DEBUG").is_ok() {
		eprintln!("delivered {got:?}\nreference {want_pushes:?}");
	}
	if got != want_pushes {
		let k = got.iter().zip(&want_pushes).position(|(a, b)| a != b).unwrap_or(got.len().min(want_pushes.len()));
		let lo = k.saturating_sub(3);
		let sig = "streaming-seek-and-loop-commands-apply-once-at-the-decoders-next-step";
		return Err(Failure::new(sig, sig, format!("the decoder delivered {} frames, reference {}; first difference at delivery {k}: delivered {:?}, reference {:?} (from delivery {lo}); case {c:?}", got.len(), want_pushes.len(), &got[lo.min(got.len())..(k + 4).min(got.len())], &want_pushes[lo.min(want_pushes.len())..(k + 4).min(want_pushes.len())])));
	}
	// --- static oracle
	let mut prev: Option<i64> = None;
	for (g, gap) in c.gaps.iter().enumerate() {
		let from = prev.unwrap_or(0);
		let mut jumps: Vec<(usize, i64, i64)> = vec![]; // (frame of the callback, from, to)
		let mut first_audible: Option<i64> = None;
		for (t, s) in audible[g].iter().enumerate() {
			if *s == 0.0 {
				continue;
			}
			let x = *s as f64 * 65536.0;
			let idx = x.round() as i64;
			ensure!((x - idx as f64).abs() < 1e-2 && idx >= 1 && idx <= PLEN as i64, "static-output-is-a-source-frame", "callback {g}, frame {t}: output {s} is not a frame of the ramp; case {c:?}");
			first_audible.get_or_insert(idx);
			if let Some(p) = prev {
				if idx != p + 1 {
					jumps.push((t, p, idx));
				}
			}
			prev = Some(idx);
		}
		let Some(seek) = gap.st.last().copied() else {
			ensure!(jumps.is_empty(), "static-seek-applied-exactly-once", "callback {g} follows no seek command but the audible position jumps {jumps:?} (frame, from source frame, to source frame; 1-based); case {c:?}");
			continue;
		};
		let land = match seek {
			Seek::To(i) => i as i64 + 1,
			Seek::By(a) => (from + 1 + a).max(1),
		};
		if (land - (from + 1)).abs() <= 8 {
			// the command asks for (nearly) the place playback is at anyway: nothing to see
			continue;
		}
		let big: Vec<_> = jumps.iter().filter(|(_, a, b)| (b - a - 1).abs() > 3).collect();
		// (around a seek the resampler may drop or repeat a single frame)
		ensure!(big.len() == 1 && jumps.len() <= 3, "static-seek-applied-at-next-callback", "callback {g} follows the seek burst {:?} (the last one counts): expected exactly one jump of the audible position, got {jumps:?}; case {c:?}", gap.st);
		let (t, _, to) = *big[0];
		ensure!(t < 4, "static-seek-applied-at-next-callback", "callback {g}: the jump happens {t} frames into the callback; case {c:?}");
		ensure!((to - land).abs() <= 4, "static-last-seek-of-burst-wins", "callback {g} follows the seek burst {:?}: the audible position lands on source frame {}, the last command asks for {}; case {c:?}", gap.st, to - 1, land - 1);
	}
	sm.stop(tween_frames(0));
	streamctl::set_budget(id, None);
	mgr.backend_mut().callback(8, 2);
	let mut classes = vec!["positions"];
	if st_burst || sm_burst {
		classes.push("burst-of-same-kind");
	}
	if sm_deferred {
		classes.push("decoder-step-later-than-next-callback");
	}
	Ok(Outcome {
		nontrivial: st_burst || sm_burst || sm_deferred,
		classes,
	})
}

// ------------------------------------------------------------------------------------------
// K: clock and tweener

#[derive(Debug, Clone, Copy, PartialEq)]
enum KCmd {
	Start,
	Pause,
	Stop,
	Speed(f64),
	/// tweener target, tween length in frames
	Tweener(f64, usize),
}

#[derive(Debug, Clone)]
struct KCase {
	buf: usize,
	speed: f64,
	gaps: Vec<(Vec<KCmd>, usize)>,
}

fn gen_clock(src: &mut Src) -> KCase {
	let n = src.usize_in(2, 10);
	let speed = |src: &mut Src| src.pick(&[100.0f64, 0.5, 8192.0, 33.3, 1000.0, 4096.0]);
	let gaps = (0..n)
		.map(|_| {
			let k = src.weighted(&[2, 3, 3, 2, 1]);
			let cmds = (0..k)
				.map(|_| match src.weighted(&[3, 2, 2, 3, 4]) {
					0 => KCmd::Start,
					1 => KCmd::Pause,
					2 => KCmd::Stop,
					3 => KCmd::Speed(speed(src)),
					_ => KCmd::Tweener(src.pick(&[1.0f64, -2.5, 0.0, 10.0, 0.125]) + src.below(4) as f64, src.pick(&[0usize, 1, 50, 700, 3000])),
				})
				.collect();
			(cmds, src.pick(&[64usize, 1, 9, 100, 250]))
		})
		.collect();
	KCase {
		buf: src.pick(&[16usize, 1, 64, 128]),
		speed: speed(src),
		gaps,
	}
}

fn run_clock(c: &KCase) -> Result<Outcome, Failure> {
	let mut mgr = manager(RATE, c.buf, Capacities::default(), MainTrackBuilder::new());
	let mut clock = mgr.add_clock(ClockSpeed::TicksPerSecond(c.speed)).map_err(|_| Failure::simple("setup", "clock"))?;
	let mut tweener = mgr.add_modulator(TweenerBuilder { initial_value: 0.5 }).map_err(|_| Failure::simple("setup", "tweener"))?;
	let probe = ProbeEffectBuilder::new(ProbeKind::EmitParam).param(Value::FromModulator {
		id: tweener.id(),
		mapping: Mapping {
			input_range: (-1000.0, 1000.0),
			output_range: (-1000.0, 1000.0),
			easing: Easing::Linear,
		},
	});
	let mut tb = TrackBuilder::new();
	let plog = tb.add_effect(probe);
	let _track = mgr.add_sub_track(tb).map_err(|_| Failure::simple("setup", "track"))?;
	// reference
	let mut ticking = false;
	let mut state: Option<(u64, f64)> = None;
	let mut speed = c.speed;
	let mut tw = DbParam::new(0.5); // (used as a plain linear parameter)
	let mut burst = false;
	let mut restart = false;
	for (g, (cmds, frames)) in c.gaps.iter().enumerate() {
		let (mut p_tick, mut p_reset, mut p_speed, mut p_tw) = (None, false, None, None);
		for cmd in cmds {
			match cmd {
				KCmd::Start => {
					clock.start();
					burst |= p_tick.is_some();
					p_tick = Some(true);
				}
				KCmd::Pause => {
					clock.pause();
					burst |= p_tick.is_some();
					p_tick = Some(false);
				}
				KCmd::Stop => {
					clock.stop();
					burst |= p_tick.is_some();
					p_tick = Some(false);
					p_reset = true;
				}
				KCmd::Speed(s) => {
					clock.set_speed(ClockSpeed::TicksPerSecond(*s), tween_frames(0));
					burst |= p_speed.is_some();
					p_speed = Some(*s);
				}
				KCmd::Tweener(v, d) => {
					tweener.set(*v, tween_frames(*d));
					burst |= p_tw.is_some();
					p_tw = Some((*v, *d));
				}
			}
		}
		if let Some(s) = p_speed {
			speed = s;
		}
		if let Some(t) = p_tick {
			ticking = t;
		}
		if p_reset {
			state = None;
		}
		if let Some((v, d)) = p_tw {
			restart |= tw.tween.is_some();
			tw.set(v, tween_frames(d).duration.as_secs_f64());
		}
		let at_start = state;
		let ticking_at_start = ticking;
		let cb = mgr.backend_mut().callback(*frames, 2);
		if let Some(p) = &cb.guard.panic {
			return Err(Failure::panic("", p));
		}
		// what the handle reports is published at the start of the callback, after its commands
		let time = clock.time();
		let (wt, wf) = at_start.unwrap_or((0, 0.0));
		ensure!(time.ticks == wt && (time.fraction - wf).abs() < 1e-9, "clock-commands-applied-once-at-next-callback", "after callback {g} the clock reports {} + {}, the reference (commands of the gap applied once at the start of the callback) gives {wt} + {wf}; case {c:?}", time.ticks, time.fraction);
		ensure!(clock.ticking() == ticking_at_start, "clock-commands-applied-once-at-next-callback", "after callback {g} ticking() is {}, the last start/pause/stop of the gap says {ticking_at_start}; case {c:?}", clock.ticking());
		let calls = plog.take_calls();
		let mut i = 0;
		let mut k = 0;
		while i < *frames {
			let len = c.buf.min(*frames - i);
			let dtc = DT * len as f64;
			if ticking {
				let (t, f) = state.get_or_insert((0, 0.0));
				*f += speed * dtc;
				while *f >= 1.0 {
					*f -= 1.0;
					*t += 1;
				}
			}
			tw.update(dtc);
			let Some(rec) = calls.get(k) else {
				return Err(Failure::simple("setup", format!("probe effect saw {} chunks in callback {g}; case {c:?}", calls.len())));
			};
			ensure!((rec.param - tw.value_db).abs() <= 1e-9 * tw.value_db.abs().max(1.0), "tweener-command-applied-once-at-next-callback", "callback {g}, chunk {k}: the tweener's value is {}, the reference (last set() of the gap applied once at the start of the callback) gives {}; case {c:?}", rec.param, tw.value_db);
			i += len;
			k += 1;
		}
	}
	let mut classes = vec!["clock-and-tweener"];
	if burst {
		classes.push("burst-of-same-kind");
	}
	if restart {
		classes.push("command-during-tween");
	}
	Ok(Outcome { nontrivial: burst || restart, classes })
}

// ------------------------------------------------------------------------------------------
// R: raw race on one writer / reader pair

#[derive(Debug, Clone)]
struct RCase {
	writes: u64,
	writer_spin: Vec<u32>,
	reader_spin: Vec<u32>,
}

fn gen_raw(src: &mut Src) -> RCase {
	let spins = |src: &mut Src| (0..src.usize_in(1, 6)).map(|_| src.pick(&[0u32, 1, 3, 20, 200, 2000])).collect();
	RCase {
		writes: src.pick(&[2000u64, 200, 20000]),
		writer_spin: spins(src),
		reader_spin: spins(src),
	}
}

fn spin(n: u32) {
	for _ in 0..n {
		std::hint::spin_loop();
	}
}

fn run_raw(c: &RCase) -> Result<Outcome, Failure> {
	let (mut w, mut r) = command_writer_and_reader::<[u64; 8]>();
	let done = Arc::new(AtomicBool::new(false));
	let d2 = done.clone();
	let n = c.writes;
	let ws = c.writer_spin.clone();
	let wt = std::thread::spawn(move || {
		for i in 1..=n {
			let t = token(i, 7);
			w.write([t[0], t[1], t[2], t[3], t[0], t[1], t[2], t[3]]);
			spin(ws[i as usize % ws.len()]);
		}
		d2.store(true, Ordering::SeqCst);
		w
	});
	let mut last = 0u64;
	let mut reads = 0u64;
	let mut k = 0usize;
	let check = |v: Option<[u64; 8]>, last: &mut u64, reads: &mut u64| -> Result<(), Failure> {
		if let Some(v) = v {
			let t = [v[0], v[1], v[2], v[3]];
			ensure!(token_ok(&t) && v[4..] == v[..4] && v[3] == 7, "command-not-torn", "read() returned a value that was never written: {v:?}; case {c:?}");
			ensure!(v[0] > *last, "read-returns-only-new-values", "read() returned write {} after write {last} (a value is returned once, and never an older one); case {c:?}", v[0]);
			*last = v[0];
			*reads += 1;
		}
		Ok(())
	};
	let mut result = Ok(());
	loop {
		let finished = done.load(Ordering::SeqCst);
		result = check(r.read(), &mut last, &mut reads);
		if result.is_err() || finished {
			break;
		}
		spin(c.reader_spin[k % c.reader_spin.len()]);
		k += 1;
	}
	let _w = wt.join().map_err(|_| Failure::simple("setup", "writer thread panicked"))?;
	result?;
	check(r.read(), &mut last, &mut reads)?;
	ensure!(last == n, "last-write-is-not-lost", "after the writer finished the last value read is write {last} of {n}; case {c:?}");
	ensure!(r.read().is_none(), "read-returns-only-new-values", "read() returned a value although nothing was written since the previous read; case {c:?}");
	let mixed = reads >= 2 && reads < n;
	Ok(Outcome {
		nontrivial: mixed,
		classes: if mixed { vec!["raw-race", "reads-interleaved-with-writes"] } else { vec!["raw-race"] },
	})
}

// ------------------------------------------------------------------------------------------
// H: gameplay thread against callbacks

#[derive(Debug, Clone)]
struct HCase {
	buf: usize,
	writes: usize,
	writer_spin: Vec<u32>,
	frames: Vec<usize>,
	play_in_thread: bool,
}

fn gen_handle_race(src: &mut Src) -> HCase {
	HCase {
		buf: src.pick(&[16usize, 1, 64]),
		writes: src.pick(&[200usize, 20, 2000]),
		writer_spin: (0..src.usize_in(1, 5)).map(|_| src.pick(&[0u32, 10, 100, 1000, 10000])).collect(),
		frames: (0..src.usize_in(1, 4)).map(|_| src.pick(&[16usize, 1, 64, 100])).collect(),
		play_in_thread: src.bool(),
	}
}

fn run_handle_race(c: &HCase) -> Result<Outcome, Failure> {
	let mut mgr = default_manager(RATE, c.buf);
	let mut track = mgr.add_sub_track(TrackBuilder::new().volume(Decibels(-40.0))).map_err(|_| Failure::simple("setup", "track"))?;
	let sound = if c.play_in_thread { None } else { Some(track.play(dc_sound(-40.0)).map_err(|_| Failure::simple("setup", "play"))?) };
	let done = Arc::new(AtomicBool::new(false));
	let d2 = done.clone();
	let n = c.writes;
	let ws = c.writer_spin.clone();
	let db = move |i: usize| -40.0 + 40.0 * (i as f32 / n as f32);
	let wt = std::thread::spawn(move || {
		let mut sound = match sound {
			Some(s) => s,
			None => track.play(dc_sound(-40.0)).expect("play"),
		};
		for i in 1..=n {
			sound.set_volume(Decibels(db(i)), tween_frames(0));
			track.set_volume(Decibels(db(i)), tween_frames(0));
			spin(ws[i % ws.len()]);
		}
		d2.store(true, Ordering::SeqCst);
		(sound, track)
	});
	let mut prev = 0.0f32;
	let mut callbacks = 0usize;
	let mut during = 0usize;
	let mut distinct = 0usize;
	let mut tail = 0;
	let mut last_out = 0.0f32;
	let mut k = 0;
	loop {
		let finished = done.load(Ordering::SeqCst);
		if finished {
			tail += 1;
		} else {
			during += 1;
		}
		let frames = c.frames[k % c.frames.len()];
		k += 1;
		let cb = mgr.backend_mut().callback(frames, 2);
		if let Some(p) = &cb.guard.panic {
			let _ = wt.join();
			return Err(Failure::panic("", p));
		}
		callbacks += 1;
		for i in 0..frames {
			let (l, r) = cb.frame(i, 2);
			if !(l >= prev * (1.0 - 1e-6) && l == r && l <= 1.0 + 1e-5) {
				let _ = wt.join();
				let sig = "racing-setters-never-apply-an-older-value";
				return Err(Failure::new(sig, sig, format!("callback {callbacks}, frame {i}: output ({l}, {r}) after {prev} while a thread raises the volumes monotonically: an older or foreign command was applied; case {c:?}")));
			}
			if l != prev {
				distinct += 1;
			}
			prev = l;
			last_out = l;
		}
		if tail >= 3 {
			break;
		}
	}
	let _h = wt.join().map_err(|_| Failure::simple("setup", "writer thread panicked"))?;
	ensure!((last_out - 1.0).abs() < 1e-5, "last-write-is-not-lost", "after the gameplay thread finished (last setters: 0 dB on sound and track) and three more callbacks the output is {last_out}, not 1; case {c:?}");
	let mixed = during >= 2 && distinct >= 3;
	Ok(Outcome {
		nontrivial: mixed,
		classes: if mixed { vec!["handle-race", "callbacks-interleaved-with-writes"] } else { vec!["handle-race"] },
	})
}

// ------------------------------------------------------------------------------------------

/// class labels of family S (same order as `c07s::ALL`)
const SETTER_CLASS: [&str; 43] = [
	"set:sound-volume",
	"set:sound-panning",
	"set:sound-playback-rate",
	"set:stream-volume",
	"set:stream-panning",
	"set:stream-playback-rate",
	"set:track-volume",
	"set:track-send",
	"set:send-track-volume",
	"set:main-volume",
	"set:spatial-position",
	"set:spatialization-strength",
	"set:spatial-track-volume",
	"set:listener-position",
	"set:listener-orientation",
	"set:filter-mode",
	"set:filter-cutoff",
	"set:filter-resonance",
	"set:filter-mix",
	"set:eq-kind",
	"set:eq-frequency",
	"set:eq-gain",
	"set:eq-q",
	"set:delay-feedback",
	"set:delay-mix",
	"set:reverb-feedback",
	"set:reverb-damping",
	"set:reverb-stereo-width",
	"set:reverb-mix",
	"set:compressor-threshold",
	"set:compressor-ratio",
	"set:compressor-makeup-gain",
	"set:compressor-mix",
	"set:distortion-kind",
	"set:distortion-drive",
	"set:distortion-mix",
	"set:panning-control",
	"set:volume-control",
	"set:tweener",
	"set:lfo-amplitude",
	"set:lfo-offset",
	"set:lfo-frequency",
	"set:lfo-waveform",
];

impl Property for C07 {
	fn id(&self) -> &'static str {
		"C07"
	}
	fn rule(&self) -> &'static str {
		"each case is one of seven generated scenario families run through the real manager (device rate 8192 Hz, internal buffer 1..128, callback sizes 1..250). V: volume setters with linear tweens of 0..2000 frames on four resources of one signal path (static DC sound, volume-control effect, sub-track, main track), 0..5 commands per gap with bursts on one resource, a quarter of the tweens starting after a delay of zero instead of immediately, the path created before the first or a later callback with commands in the same gap, in a quarter of the cases the sound starts 1..400 frames after it was played (commands written while it waits run their tweens all the same) and in a quarter the persisting sub-track's handle is dropped in a gap right after that gap's commands were written; the output is compared frame by frame (1e-4) with a reference that applies the last command of each kind once at the start of the next callback. T: probe Sound / Effect / Modulator objects built on kira::command read a token reader once per on_start_processing; tokens are written 0..4 per gap, also before the probe is added (main-track effect, sub-track effect, effect on a track nested under an existing track, sound on main / existing / just-created / just-created nested track, modulator), and a third of the tracks that hold a probe are paused at some gap; the log of reads must be exactly the last token of every burst, once, in the callback that follows, and on_start_processing must run once per callback from the first one. P: a static ramp sound receives bursts of seek_to / seek_by: the audible index must jump exactly once, in the first 4 frames of the next callback, by the last command's amount (3 frames slack), and never otherwise; a streaming sound receives seek and loop-region bursts while its decoder gets 0..130 steps per gap (hook H2): the indices it delivers must equal a reference transport that applies the last command of each kind at its next step. K: clock start / pause / stop / set_speed bursts against a reference clock (reported time and ticking flag after every callback) and tweener set() bursts observed through a parameter linked to it (1e-9). R: a writer thread publishes 200..20000 self-checking values through one CommandWriter while this thread polls the reader with generated spin patterns: values read are untorn, strictly newer than the previous one, and the last write is read. H: a gameplay thread plays a DC sound and raises sound and track volume monotonically while this thread runs callbacks: the output never decreases, stays in range, and ends at exactly the last written value. S: for each of 43 setters (sound / streaming sound volume, panning, playback rate; track volume and send; send-track and main volume; spatial position, strength, volume; listener position and orientation; every setter of filter, EQ, delay, reverb, compressor, distortion, panning and volume control; tweener set; LFO amplitude, offset, frequency, waveform) a scene built with value A receives the setter with B - alone or as the last of a burst, before the first or a later callback, instantly or with a tween of up to 4096 frames - and, once the tween and the effect memory have run out (0.75 s, reverb 3 s), its steady state (RMS, mean, sign changes per channel over 4096 frames; 1 %, LFO 6 %) must equal that of a scene built with B; the case counts only if the same measure tells A and B apart. Non-trivial = a burst of one kind within a gap, a command while a tween is active, a command before the resource's first callback, a decoder step later than the next callback, (R, H) reads / callbacks that really interleaved with the writes, or (S) a setter whose two values are told apart; distinct = distinct decoded choices."
	}
	fn assumptions(&self) -> Vec<String> {
		vec![
			"the triple buffer itself is an external crate; interleavings inside one write or read are only reached by the real-thread families R and H, whose schedule is the operating system's (generated spin patterns vary it); no yield-point hook (H3) was added".into(),
			"pause / resume / stop and start / pause / stop are separate command kinds read in a fixed order; only per-kind last-write-wins is asserted".into(),
			"static seek positions are checked to 3 frames (exact positions are C04's business)".into(),
		]
	}
	fn tape_len(&self, _tier: Tier) -> usize {
		160
	}
	fn cases(&self, tier: Tier) -> u64 {
		tier.pick(40_000, 1_000_000)
	}
	fn case_time_limit_s(&self) -> u64 {
		60
	}

	fn run(&self, tape: &[u32], ctx: &mut Ctx) -> CaseResult {
		let mut src = Src::new(tape);
		let family = src.weighted(&[6, 6, 3, 5, 1, 1, 2]);
		// (debugging aid: KVERIF_C07_FAMILY=<n> forces one family)
		let family = std::env::var("KVERIF_C07_FAMILY").ok().and_then(|v| v.parse().ok()).unwrap_or(family);
		let o = match family {
			0 => {
				let c = gen_volumes(&mut src);
				ctx.describe(|| format!("{c:?}"));
				run_volumes(&c)?
			}
			1 => {
				let c = gen_tokens(&mut src);
				ctx.describe(|| format!("{c:?}"));
				run_tokens(&c)?
			}
			2 => {
				let c = gen_positions(&mut src);
				ctx.describe(|| format!("{c:?}"));
				run_positions(&c)?
			}
			3 => {
				let c = gen_clock(&mut src);
				ctx.describe(|| format!("{c:?}"));
				run_clock(&c)?
			}
			4 => {
				let c = gen_raw(&mut src);
				ctx.describe(|| format!("{c:?}"));
				run_raw(&c)?
			}
			5 => {
				let c = gen_handle_race(&mut src);
				ctx.describe(|| format!("{c:?}"));
				run_handle_race(&c)?
			}
			_ => {
				let c = super::c07s::gen(&mut src);
				ctx.describe(|| format!("{c:?}"));
				let told_apart = super::c07s::run(&c)?;
				let mut classes = vec!["setter-vs-built", SETTER_CLASS[super::c07s::ALL.iter().position(|k| *k == c.kind).unwrap_or(0)]];
				if !c.decoys.is_empty() {
					classes.push("burst-of-same-kind");
				}
				if c.pre == 0 {
					classes.push("command-before-first-callback");
				}
				if told_apart {
					classes.push("setter-vs-built:told-apart");
				}
				Outcome { nontrivial: told_apart, classes }
			}
		};
		Ok(CaseInfo::new(&src, o.nontrivial, o.classes))
	}
}
