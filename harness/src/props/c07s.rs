//! C07, family S: every setter of every handle type, by a metamorphic relation.
//!
//! Scene built with value A, setter called with B (once or as the last of a burst, before the
//! first callback or later, instantly or with a tween)  ==  scene built with B, once the tween
//! and the effect's memory have run out. The steady state is measured (RMS / mean / sign
//! changes per channel over a window) and must also differ between A and B for the case to
//! count as non-trivial, so a setter that does nothing cannot hide behind a parameter that
//! does nothing.

use crate::engine::{Failure, Src};
use crate::probes::{default_manager, streamctl, Mgr, ProbeEffectBuilder, ProbeKind, ScriptDecoder};
use kira::effect::compressor::CompressorBuilder;
use kira::effect::delay::DelayBuilder;
use kira::effect::distortion::{DistortionBuilder, DistortionKind};
use kira::effect::eq_filter::{EqFilterBuilder, EqFilterKind};
use kira::effect::filter::{FilterBuilder, FilterMode};
use kira::effect::panning_control::PanningControlBuilder;
use kira::effect::reverb::ReverbBuilder;
use kira::effect::volume_control::VolumeControlBuilder;
use kira::listener::ListenerHandle;
use kira::modulator::lfo::{LfoBuilder, Waveform};
use kira::modulator::tweener::TweenerBuilder;
use kira::sound::static_sound::{StaticSoundData, StaticSoundSettings};
use kira::sound::streaming::{StreamingSoundData, StreamingSoundSettings};

use kira::track::{SendTrackBuilder, SpatialTrackBuilder, TrackBuilder};
use kira::{Decibels, Easing, Frame, Mapping, Mix, Panning, PlaybackRate, StartTime, Tween, Value};
use std::any::Any;
use std::sync::Arc;
use std::time::Duration;

const RATE: u32 = 16384;

#[derive(Debug, Clone, Copy, PartialEq)]
pub enum SKind {
	SoundVolume,
	SoundPanning,
	SoundRate,
	StreamVolume,
	StreamPanning,
	StreamRate,
	TrackVolume,
	TrackSend,
	SendVolume,
	MainVolume,
	SpatialPosition,
	SpatialStrength,
	SpatialVolume,
	ListenerPosition,
	ListenerOrientation,
	FilterMode,
	FilterCutoff,
	FilterResonance,
	FilterMix,
	EqKind,
	EqFrequency,
	EqGain,
	EqQ,
	DelayFeedback,
	DelayMix,
	ReverbFeedback,
	ReverbDamping,
	ReverbWidth,
	ReverbMix,
	CompThreshold,
	CompRatio,
	CompMakeup,
	CompMix,
	DistKind,
	DistDrive,
	DistMix,
	PanControl,
	VolControl,
	TweenerSet,
	LfoAmplitude,
	LfoOffset,
	LfoFrequency,
	LfoWaveform,
}

pub const ALL: [SKind; 43] = [
	SKind::SoundVolume,
	SKind::SoundPanning,
	SKind::SoundRate,
	SKind::StreamVolume,
	SKind::StreamPanning,
	SKind::StreamRate,
	SKind::TrackVolume,
	SKind::TrackSend,
	SKind::SendVolume,
	SKind::MainVolume,
	SKind::SpatialPosition,
	SKind::SpatialStrength,
	SKind::SpatialVolume,
	SKind::ListenerPosition,
	SKind::ListenerOrientation,
	SKind::FilterMode,
	SKind::FilterCutoff,
	SKind::FilterResonance,
	SKind::FilterMix,
	SKind::EqKind,
	SKind::EqFrequency,
	SKind::EqGain,
	SKind::EqQ,
	SKind::DelayFeedback,
	SKind::DelayMix,
	SKind::ReverbFeedback,
	SKind::ReverbDamping,
	SKind::ReverbWidth,
	SKind::ReverbMix,
	SKind::CompThreshold,
	SKind::CompRatio,
	SKind::CompMakeup,
	SKind::CompMix,
	SKind::DistKind,
	SKind::DistDrive,
	SKind::DistMix,
	SKind::PanControl,
	SKind::VolControl,
	SKind::TweenerSet,
	SKind::LfoAmplitude,
	SKind::LfoOffset,
	SKind::LfoFrequency,
	SKind::LfoWaveform,
];

/// candidate values of the parameter (coded as f64; enums by index)
fn values(k: SKind) -> &'static [f64] {
	use SKind::*;
	match k {
		SoundVolume | StreamVolume | TrackVolume | TrackSend | SendVolume | MainVolume | SpatialVolume | VolControl | CompMakeup => &[-3.0, -12.0, -24.0, -7.5],
		SoundPanning | StreamPanning | PanControl => &[-0.8, 0.6, 0.0, 1.0],
		SoundRate | StreamRate => &[1.0, 0.5, 2.0, 1.5],
		// x coordinate of the emitter / listener (the other one sits at the origin)
		SpatialPosition | ListenerPosition => &[3.0, -6.0, 12.0, -1.5],
		SpatialStrength => &[1.0, 0.0, 0.5, 0.25],
		// yaw in quarter turns
		ListenerOrientation => &[0.0, 1.0, 2.0, 3.0],
		FilterMode | EqKind | DistKind | LfoWaveform => &[0.0, 1.0, 2.0],
		FilterCutoff | EqFrequency => &[300.0, 3000.0, 1000.0, 120.0],
		FilterResonance => &[0.0, 0.9, 0.5, 0.7],
		FilterMix | DelayMix | ReverbMix | CompMix | DistMix => &[1.0, 0.2, 0.6, 0.0],
		EqGain => &[12.0, -12.0, 6.0, -3.0],
		EqQ => &[0.5, 4.0, 1.0, 2.0],
		DelayFeedback => &[-3.0, -20.0, -9.0, -40.0],
		ReverbFeedback => &[0.9, 0.3, 0.7, 0.5],
		ReverbDamping => &[0.1, 0.9, 0.5, 0.3],
		ReverbWidth => &[1.0, 0.0, 0.5, 0.25],
		CompThreshold => &[-30.0, -6.0, -18.0, -12.0],
		CompRatio => &[8.0, 1.0, 2.0, 4.0],
		DistDrive => &[24.0, 0.0, 12.0, 6.0],
		TweenerSet => &[0.25, 1.0, 0.5, 0.75],
		LfoAmplitude => &[0.25, 1.0, 0.5, 2.0],
		LfoOffset => &[0.0, 1.0, -0.5, 3.0],
		// (whole periods per 4096-frame window, and at least four internal buffers per period)
		LfoFrequency => &[8.0, 32.0, 16.0, 24.0],
	}
}

#[derive(Debug, Clone)]
pub struct SCase {
	pub kind: SKind,
	pub a: f64,
	pub b: f64,
	/// values written in the same gap before `b`
	pub decoys: Vec<f64>,
	/// number of callbacks before the setter is called (0: before the first callback)
	pub pre: usize,
	pub tween_frames: usize,
	pub buf: usize,
	pub callback: usize,
}

pub fn gen(src: &mut Src) -> SCase {
	let kind = ALL[src.index(ALL.len())];
	let vals = values(kind);
	let ia = src.index(vals.len());
	let ib = (ia + 1 + src.index(vals.len() - 1)) % vals.len();
	let decoys = (0..src.weighted(&[3, 2, 1])).map(|_| vals[src.index(vals.len())]).collect();
	SCase {
		kind,
		a: vals[ia],
		b: vals[ib],
		decoys,
		pre: src.pick(&[0usize, 3, 1, 17]),
		tween_frames: src.pick(&[0usize, 4096, 700, 1]),
		buf: src.pick(&[64usize, 16, 128, 1]),
		callback: src.pick(&[256usize, 100, 64, 333]),
	}
}

type Setter = Box<dyn FnMut(f64, Tween)>;

struct Scene {
	mgr: Mgr,
	set: Setter,
	stream: Option<(usize, Arc<crate::probes::DecoderLog>)>,
	_keep: Vec<Box<dyn Any>>,
}

fn sine() -> Arc<[Frame]> {
	// 512 Hz at 16384 Hz: 32 frames per period, 4096 frames loop seamlessly; the two channels differ
	(0..4096)
		.map(|i| {
			let p = i as f64 / 32.0 * std::f64::consts::TAU;
			Frame::new((0.5 * p.sin()) as f32, (0.3 * (p + 0.7).sin()) as f32)
		})
		.collect::<Vec<_>>()
		.into()
}

fn static_sine(volume: f64, panning: f64, rate: f64) -> StaticSoundData {
	StaticSoundData {
		sample_rate: RATE,
		frames: sine(),
		settings: StaticSoundSettings::new().loop_region(..).volume(Decibels(volume as f32)).panning(Panning(panning as f32)).playback_rate(PlaybackRate(rate)),
		slice: None,
	}
}

fn filter_mode(x: f64) -> FilterMode {
	[FilterMode::LowPass, FilterMode::HighPass, FilterMode::BandPass][x as usize % 3]
}
fn eq_kind(x: f64) -> EqFilterKind {
	[EqFilterKind::Bell, EqFilterKind::LowShelf, EqFilterKind::HighShelf][x as usize % 3]
}
fn dist_kind(x: f64) -> DistortionKind {
	[DistortionKind::HardClip, DistortionKind::SoftClip][x as usize % 2]
}
fn waveform(x: f64) -> Waveform {
	[Waveform::Sine, Waveform::Saw, Waveform::Pulse { width: 0.25 }][x as usize % 3]
}
fn yaw(x: f64) -> glam::Quat {
	glam::Quat::from_rotation_y((x * std::f64::consts::FRAC_PI_2) as f32)
}
fn wide() -> Mapping<f64> {
	Mapping {
		input_range: (-1000.0, 1000.0),
		output_range: (-1000.0, 1000.0),
		easing: Easing::Linear,
	}
}

fn build(c: &SCase, v: f64) -> Result<Scene, Failure> {
	use SKind::*;
	let err = |what: &str| Failure::simple("setup", what.to_string());
	let mut mgr = default_manager(RATE, c.buf);
	let mut keep: Vec<Box<dyn Any>> = vec![];
	let mut stream = None;
	let db = |x: f64| Decibels(x as f32);
	let set: Setter = match c.kind {
		SoundVolume | SoundPanning | SoundRate => {
			let (vol, pan, rate) = match c.kind {
				SoundVolume => (v, 0.3, 1.0),
				SoundPanning => (-6.0, v, 1.0),
				_ => (-6.0, 0.3, v),
			};
			let mut h = mgr.play(static_sine(vol, pan, rate)).map_err(|_| err("play"))?;
			match c.kind {
				SoundVolume => Box::new(move |x, t| h.set_volume(db(x), t)),
				SoundPanning => Box::new(move |x, t| h.set_panning(Panning(x as f32), t)),
				_ => Box::new(move |x, t| h.set_playback_rate(PlaybackRate(x), t)),
			}
		}
		StreamVolume | StreamPanning | StreamRate => {
			let (vol, pan, rate) = match c.kind {
				StreamVolume => (v, 0.3, 1.0),
				StreamPanning => (-6.0, v, 1.0),
				_ => (-6.0, 0.3, v),
			};
			let (dec, log) = ScriptDecoder::new(sine(), RATE);
			let mark = streamctl::mark();
			let data = StreamingSoundData::from_decoder(dec).with_settings(StreamingSoundSettings::new().loop_region(..).volume(db(vol)).panning(Panning(pan as f32)).playback_rate(PlaybackRate(rate)));
			let mut h = mgr.play(data).map_err(|_| err("play stream"))?;
			let id = h.verif_id();
			streamctl::adopt(id, mark);
			stream = Some((id, log));
			match c.kind {
				StreamVolume => Box::new(move |x, t| h.set_volume(db(x), t)),
				StreamPanning => Box::new(move |x, t| h.set_panning(Panning(x as f32), t)),
				_ => Box::new(move |x, t| h.set_playback_rate(PlaybackRate(x), t)),
			}
		}
		TrackVolume => {
			let mut tr = mgr.add_sub_track(TrackBuilder::new().volume(db(v))).map_err(|_| err("track"))?;
			keep.push(Box::new(tr.play(static_sine(-6.0, 0.3, 1.0)).map_err(|_| err("play"))?));
			Box::new(move |x, t| tr.set_volume(db(x), t))
		}
		TrackSend | SendVolume => {
			let (route, send_vol) = if c.kind == TrackSend { (v, -3.0) } else { (-3.0, v) };
			let mut send = mgr.add_send_track(SendTrackBuilder::new().volume(db(send_vol)).with_effect(PanningControlBuilder(Value::Fixed(Panning(-1.0))))).map_err(|_| err("send"))?;
			let sid = send.id();
			let mut tr = mgr.add_sub_track(TrackBuilder::new().volume(db(-20.0)).with_send(sid, db(route))).map_err(|_| err("track"))?;
			keep.push(Box::new(tr.play(static_sine(-6.0, 0.0, 1.0)).map_err(|_| err("play"))?));
			if c.kind == TrackSend {
				keep.push(Box::new(send));
				Box::new(move |x, t| {
					let _ = tr.set_send(sid, db(x), t);
				})
			} else {
				keep.push(Box::new(tr));
				Box::new(move |x, t| send.set_volume(db(x), t))
			}
		}
		MainVolume => {
			mgr.main_track().set_volume(db(v), Tween { duration: Duration::ZERO, ..Default::default() });
			keep.push(Box::new(mgr.play(static_sine(-6.0, 0.3, 1.0)).map_err(|_| err("play"))?));
			// (the manager owns the main track handle: the setter is applied by the caller)
			Box::new(|_, _| {})
		}
		SpatialPosition | SpatialStrength | SpatialVolume | ListenerPosition | ListenerOrientation => {
			let (lpos, lrot, epos, strength, vol) = match c.kind {
				SpatialPosition => ([0.0, 0.0, 0.0], 0.0, [v as f32, 0.0, 2.0], 0.8, -3.0),
				SpatialStrength => ([0.0, 0.0, 0.0], 0.0, [4.0, 0.0, 1.0], v, -3.0),
				SpatialVolume => ([0.0, 0.0, 0.0], 0.0, [4.0, 0.0, 1.0], 0.8, v),
				ListenerPosition => ([v as f32, 0.0, 0.0], 0.0, [0.5, 0.0, 2.0], 0.8, -3.0),
				_ => ([0.0, 0.0, 0.0], v, [4.0, 0.0, 1.0], 0.8, -3.0),
			};
			let mut listener: ListenerHandle = mgr.add_listener(glam::Vec3::from_array(lpos), yaw(lrot)).map_err(|_| err("listener"))?;
			let b = SpatialTrackBuilder::new().distances((1.0, 30.0)).spatialization_strength(strength as f32).volume(db(vol));
			let mut tr = mgr.add_spatial_sub_track(listener.id(), glam::Vec3::from_array(epos), b).map_err(|_| err("spatial track"))?;
			keep.push(Box::new(tr.play(static_sine(-6.0, 0.0, 1.0)).map_err(|_| err("play"))?));
			match c.kind {
				SpatialPosition => {
					keep.push(Box::new(listener));
					Box::new(move |x, t| tr.set_position(glam::Vec3::new(x as f32, 0.0, 2.0), t))
				}
				SpatialStrength => {
					keep.push(Box::new(listener));
					Box::new(move |x, t| tr.set_spatialization_strength(x as f32, t))
				}
				SpatialVolume => {
					keep.push(Box::new(listener));
					Box::new(move |x, t| tr.set_volume(db(x), t))
				}
				ListenerPosition => {
					keep.push(Box::new(tr));
					Box::new(move |x, t| listener.set_position(glam::Vec3::new(x as f32, 0.0, 0.0), t))
				}
				_ => {
					keep.push(Box::new(tr));
					Box::new(move |x, t| listener.set_orientation(yaw(x), t))
				}
			}
		}
		FilterMode | FilterCutoff | FilterResonance | FilterMix => {
			let (mode, cutoff, res, mix) = match c.kind {
				FilterMode => (v, 700.0, 0.3, 1.0),
				FilterCutoff => (0.0, v, 0.3, 1.0),
				FilterResonance => (2.0, 512.0, v, 1.0),
				_ => (0.0, 150.0, 0.2, v),
			};
			let mut tb = TrackBuilder::new();
			let mut h = tb.add_effect(FilterBuilder::new().mode(filter_mode(mode)).cutoff(cutoff).resonance(res).mix(Mix(mix as f32)));
			let mut tr = mgr.add_sub_track(tb).map_err(|_| err("track"))?;
			keep.push(Box::new(tr.play(static_sine(-6.0, 0.3, 1.0)).map_err(|_| err("play"))?));
			keep.push(Box::new(tr));
			match c.kind {
				FilterMode => Box::new(move |x, _| h.set_mode(filter_mode(x))),
				FilterCutoff => Box::new(move |x, t| h.set_cutoff(x, t)),
				FilterResonance => Box::new(move |x, t| h.set_resonance(x, t)),
				_ => Box::new(move |x, t| h.set_mix(Mix(x as f32), t)),
			}
		}
		EqKind | EqFrequency | EqGain | EqQ => {
			let (kind, freq, gain, q) = match c.kind {
				EqKind => (v, 1500.0, 12.0, 1.0),
				EqFrequency => (0.0, v, 12.0, 2.0),
				EqGain => (0.0, 512.0, v, 1.0),
				_ => (0.0, 800.0, 12.0, v),
			};
			let mut tb = TrackBuilder::new();
			let mut h = tb.add_effect(EqFilterBuilder::new(eq_kind(kind), freq, db(gain), q));
			let mut tr = mgr.add_sub_track(tb).map_err(|_| err("track"))?;
			keep.push(Box::new(tr.play(static_sine(-12.0, 0.3, 1.0)).map_err(|_| err("play"))?));
			keep.push(Box::new(tr));
			match c.kind {
				EqKind => Box::new(move |x, _| h.set_kind(eq_kind(x))),
				EqFrequency => Box::new(move |x, t| h.set_frequency(x, t)),
				EqGain => Box::new(move |x, t| h.set_gain(db(x), t)),
				_ => Box::new(move |x, t| h.set_q(x, t)),
			}
		}
		DelayFeedback | DelayMix => {
			let (fb, mix) = if c.kind == DelayFeedback { (v, 0.5) } else { (-6.0, v) };
			let mut tb = TrackBuilder::new();
			// 10.5 periods of the sine: the echo arrives in antiphase
			let mut h = tb.add_effect(DelayBuilder::new().delay_time(Duration::from_secs_f64(336.0 / RATE as f64)).feedback(db(fb)).mix(Mix(mix as f32)));
			let mut tr = mgr.add_sub_track(tb).map_err(|_| err("track"))?;
			keep.push(Box::new(tr.play(static_sine(-12.0, 0.3, 1.0)).map_err(|_| err("play"))?));
			keep.push(Box::new(tr));
			if c.kind == DelayFeedback {
				Box::new(move |x, t| h.set_feedback(db(x), t))
			} else {
				Box::new(move |x, t| h.set_mix(Mix(x as f32), t))
			}
		}
		ReverbFeedback | ReverbDamping | ReverbWidth | ReverbMix => {
			let (fb, damp, width, mix) = match c.kind {
				ReverbFeedback => (v, 0.3, 1.0, 0.7),
				ReverbDamping => (0.8, v, 1.0, 0.7),
				ReverbWidth => (0.7, 0.3, v, 0.9),
				_ => (0.7, 0.3, 1.0, v),
			};
			let mut tb = TrackBuilder::new();
			let mut h = tb.add_effect(ReverbBuilder::new().feedback(fb).damping(damp).stereo_width(width).mix(Mix(mix as f32)));
			let mut tr = mgr.add_sub_track(tb).map_err(|_| err("track"))?;
			keep.push(Box::new(tr.play(static_sine(-20.0, -0.7, 1.0)).map_err(|_| err("play"))?));
			keep.push(Box::new(tr));
			match c.kind {
				ReverbFeedback => Box::new(move |x, t| h.set_feedback(x, t)),
				ReverbDamping => Box::new(move |x, t| h.set_damping(x, t)),
				ReverbWidth => Box::new(move |x, t| h.set_stereo_width(x, t)),
				_ => Box::new(move |x, t| h.set_mix(Mix(x as f32), t)),
			}
		}
		CompThreshold | CompRatio | CompMakeup | CompMix => {
			let (th, ratio, makeup, mix) = match c.kind {
				CompThreshold => (v, 6.0, 0.0, 1.0),
				CompRatio => (-30.0, v, 0.0, 1.0),
				CompMakeup => (-20.0, 4.0, v, 1.0),
				_ => (-30.0, 8.0, 0.0, v),
			};
			let mut tb = TrackBuilder::new();
			let mut h = tb.add_effect(CompressorBuilder::new().threshold(th).ratio(ratio).makeup_gain(db(makeup)).mix(Mix(mix as f32)).attack_duration(Duration::from_millis(5)).release_duration(Duration::from_millis(20)));
			let mut tr = mgr.add_sub_track(tb).map_err(|_| err("track"))?;
			keep.push(Box::new(tr.play(static_sine(-3.0, 0.3, 1.0)).map_err(|_| err("play"))?));
			keep.push(Box::new(tr));
			match c.kind {
				CompThreshold => Box::new(move |x, t| h.set_threshold(x, t)),
				CompRatio => Box::new(move |x, t| h.set_ratio(x, t)),
				CompMakeup => Box::new(move |x, t| h.set_makeup_gain(db(x), t)),
				_ => Box::new(move |x, t| h.set_mix(Mix(x as f32), t)),
			}
		}
		DistKind | DistDrive | DistMix => {
			let (kind, drive, mix) = match c.kind {
				DistKind => (v, 18.0, 1.0),
				DistDrive => (1.0, v, 1.0),
				_ => (0.0, 24.0, v),
			};
			let mut tb = TrackBuilder::new();
			let mut h = tb.add_effect(DistortionBuilder::new().kind(dist_kind(kind)).drive(db(drive)).mix(Mix(mix as f32)));
			let mut tr = mgr.add_sub_track(tb).map_err(|_| err("track"))?;
			keep.push(Box::new(tr.play(static_sine(-6.0, 0.3, 1.0)).map_err(|_| err("play"))?));
			keep.push(Box::new(tr));
			match c.kind {
				DistKind => Box::new(move |x, _| h.set_kind(dist_kind(x))),
				DistDrive => Box::new(move |x, t| h.set_drive(db(x), t)),
				_ => Box::new(move |x, t| h.set_mix(Mix(x as f32), t)),
			}
		}
		PanControl => {
			let mut tb = TrackBuilder::new();
			let mut h = tb.add_effect(PanningControlBuilder(Value::Fixed(Panning(v as f32))));
			let mut tr = mgr.add_sub_track(tb).map_err(|_| err("track"))?;
			keep.push(Box::new(tr.play(static_sine(-6.0, 0.0, 1.0)).map_err(|_| err("play"))?));
			keep.push(Box::new(tr));
			Box::new(move |x, t| h.set_panning(Panning(x as f32), t))
		}
		VolControl => {
			let mut tb = TrackBuilder::new();
			let mut h = tb.add_effect(VolumeControlBuilder::new(db(v)));
			let mut tr = mgr.add_sub_track(tb).map_err(|_| err("track"))?;
			keep.push(Box::new(tr.play(static_sine(-6.0, 0.3, 1.0)).map_err(|_| err("play"))?));
			keep.push(Box::new(tr));
			Box::new(move |x, t| h.set_volume(db(x), t))
		}
		TweenerSet | LfoAmplitude | LfoOffset | LfoFrequency | LfoWaveform => {
			// the modulator's value is made audible by a probe effect whose parameter follows it
			let (id, set): (_, Setter) = if c.kind == TweenerSet {
				let mut h = mgr.add_modulator(TweenerBuilder { initial_value: v }).map_err(|_| err("tweener"))?;
				(h.id(), Box::new(move |x, t| h.set(x, t)))
			} else {
				let (amp, off, freq, wave) = match c.kind {
					LfoAmplitude => (v, 0.25, 16.0, 0.0),
					LfoOffset => (0.5, v, 16.0, 0.0),
					LfoFrequency => (0.5, 0.0, v, 0.0),
					_ => (0.5, 0.0, 16.0, v),
				};
				let mut h = mgr.add_modulator(LfoBuilder::new().amplitude(amp).offset(off).frequency(freq).waveform(waveform(wave))).map_err(|_| err("lfo"))?;
				let id = h.id();
				let set: Setter = match c.kind {
					LfoAmplitude => Box::new(move |x, t| h.set_amplitude(x, t)),
					LfoOffset => Box::new(move |x, t| h.set_offset(x, t)),
					LfoFrequency => Box::new(move |x, t| h.set_frequency(x, t)),
					_ => Box::new(move |x, _| h.set_waveform(waveform(x))),
				};
				(id, set)
			};
			let mut tb = TrackBuilder::new();
			keep.push(Box::new(tb.add_effect(ProbeEffectBuilder::new(ProbeKind::EmitParam).param(Value::FromModulator { id, mapping: wide() }))));
			// (the probe's output is scaled down so the renderer's clamp stays out of the way)
			tb.add_effect(VolumeControlBuilder::new(db(-20.0)));
			keep.push(Box::new(mgr.add_sub_track(tb).map_err(|_| err("track"))?));
			set
		}
	};
	Ok(Scene { mgr, set, stream, _keep: keep })
}

#[derive(Debug, Clone, Copy)]
struct Measure {
	rms: [f64; 2],
	mean: [f64; 2],
	/// sign changes of (left - mean)
	crossings: f64,
}

impl Measure {
	fn differs(&self, o: &Measure, scale: f64) -> Option<String> {
		self.differs2(o, scale, scale.min(1.5))
	}
	fn differs2(&self, o: &Measure, scale: f64, cross_scale: f64) -> Option<String> {
		let tol = |y: f64| scale * 0.01 * y.abs().max(0.005);
		for ch in 0..2 {
			if (self.rms[ch] - o.rms[ch]).abs() > tol(o.rms[ch].max(self.rms[ch])) {
				return Some(format!("rms of channel {ch}: {} vs {}", self.rms[ch], o.rms[ch]));
			}
			if (self.mean[ch] - o.mean[ch]).abs() > tol(o.rms[ch].max(self.rms[ch])) {
				return Some(format!("mean of channel {ch}: {} vs {}", self.mean[ch], o.mean[ch]));
			}
		}
		if (self.crossings - o.crossings).abs() > cross_scale * (2.0 + 0.01 * o.crossings) {
			return Some(format!("sign changes: {} vs {}", self.crossings, o.crossings));
		}
		None
	}
}

const WINDOW: usize = 4096;

/// frames granted to the effect's memory after the tween has ended
fn settle(k: SKind) -> usize {
	match k {
		// (freeverb's combs lose about 5 % per 30 ms pass at the highest feedback used here)
		SKind::ReverbFeedback | SKind::ReverbDamping | SKind::ReverbWidth | SKind::ReverbMix => 3 * RATE as usize,
		_ => 3 * RATE as usize / 4,
	}
}

/// tolerance factor: the probe effect renders an LFO as a polyline with one vertex per internal
/// buffer, so its RMS depends a little on how the waveform falls on the buffer grid
fn slack(k: SKind) -> f64 {
	match k {
		SKind::LfoFrequency | SKind::LfoWaveform | SKind::LfoAmplitude | SKind::LfoOffset => 6.0,
		_ => 1.0,
	}
}

/// Renders the scene; `change`: (callbacks before the setter calls, values to set in order, tween)
fn render(c: &SCase, init: f64, change: Option<(&[f64], Tween)>) -> Result<Measure, Failure> {
	let mut scene = build(c, init)?;
	let total = c.pre * c.callback + c.tween_frames + settle(c.kind) + WINDOW;
	let mut out: Vec<(f32, f32)> = Vec::with_capacity(total + c.callback);
	let mut k = 0;
	while out.len() < total {
		if k == c.pre {
			if let Some((vals, tween)) = &change {
				for x in vals.iter() {
					if c.kind == SKind::MainVolume {
						scene.mgr.main_track().set_volume(Decibels(*x as f32), *tween);
					} else {
						(scene.set)(*x, *tween);
					}
				}
			}
		}
		k += 1;
		if let Some((id, log)) = &scene.stream {
			streamctl::settle(&[(*id, log.clone())])?;
			streamctl::set_callback_active(true);
		}
		let cb = scene.mgr.backend_mut().callback(c.callback, 2);
		if scene.stream.is_some() {
			streamctl::set_callback_active(false);
		}
		if let Some(p) = &cb.guard.panic {
			return Err(Failure::panic("", p));
		}
		for i in 0..c.callback {
			out.push(cb.frame(i, 2));
		}
	}
	let w = &out[total - WINDOW..total];
	let mean = [w.iter().map(|f| f.0 as f64).sum::<f64>() / WINDOW as f64, w.iter().map(|f| f.1 as f64).sum::<f64>() / WINDOW as f64];
	let rms = [(w.iter().map(|f| (f.0 as f64).powi(2)).sum::<f64>() / WINDOW as f64).sqrt(), (w.iter().map(|f| (f.1 as f64).powi(2)).sum::<f64>() / WINDOW as f64).sqrt()];
	let mut crossings = 0.0;
	for p in w.windows(2) {
		if ((p[0].0 as f64 - mean[0]) < 0.0) != ((p[1].0 as f64 - mean[0]) < 0.0) {
			crossings += 1.0;
		}
	}
	Ok(Measure { rms, mean, crossings })
}

/// Ok(non-trivial): the relation held; non-trivial when A and B are told apart by the measure.
pub fn run(c: &SCase) -> Result<bool, Failure> {
	let streaming = matches!(c.kind, SKind::StreamVolume | SKind::StreamPanning | SKind::StreamRate);
	if streaming {
		streamctl::install();
		streamctl::set_callback_active(false);
	}
	let r = run_inner(c);
	if streaming {
		streamctl::set_callback_active(false);
		streamctl::abandon_all();
	}
	r
}

fn run_inner(c: &SCase) -> Result<bool, Failure> {
	let tween = Tween {
		start_time: StartTime::Immediate,
		duration: Duration::from_secs_f64(c.tween_frames as f64 / RATE as f64),
		easing: Easing::Linear,
	};
	let only_a = render(c, c.a, None)?;
	let only_b = render(c, c.b, None)?;
	let mut vals = c.decoys.clone();
	vals.push(c.b);
	let a_then_b = render(c, c.a, Some((&vals, tween)))?;
	if let Some(d) = a_then_b.differs(&only_b, slack(c.kind)) {
		let sig = format!("setter-takes-effect-once-last-wins:{:?}", c.kind);
		let told_apart = only_a.differs(&only_b, slack(c.kind));
		return Err(Failure::new(
			"setter-takes-effect-once-last-wins",
			sig,
			format!(
				"{:?}: built with {} and set to {:?} (tween {} frames, before callback {}), {} s later the steady state differs from a scene built with {}: {d}; built-with-A vs built-with-B: {:?}; case {c:?}",
				c.kind,
				c.a,
				vals,
				c.tween_frames,
				c.pre,
				settle(c.kind) as f64 / RATE as f64,
				c.b,
				told_apart
			),
		));
	}
	Ok(only_a.differs(&only_b, 4.0 * slack(c.kind)).is_some())
}
