//! C08 - resource life cycle: exact capacity accounting, prompt removal, no stale ids.

use crate::engine::monitor;
use crate::engine::{CaseInfo, CaseResult, Ctx, Failure, Property, Src, Tier};
use crate::ensure;
use crate::probes::{manager, Mgr, ProbeEffectBuilder, ProbeKind, ProbeSoundData, ProbeSoundHandle, Signal};
use glam::{Quat, Vec3};
use kira::clock::{ClockHandle, ClockSpeed, ClockTime};
use kira::listener::ListenerHandle;
use kira::modulator::lfo::{LfoBuilder, LfoHandle};
use kira::modulator::tweener::{TweenerBuilder, TweenerHandle};
use kira::sound::static_sound::{StaticSoundData, StaticSoundSettings};
use kira::sound::PlaybackState;
use kira::track::{MainTrackBuilder, SendTrackBuilder, SendTrackHandle, SpatialTrackBuilder, TrackBuilder, TrackHandle};
use kira::{Capacities, Decibels, Frame, Mapping, StartTime, Value};
use std::sync::atomic::Ordering;
use std::sync::Arc;

pub struct C08;

#[derive(Debug, Clone, Copy, PartialEq, Eq)]
enum Kind {
	MainSound,
	TrackSound,
	TopTrack,
	SubTrack,
	Send,
	Clock,
	Tweener,
	Lfo,
	Listener,
}

#[derive(Debug, Clone, PartialEq)]
enum Op {
	/// play a sound whose conversion fails (a streaming sound whose decoder fails its first
	/// seek) on the main track (owner 0) or on a track: nothing is created, no slot is used
	FailingPlay(usize),
	/// create a resource; `owner`: index into the list of created tracks (for TrackSound / SubTrack)
	Create(Kind, usize),
	/// drop the handle of the i-th created resource (marks it for removal; a sound keeps playing)
	Drop(usize),
	/// make the i-th created resource (a probe sound) report finished
	Finish(usize),
	Callback(usize),
}

#[derive(Debug, Clone)]
struct Case {
	caps: [usize; 7], // sub tracks, sends, clocks, modulators, listeners, main sounds, per-track (sounds and sub-tracks)
	ibs: usize,
	ops: Vec<Op>,
}

#[derive(Debug, Clone, Copy, PartialEq)]
enum Place {
	Queued,
	Live,
	Gone,
	/// creation was refused
	Refused,
}

#[derive(Debug, Clone)]
struct Res {
	kind: Kind,
	/// owning track (index into `res`) for TrackSound / SubTrack
	owner: Option<usize>,
	place: Place,
	marked: bool,
}

struct Model {
	res: Vec<Res>,
	caps: [usize; 7],
}

#[derive(Debug, Clone, Copy, PartialEq, Eq, Hash)]
enum Pool {
	TopTracks,
	Sends,
	Clocks,
	Modulators,
	Listeners,
	MainSounds,
	TrackSounds(usize),
	SubTracks(usize),
}

impl Model {
	fn pool_of(&self, r: &Res) -> Pool {
		match r.kind {
			Kind::MainSound => Pool::MainSounds,
			Kind::TrackSound => Pool::TrackSounds(r.owner.unwrap()),
			Kind::TopTrack => Pool::TopTracks,
			Kind::SubTrack => Pool::SubTracks(r.owner.unwrap()),
			Kind::Send => Pool::Sends,
			Kind::Clock => Pool::Clocks,
			Kind::Tweener | Kind::Lfo => Pool::Modulators,
			Kind::Listener => Pool::Listeners,
		}
	}
	fn capacity(&self, p: Pool) -> usize {
		match p {
			Pool::TopTracks => self.caps[0],
			Pool::Sends => self.caps[1],
			Pool::Clocks => self.caps[2],
			Pool::Modulators => self.caps[3],
			Pool::Listeners => self.caps[4],
			Pool::MainSounds => self.caps[5],
			Pool::TrackSounds(_) | Pool::SubTracks(_) => self.caps[6],
		}
	}
	fn count(&self, p: Pool) -> usize {
		self.res.iter().filter(|r| matches!(r.place, Place::Queued | Place::Live) && self.pool_of(r) == p).count()
	}
	fn members(&self, p: Pool) -> Vec<usize> {
		(0..self.res.len()).filter(|i| self.pool_of(&self.res[*i]) == p).collect()
	}
	fn is_track(&self, i: usize) -> bool {
		matches!(self.res[i].kind, Kind::TopTrack | Kind::SubTrack)
	}
	fn removable(&self, i: usize) -> bool {
		if self.is_track(i) {
			for c in self.members(Pool::SubTracks(i)) {
				if self.res[c].place == Place::Live && !self.removable(c) {
					return false;
				}
			}
		}
		self.res[i].marked
	}
	/// The audio thread drops resource `i`. Whatever lives inside a removed track goes with it as
	/// an object, but the slot accounting behind the handles of those inner resources is never
	/// touched again: their pools are frozen, not emptied.
	fn kill(&mut self, i: usize) {
		self.res[i].place = Place::Gone;
	}
	/// every track above `i` is still in the mixer
	fn reachable(&self, i: usize) -> bool {
		let mut cur = self.res[i].owner;
		while let Some(o) = cur {
			if self.res[o].place == Place::Gone {
				return false;
			}
			cur = self.res[o].owner;
		}
		true
	}
	/// remove-then-add step of one pool at the start of a callback
	fn step_pool(&mut self, p: Pool) {
		let m = self.members(p);
		for &i in &m {
			if self.res[i].place == Place::Live && self.removable(i) {
				self.kill(i);
			}
		}
		for &i in &m {
			if self.res[i].place == Place::Queued {
				self.res[i].place = Place::Live;
			}
		}
		if matches!(p, Pool::TopTracks | Pool::SubTracks(_)) {
			for &i in &m {
				if self.res[i].place == Place::Live {
					self.step_pool(Pool::TrackSounds(i));
					self.step_pool(Pool::SubTracks(i));
				}
			}
		}
	}
	fn callback(&mut self) {
		for p in [Pool::TopTracks, Pool::Sends, Pool::MainSounds, Pool::Clocks, Pool::Listeners, Pool::Modulators] {
			self.step_pool(p);
		}
	}
}

enum Handle {
	Sound(#[allow(dead_code)] ProbeSoundHandle),
	Track(TrackHandle),
	Send(#[allow(dead_code)] SendTrackHandle),
	Clock(#[allow(dead_code)] ClockHandle),
	Tweener(#[allow(dead_code)] TweenerHandle),
	Lfo(#[allow(dead_code)] LfoHandle),
	Listener(#[allow(dead_code)] ListenerHandle),
}

fn check_counts(mgr: &mut Mgr, handles: &[Option<Handle>], model: &Model, oi: usize, c: &Case) -> Result<(), Failure> {
	let pairs = [
		("sub-tracks", mgr.num_sub_tracks(), model.count(Pool::TopTracks), mgr.sub_track_capacity(), model.caps[0]),
		("send tracks", mgr.num_send_tracks(), model.count(Pool::Sends), mgr.send_track_capacity(), model.caps[1]),
		("clocks", mgr.num_clocks(), model.count(Pool::Clocks), mgr.clock_capacity(), model.caps[2]),
		("modulators", mgr.num_modulators(), model.count(Pool::Modulators), mgr.modulator_capacity(), model.caps[3]),
		("main-track sounds", mgr.main_track().num_sounds(), model.count(Pool::MainSounds), mgr.main_track().sound_capacity(), model.caps[5]),
	];
	for (name, got, want, cap, wcap) in pairs {
		ensure!(got == want, "count-equals-created-minus-removed", "after op #{oi}: {got} {name} reported, {want} created and not yet removed; case {c:?}");
		ensure!(cap == wcap, "capacity-reported", "after op #{oi}: {name} capacity {cap}, configured {wcap}; case {c:?}");
		ensure!(got <= cap, "count-within-capacity", "after op #{oi}: {got} {name} with capacity {cap}; case {c:?}");
	}
	for (i, h) in handles.iter().enumerate() {
		if let Some(Handle::Track(t)) = h {
			if model.res[i].place == Place::Live {
				let (ns, nt) = (t.num_sounds(), t.num_sub_tracks());
				ensure!(ns == model.count(Pool::TrackSounds(i)), "count-equals-created-minus-removed", "after op #{oi}: track #{i} reports {ns} sounds, expected {}; case {c:?}", model.count(Pool::TrackSounds(i)));
				ensure!(nt == model.count(Pool::SubTracks(i)), "count-equals-created-minus-removed", "after op #{oi}: track #{i} reports {nt} sub-tracks, expected {}; case {c:?}", model.count(Pool::SubTracks(i)));
				ensure!(t.sound_capacity() == model.caps[6] && t.sub_track_capacity() == model.caps[6], "capacity-reported", "track #{i} capacities; case {c:?}");
			}
		}
	}
	Ok(())
}

fn run_case(c: &Case) -> Result<(bool, usize), Failure> {
	let mut mgr = manager(
		8000,
		c.ibs,
		Capacities {
			sub_track_capacity: c.caps[0],
			send_track_capacity: c.caps[1],
			clock_capacity: c.caps[2],
			modulator_capacity: c.caps[3],
			listener_capacity: c.caps[4],
		},
		MainTrackBuilder::new().sound_capacity(c.caps[5]),
	);
	let mut model = Model { res: vec![], caps: c.caps };
	let mut handles: Vec<Option<Handle>> = vec![];
	let mut logs: Vec<Option<Arc<crate::probes::SoundLog>>> = vec![];
	let mut fx_logs = vec![];
	let mut create_at_full_after_removal = false;
	let mut removed_any = false;
	let mut refusals = 0usize;
	for (oi, op) in c.ops.iter().enumerate() {
		match op {
			Op::Create(kind, owner_sel) => {
				// the owner of a track-level resource: the owner_sel-th created track (live or not)
				let track_ids: Vec<usize> = (0..model.res.len()).filter(|i| model.is_track(*i) && model.res[*i].place != Place::Refused).collect();
				let owner = match kind {
					Kind::TrackSound | Kind::SubTrack => {
						if track_ids.is_empty() {
							continue;
						}
						let o = track_ids[owner_sel % track_ids.len()];
						if handles[o].is_none() {
							// no handle left to create through
							continue;
						}
						Some(o)
					}
					_ => None,
				};
				let r = Res {
					kind: *kind,
					owner,
					place: Place::Queued,
					marked: false,
				};
				let pool = model.pool_of(&r);
				let room = model.count(pool) < model.capacity(pool);
				if room && removed_any && model.count(pool) + 1 == model.capacity(pool) {
					create_at_full_after_removal = true;
				}
				let sound = || ProbeSoundData::new(Signal::Dc(0.01, 0.01), None);
				let mut probe_fx = |b: &mut TrackBuilder| {
					fx_logs.push(b.add_effect(ProbeEffectBuilder::new(ProbeKind::Pass)));
				};
				// every creation is wrapped: the limit must be reported as an error value
				let created = monitor::catch(|| -> Result<(Handle, Option<Arc<crate::probes::SoundLog>>), ()> {
					Ok(match kind {
						Kind::MainSound => {
							let h = mgr.play(sound()).map_err(|_| ())?;
							let l = h.log.clone();
							(Handle::Sound(h), Some(l))
						}
						Kind::TrackSound => {
							let Some(Handle::Track(t)) = &mut handles[owner.unwrap()] else { return Err(()) };
							let h = t.play(sound()).map_err(|_| ())?;
							let l = h.log.clone();
							(Handle::Sound(h), Some(l))
						}
						Kind::TopTrack => {
							let mut b = TrackBuilder::new().sound_capacity(c.caps[6]).sub_track_capacity(c.caps[6]);
							probe_fx(&mut b);
							(Handle::Track(mgr.add_sub_track(b).map_err(|_| ())?), None)
						}
						Kind::SubTrack => {
							let Some(Handle::Track(t)) = &mut handles[owner.unwrap()] else { return Err(()) };
							let mut b = TrackBuilder::new().sound_capacity(c.caps[6]).sub_track_capacity(c.caps[6]);
							probe_fx(&mut b);
							(Handle::Track(t.add_sub_track(b).map_err(|_| ())?), None)
						}
						Kind::Send => (Handle::Send(mgr.add_send_track(SendTrackBuilder::new()).map_err(|_| ())?), None),
						Kind::Clock => (Handle::Clock(mgr.add_clock(ClockSpeed::TicksPerSecond(10.0)).map_err(|_| ())?), None),
						Kind::Tweener => (Handle::Tweener(mgr.add_modulator(TweenerBuilder { initial_value: 1.0 }).map_err(|_| ())?), None),
						Kind::Lfo => (Handle::Lfo(mgr.add_modulator(LfoBuilder::new()).map_err(|_| ())?), None),
						Kind::Listener => (Handle::Listener(mgr.add_listener(Vec3::ZERO, Quat::IDENTITY).map_err(|_| ())?), None),
					})
				});
				let created = match created {
					Ok(x) => x,
					Err(info) => {
						let mut f = Failure::panic("create-", &info);
						f.detail = format!("op #{oi}: creating a {kind:?} panicked instead of returning the limit error: {}; case {c:?}", f.detail);
						return Err(f);
					}
				};
				match created {
					Ok((h, l)) => {
						ensure!(room, "creation-succeeds-iff-below-capacity", "op #{oi}: creating a {kind:?} succeeded although {} of capacity {} are alive or awaiting removal; case {c:?}", model.count(pool), model.capacity(pool));
						handles.push(Some(h));
						logs.push(l);
						model.res.push(r);
					}
					Err(()) => {
						ensure!(!room, "creation-succeeds-iff-below-capacity", "op #{oi}: creating a {kind:?} was refused although only {} of capacity {} are alive or awaiting removal; case {c:?}", model.count(pool), model.capacity(pool));
						refusals += 1;
						handles.push(None);
						logs.push(None);
						model.res.push(Res { place: Place::Refused, ..r });
					}
				}
			}
			Op::FailingPlay(owner_sel) => {
				use crate::probes::{FaultPlan, ScriptDecoder};
				use kira::sound::streaming::StreamingSoundData;
				use kira::PlaySoundError;
				let frames: Arc<[Frame]> = vec![Frame::ZERO; 8].into();
				let (mut dec, _log) = ScriptDecoder::new(frames, 8000);
				dec.fault = FaultPlan::Seek { k: 0, forever: true };
				let data = StreamingSoundData::from_decoder(dec);
				let track_ids: Vec<usize> = (0..model.res.len()).filter(|i| model.is_track(*i) && model.res[*i].place != Place::Refused && handles[*i].is_some()).collect();
				let r = if *owner_sel == 0 || track_ids.is_empty() {
					mgr.play(data).map(|_| ())
				} else {
					let o = track_ids[owner_sel % track_ids.len()];
					match &mut handles[o] {
						Some(Handle::Track(t)) => t.play(data).map(|_| ()),
						_ => continue,
					}
				};
				ensure!(matches!(r, Err(PlaySoundError::IntoSoundError(_))), "failed-play-reports-the-sound-error", "op #{oi}: playing a sound whose decoder fails returned {:?}; case {c:?}", r.as_ref().map_err(|e| format!("{e:?}")));
			}
			Op::Drop(i) => {
				if model.res.is_empty() {
					continue;
				}
				let i = i % model.res.len();
				if let Some(h) = handles[i].take() {
					// a sound's handle does not own the sound
					if !matches!(h, Handle::Sound(_)) {
						model.res[i].marked = true;
					}
					drop(h);
				}
			}
			Op::Finish(i) => {
				if model.res.is_empty() {
					continue;
				}
				let i = i % model.res.len();
				if let Some(l) = &logs[i] {
					l.stop.store(true, Ordering::SeqCst);
					model.res[i].marked = true;
				}
			}
			Op::Callback(n) => {
				let cb = mgr.backend_mut().callback(*n, 2);
				if let Some(p) = &cb.guard.panic {
					return Err(Failure::panic("", p));
				}
				ensure!(cb.guard.deallocs == 0 && cb.guard.allocs == 0, "destroyed-on-callers-thread", "op #{oi}: {} allocations / {} frees inside the callback; case {c:?}", cb.guard.allocs, cb.guard.deallocs);
				let before = model.res.iter().filter(|r| r.place == Place::Gone).count();
				model.callback();
				if model.res.iter().filter(|r| r.place == Place::Gone).count() > before {
					removed_any = true;
				}
			}
		}
		check_counts(&mut mgr, &handles, &model, oi, c)?;
		// resources are never destroyed on the audio thread
		for (i, l) in logs.iter().enumerate() {
			if let Some(l) = l {
				ensure!(!l.dropped_in_callback.load(Ordering::SeqCst), "destroyed-on-callers-thread", "after op #{oi}: probe sound #{i} was dropped inside an audio callback; case {c:?}");
				if l.dropped.load(Ordering::SeqCst) && model.reachable(i) {
					ensure!(model.res[i].place == Place::Gone, "removed-only-when-marked", "after op #{oi}: probe sound #{i} was destroyed but the reference still has it {:?}; case {c:?}", model.res[i].place);
				}
			}
		}
		for l in &fx_logs {
			ensure!(!l.dropped_in_callback.load(Ordering::SeqCst), "destroyed-on-callers-thread", "after op #{oi}: a probe effect was dropped inside an audio callback; case {c:?}");
		}
	}
	Ok((create_at_full_after_removal, refusals))
}

// ------------------------------------------------------------------------------------------
// stale ids: an id of a removed resource never resolves to a newer resource in the same slot

fn render(mgr: &mut Mgr, n: usize) -> Vec<f32> {
	mgr.backend_mut().callback(n, 2).out
}

fn stale_clock(cycles: usize) -> Result<(), Failure> {
	let mut mgr = manager(8000, 16, Capacities { clock_capacity: 1, ..Default::default() }, MainTrackBuilder::new());
	let a = mgr.add_clock(ClockSpeed::TicksPerSecond(1000.0)).map_err(|_| Failure::simple("stale-id", "setup"))?;
	let stale = a.id();
	render(&mut mgr, 16);
	drop(a);
	render(&mut mgr, 16);
	let mut cur = None;
	for _ in 0..cycles.max(1) {
		drop(cur.take());
		render(&mut mgr, 16);
		let mut b = mgr.add_clock(ClockSpeed::TicksPerSecond(1000.0)).map_err(|_| Failure::simple("slot-reusable", "the clock slot was not freed after its handle was dropped and a callback ran"))?;
		b.start();
		render(&mut mgr, 16);
		cur = Some(b);
	}
	let frames: Arc<[Frame]> = vec![Frame::from_mono(0.5); 64].into();
	let h = mgr
		.play(StaticSoundData {
			sample_rate: 8000,
			frames,
			settings: StaticSoundSettings::new().loop_region(..).start_time(StartTime::ClockTime(ClockTime::from_ticks_u64(stale, 1))),
			slice: None,
		})
		.map_err(|_| Failure::simple("stale-id", "play"))?;
	let mut heard = false;
	for _ in 0..6 {
		let out = render(&mut mgr, 16);
		heard |= out.iter().any(|s| *s != 0.0);
	}
	ensure!(!heard, "stale-clock-id", "a sound scheduled on the id of a removed clock started when a newer clock in the same slot reached that time");
	ensure!(h.state() == PlaybackState::Stopped, "stale-clock-id", "a sound waiting for a removed clock reports {:?} instead of Stopped", h.state());
	Ok(())
}

fn stale_modulator(cycles: usize) -> Result<(), Failure> {
	let mut mgr = manager(8000, 16, Capacities { modulator_capacity: 1, ..Default::default() }, MainTrackBuilder::new());
	let a = mgr.add_modulator(TweenerBuilder { initial_value: 0.25 }).map_err(|_| Failure::simple("stale-id", "setup"))?;
	let stale = a.id();
	let mut builder = TrackBuilder::new();
	let log = builder.add_effect(ProbeEffectBuilder::new(ProbeKind::Pass).param(Value::FromModulator {
		id: stale,
		mapping: Mapping {
			input_range: (0.0, 1.0),
			output_range: (0.0, 100.0),
			easing: kira::Easing::Linear,
		},
	}));
	let _track = mgr.add_sub_track(builder).map_err(|_| Failure::simple("stale-id", "setup"))?;
	render(&mut mgr, 16);
	render(&mut mgr, 16);
	let seen = log.take_calls().last().map(|r| r.param);
	ensure!(seen == Some(25.0), "parameter-follows-modulator", "parameter linked to a tweener at 0.25 through (0,1)->(0,100) reads {seen:?}");
	drop(a);
	render(&mut mgr, 16);
	let mut cur = None;
	for _ in 0..cycles.max(1) {
		drop(cur.take());
		render(&mut mgr, 16);
		let b = mgr.add_modulator(TweenerBuilder { initial_value: 0.9 }).map_err(|_| Failure::simple("slot-reusable", "the modulator slot was not freed"))?;
		render(&mut mgr, 16);
		cur = Some(b);
	}
	render(&mut mgr, 16);
	let seen = log.take_calls().last().map(|r| r.param);
	ensure!(seen == Some(25.0), "stale-modulator-id", "a parameter linked to a removed modulator reads {seen:?} after a newer modulator (value 0.9) took its slot; it must hold 25.0");
	Ok(())
}

fn stale_listener(cycles: usize) -> Result<(), Failure> {
	let mut mgr = manager(8000, 16, Capacities { listener_capacity: 1, ..Default::default() }, MainTrackBuilder::new());
	let a = mgr.add_listener(Vec3::ZERO, Quat::IDENTITY).map_err(|_| Failure::simple("stale-id", "setup"))?;
	let stale = a.id();
	let mut track = mgr.add_spatial_sub_track(stale, Vec3::new(0.0, 0.0, -2.0), SpatialTrackBuilder::new()).map_err(|_| Failure::simple("stale-id", "setup"))?;
	track.play(ProbeSoundData::new(Signal::Dc(0.5, 0.5), None)).map_err(|_| Failure::simple("stale-id", "setup"))?;
	render(&mut mgr, 16);
	let out = render(&mut mgr, 16);
	ensure!(out.iter().any(|s| *s != 0.0), "stale-id", "spatial track with a live listener is silent");
	drop(a);
	render(&mut mgr, 16);
	let out = render(&mut mgr, 16);
	ensure!(out.iter().all(|s| *s == 0.0), "listener-removed-silences-track", "spatial track still audible after its listener was dropped");
	let mut cur = None;
	for _ in 0..cycles.max(1) {
		drop(cur.take());
		render(&mut mgr, 16);
		let b = mgr.add_listener(Vec3::ZERO, Quat::IDENTITY).map_err(|_| Failure::simple("slot-reusable", "the listener slot was not freed"))?;
		render(&mut mgr, 16);
		cur = Some(b);
	}
	let out = render(&mut mgr, 16);
	ensure!(out.iter().all(|s| *s == 0.0), "stale-listener-id", "a spatial track bound to a removed listener became audible when a newer listener took the slot");
	Ok(())
}

fn stale_send(cycles: usize) -> Result<(), Failure> {
	let mut mgr = manager(8000, 16, Capacities { send_track_capacity: 1, ..Default::default() }, MainTrackBuilder::new());
	let a = mgr.add_send_track(SendTrackBuilder::new()).map_err(|_| Failure::simple("stale-id", "setup"))?;
	let stale = a.id();
	// the track itself is silenced (-60 dB is applied after the send? no: sends are post-fader), so
	// route through a probe: the track plays DC 0.25, sends at 0 dB; main gets track + send
	let mut track = mgr.add_sub_track(TrackBuilder::new().with_send(stale, Decibels(0.0))).map_err(|_| Failure::simple("stale-id", "setup"))?;
	track.play(ProbeSoundData::new(Signal::Dc(0.25, 0.25), None)).map_err(|_| Failure::simple("stale-id", "setup"))?;
	render(&mut mgr, 16);
	let out = render(&mut mgr, 16);
	ensure!((out[0] - 0.5).abs() < 1e-6, "send-route", "track 0.25 + send 0.25 should give 0.5, got {}", out[0]);
	drop(a);
	render(&mut mgr, 16);
	let out = render(&mut mgr, 16);
	ensure!((out[0] - 0.25).abs() < 1e-6, "send-removed", "after the send track was dropped the output should be 0.25, got {}", out[0]);
	let mut cur = None;
	for _ in 0..cycles.max(1) {
		drop(cur.take());
		render(&mut mgr, 16);
		let b = mgr.add_send_track(SendTrackBuilder::new()).map_err(|_| Failure::simple("slot-reusable", "the send-track slot was not freed"))?;
		render(&mut mgr, 16);
		cur = Some(b);
	}
	let out = render(&mut mgr, 16);
	ensure!((out[0] - 0.25).abs() < 1e-6, "stale-send-track-id", "a route to a removed send track feeds the newer send track in the same slot: output {}, expected 0.25", out[0]);
	Ok(())
}

fn decode(src: &mut Src, tier: Tier) -> Case {
	let cap = |src: &mut Src| match src.weighted(&[12, 1]) {
		0 => src.pick(&[1usize, 2, 3, 5]),
		_ => 0,
	};
	let caps = [cap(src), cap(src), cap(src), cap(src), cap(src), cap(src), cap(src)];
	let ibs = src.pick(&[16usize, 1, 4, 64]);
	let n = src.usize_in(3, tier.pick(40, 100));
	let kinds = [Kind::MainSound, Kind::TopTrack, Kind::TrackSound, Kind::SubTrack, Kind::Send, Kind::Clock, Kind::Tweener, Kind::Lfo, Kind::Listener];
	let mut ops = vec![];
	// most histories concentrate on one or two kinds so that capacities are actually reached
	let focus = [kinds[src.index(kinds.len())], kinds[src.index(kinds.len())], Kind::TopTrack];
	for _ in 0..n {
		let op = match src.weighted(&[8, 5, 2, 5, 1]) {
			0 => {
				let k = if src.chance(3, 4) { focus[src.index(3)] } else { kinds[src.index(kinds.len())] };
				Op::Create(k, src.index(8))
			}
			1 => Op::Drop(src.index(64)),
			2 => Op::Finish(src.index(64)),
			3 => Op::Callback(src.pick(&[ibs, 1, ibs * 2 + 1])),
			_ => Op::FailingPlay(src.index(4)),
		};
		ops.push(op);
	}
	Case { caps, ibs, ops }
}

impl Property for C08 {
	fn id(&self) -> &'static str {
		"C08"
	}
	fn rule(&self) -> &'static str {
		"each case configures every capacity (sub-tracks, send tracks, clocks, modulators, listeners, main-track sounds, per-track sounds and sub-tracks) from {0,1,2,3,5} and runs a history of up to 40 (thorough: 100) operations: create a resource of any kind (probe sounds on the main track or any track, sub-tracks of the manager or of any track, send tracks, clocks, tweeners, LFOs, listeners), drop any handle, let any probe sound finish, device callback. An accounting model (count = created and not yet removed; a marked resource leaves at the next callback if the audio thread had it, one later otherwise; a track leaves only when no live descendant needs it) predicts every creation result (success iff count < capacity, otherwise the documented limit error, never a panic) and every num_*() / capacity accessor after every step; probe sounds and effects record where they are destroyed (never inside a callback) and callbacks must not free memory. Stale ids: for clocks, modulators, listeners and send tracks a capacity-1 slot is reused 1..4 times and the old id must keep behaving as missing (sound on the old ClockId stops, parameter on the old ModulatorId holds, spatial track on the old ListenerId stays silent, route to the old SendTrackId feeds nothing). Schedules: with two real threads and hook H3 a creation (reserve a slot, drain the unused ring, push to the new-resource ring) races one callback's remove-and-add step (removal pass, refill) on the same pool in each of the ten possible orders, for modulators, main-track sounds, clocks and sub-tracks with k resources picked up, m of them marked and u not yet picked up: the creation succeeds iff fewer than capacity were alive or awaiting removal when the slot was reserved, the new resource is processed from the raced callback on iff it was pushed before the refill (else one callback later), counts balance after one more callback, nothing is destroyed or freed inside a callback (all scenarios up to capacity 2, thorough 3, are enumerated; larger ones are random). Non-trivial = a creation refused at full capacity, a creation that fills the last slot after a removal, or a schedule with marked or unpicked resources or a full pool; distinct = distinct decoded choices."
	}
	fn assumptions(&self) -> Vec<String> {
		vec![
			"callbacks run on the harness thread with an in-callback flag; 'destroyed on a caller's thread' is checked as 'never destroyed inside a callback' plus zero frees inside callbacks".into(),
			"listeners have no count accessor; they are observed through creation results only".into(),
			"interleavings of the create path with the audio thread's remove-and-add step are explored at the five H3 hook points (reserve, drain, push; removal pass, refill); orders inside the lock-free rings / arena of the external crates are not controlled".into(),
		]
	}
	fn tape_len(&self, _tier: Tier) -> usize {
		260
	}
	fn cases(&self, tier: Tier) -> u64 {
		tier.pick(2_000_000, 10_000_000)
	}

	fn enumerations(&self, tier: Tier) -> Vec<crate::engine::Enumeration> {
		// tape: [u32::MAX marker, index of the scenario]
		let n = super::c08s::all_cases(tier.pick(2, 3)).len();
		vec![crate::engine::Enumeration {
			name: "every order of the create path (reserve, drain, push) against the audio thread's removal pass and refill, for every pool kind x capacity x picked x marked x unpicked (hook H3, two real threads)",
			tapes: Box::new((0..n as u32).map(|i| vec![u32::MAX, i])),
			exhaustive: true,
		}]
	}

	fn run(&self, tape: &[u32], ctx: &mut Ctx) -> CaseResult {
		if tape.len() == 2 && tape[0] == u32::MAX {
			let all = super::c08s::all_cases(ctx.tier.pick(2, 3));
			let sc = all[(tape[1] as usize).min(all.len() - 1)].clone();
			ctx.describe(|| format!("{sc:?}"));
			let nontrivial = super::c08s::run(&sc)?;
			let mut info = CaseInfo::default();
			info.nontrivial = nontrivial;
			info.classes = vec!["create-vs-remove-and-add-schedule"];
			info.hash = 0x5c4ed000_0000_0000 | tape[1] as u64;
			return Ok(info);
		}
		let mut src = Src::new(tape);
		let case = decode(&mut src, ctx.tier);
		ctx.describe(|| format!("{case:?}"));
		let (at_full_after_removal, refusals) = run_case(&case)?;
		let mut classes = vec![];
		if src.chance(1, 30) {
			let cycles = src.usize_in(1, 4);
			match src.index(4) {
				0 => stale_clock(cycles)?,
				1 => stale_modulator(cycles)?,
				2 => stale_listener(cycles)?,
				_ => stale_send(cycles)?,
			}
			ctx.count("stale-id-scenarios", 1);
			classes.push("stale-id-scenario");
		}
		let mut sched_nontrivial = false;
		if src.chance(1, 25) {
			// one schedule of the create path against the remove-and-add step (all of them are
			// enumerated up to capacity 2 / 3; here larger pools)
			let cap = src.usize_in(1, 5);
			let picked = src.usize_in(0, cap);
			let sc = super::c08s::SCase {
				pool: super::c08s::POOLS[src.index(4)],
				cap,
				picked,
				marked: src.usize_in(0, picked),
				unpicked: src.usize_in(0, (cap - picked).min(2)),
				order: src.index(10),
			};
			ctx.describe(|| format!("{sc:?}"));
			sched_nontrivial = super::c08s::run(&sc)?;
			ctx.count("create-vs-remove-and-add-schedules", 1);
			classes.push("create-vs-remove-and-add-schedule");
		}
		if refusals > 0 {
			classes.push("refused-at-capacity");
		}
		if at_full_after_removal {
			classes.push("refill-after-removal");
		}
		if case.caps.contains(&0) {
			classes.push("capacity-0");
		}
		Ok(CaseInfo::new(&src, refusals > 0 || at_full_after_removal || sched_nontrivial, classes))
	}
}
