//! C08, schedules: the gameplay thread's create path (reserve, drain, push) against the audio
//! thread's remove-and-add step on the same pool, in every one of the ten orders the H3 hook
//! points distinguish, with two real threads and a baton scheduler (probes::ressched).

use crate::engine::monitor::{self, Guarded};
use crate::engine::Failure;
use crate::ensure;
use crate::probes::ressched::{self, A1, A2, G1, G3};
use crate::probes::{manager, streamctl, EffectLog, ProbeEffectBuilder, ProbeKind, ProbeSoundData, ProbeSoundHandle, Signal};
use kira::backend::Renderer;
use kira::clock::ClockSpeed;
use kira::info::Info;
use kira::modulator::{Modulator, ModulatorBuilder, ModulatorId};
use kira::track::{MainTrackBuilder, TrackBuilder};
use kira::Capacities;
use std::any::Any;
use std::sync::atomic::{AtomicBool, AtomicU64, Ordering};
use std::sync::Arc;

#[derive(Debug, Clone, Copy, PartialEq)]
pub enum SPool {
	Modulator,
	MainSound,
	Clock,
	SubTrack,
}

pub const POOLS: [SPool; 4] = [SPool::Modulator, SPool::MainSound, SPool::Clock, SPool::SubTrack];

#[derive(Debug, Clone)]
pub struct SCase {
	pub pool: SPool,
	pub cap: usize,
	/// resources the audio thread already has
	pub picked: usize,
	/// how many of those are marked for removal before the race
	pub marked: usize,
	/// resources created but not yet picked up when the race starts
	pub unpicked: usize,
	/// index into `ressched::all_orders()`
	pub order: usize,
}

#[derive(Default)]
struct ModLog {
	updates: AtomicU64,
	dropped: AtomicBool,
	dropped_in_callback: AtomicBool,
	finished: AtomicBool,
}

struct ProbeMod(Arc<ModLog>);
impl Modulator for ProbeMod {
	fn update(&mut self, _dt: f64, _info: &Info) {
		self.0.updates.fetch_add(1, Ordering::SeqCst);
	}
	fn value(&self) -> f64 {
		0.0
	}
	fn finished(&self) -> bool {
		self.0.finished.load(Ordering::SeqCst)
	}
}
impl Drop for ProbeMod {
	fn drop(&mut self) {
		self.0.dropped.store(true, Ordering::SeqCst);
		self.0.dropped_in_callback.store(monitor::in_callback(), Ordering::SeqCst);
	}
}
struct ProbeModBuilder(Arc<ModLog>);
impl ModulatorBuilder for ProbeModBuilder {
	type Handle = ();
	fn build(self, _id: ModulatorId) -> (Box<dyn Modulator>, ()) {
		(Box::new(ProbeMod(self.0)), ())
	}
}

/// what the harness keeps per created resource
enum Res {
	Mod(Arc<ModLog>),
	Sound(ProbeSoundHandle),
	Clock(Box<dyn Any>),
	Track(Box<dyn Any>, Arc<EffectLog>),
}

impl Res {
	/// mark for removal (what dropping the handle / finishing the sound does)
	fn mark(self) -> Option<Res> {
		match self {
			Res::Mod(l) => {
				l.finished.store(true, Ordering::SeqCst);
				Some(Res::Mod(l))
			}
			Res::Sound(h) => {
				h.finish();
				Some(Res::Sound(h))
			}
			Res::Clock(h) => {
				drop(h);
				None
			}
			Res::Track(h, l) => {
				drop(h);
				Some(Res::Track(Box::new(()), l))
			}
		}
	}
	fn dropped_in_callback(&self) -> bool {
		match self {
			Res::Mod(l) => l.dropped_in_callback.load(Ordering::SeqCst),
			Res::Sound(h) => h.log.dropped_in_callback.load(Ordering::SeqCst),
			Res::Track(_, l) => l.dropped_in_callback.load(Ordering::SeqCst),
			Res::Clock(_) => false,
		}
	}
	/// units of work the audio thread has done on it (chunks for modulators, frames otherwise)
	fn work(&self) -> Option<u64> {
		match self {
			Res::Mod(l) => Some(l.updates.load(Ordering::SeqCst)),
			Res::Sound(h) => Some(h.log.frames.load(Ordering::SeqCst) as u64),
			Res::Track(_, l) => Some(l.frames.load(Ordering::SeqCst) as u64),
			Res::Clock(_) => None,
		}
	}
}

fn create(mgr: &mut crate::probes::Mgr, pool: SPool) -> Result<Res, ()> {
	match pool {
		SPool::Modulator => {
			let log = Arc::new(ModLog::default());
			mgr.add_modulator(ProbeModBuilder(log.clone())).map(|_| Res::Mod(log)).map_err(|_| ())
		}
		SPool::MainSound => mgr.play(ProbeSoundData::new(Signal::Dc(0.0, 0.0), None)).map(Res::Sound).map_err(|_| ()),
		SPool::Clock => mgr.add_clock(ClockSpeed::TicksPerSecond(10.0)).map(|h| Res::Clock(Box::new(h))).map_err(|_| ()),
		SPool::SubTrack => {
			let mut tb = TrackBuilder::new();
			let log = tb.add_effect(ProbeEffectBuilder::new(ProbeKind::Pass));
			mgr.add_sub_track(tb).map(|h| Res::Track(Box::new(h), log)).map_err(|_| ())
		}
	}
}

fn count(mgr: &mut crate::probes::Mgr, pool: SPool) -> usize {
	match pool {
		SPool::Modulator => mgr.num_modulators(),
		SPool::MainSound => mgr.main_track().num_sounds(),
		SPool::Clock => mgr.num_clocks(),
		SPool::SubTrack => mgr.num_sub_tracks(),
	}
}

const FRAMES: usize = 64;
const BUF: usize = 16;

fn callback(r: &mut Renderer) -> Guarded {
	let mut out = vec![0.0f32; FRAMES * 2];
	let (_, guard) = monitor::as_callback(|| {
		r.on_start_processing();
		r.process(&mut out, 2);
	});
	guard
}

pub fn run(c: &SCase) -> Result<bool, Failure> {
	streamctl::install(); // (the process-wide hook dispatches the res_* sites to ressched)
	let orders = ressched::all_orders();
	let order = &orders[c.order % orders.len()];
	let mut caps = Capacities::default();
	let mut main = MainTrackBuilder::new();
	match c.pool {
		SPool::Modulator => caps.modulator_capacity = c.cap,
		SPool::Clock => caps.clock_capacity = c.cap,
		SPool::SubTrack => caps.sub_track_capacity = c.cap,
		SPool::MainSound => main = main.sound_capacity(c.cap),
	}
	// learn the pool's id from a throw-away manager
	{
		let mut m0 = manager(8000, BUF, Capacities::default(), MainTrackBuilder::new());
		ressched::learn(true);
		let r = create(&mut m0, c.pool);
		ressched::learn(false);
		ensure!(r.is_ok(), "setup", "learning creation failed");
	}
	let mut mgr = manager(8000, BUF, caps, main);
	let mut renderer = mgr.backend_mut().renderer.take().ok_or_else(|| Failure::simple("setup", "no renderer"))?;
	let mut all: Vec<Res> = vec![];
	let mut live: Vec<Res> = vec![];
	for _ in 0..c.picked {
		live.push(create(&mut mgr, c.pool).map_err(|_| Failure::simple("setup", format!("initial creation refused; case {c:?}")))?);
	}
	let g = callback(&mut renderer);
	if let Some(p) = &g.panic {
		return Err(Failure::panic("", p));
	}
	for _ in 0..c.marked {
		if let Some(r) = live.remove(0).mark() {
			all.push(r);
		}
	}
	for _ in 0..c.unpicked {
		live.push(create(&mut mgr, c.pool).map_err(|_| Failure::simple("setup", format!("creation of the not-yet-picked resource refused; case {c:?}")))?);
	}
	// --- the race
	ressched::arm(order);
	let (result, guard) = std::thread::scope(|s| {
		let audio = s.spawn(|| {
			let g = callback(&mut renderer);
			ressched::finish(1);
			g
		});
		let r = monitor::catch(|| create(&mut mgr, c.pool));
		ressched::finish(0);
		let g = audio.join();
		(r, g)
	});
	let completed = ressched::disarm();
	let guard = guard.map_err(|_| Failure::simple("setup", "audio thread died"))?;
	if let Some(p) = &guard.panic {
		return Err(Failure::panic("callback-", p));
	}
	let result = result.map_err(|info| Failure::panic("create-", &info))?;
	if !completed {
		return Err(Failure::new("inconclusive", "inconclusive", format!("the schedule {order:?} did not run to completion; case {c:?}")));
	}
	ensure!(guard.deallocs == 0, "destroyed-on-callers-thread", "the raced callback freed memory {} time(s); order {order:?}; case {c:?}", guard.deallocs);
	let pos = |a: u8| order.iter().position(|x| *x == a).unwrap();
	let removed_before_reserve = pos(A1) < pos(G1);
	let alive_at_reserve = c.picked + c.unpicked - if removed_before_reserve { c.marked } else { 0 };
	let want_ok = alive_at_reserve < c.cap;
	ensure!(
		result.is_ok() == want_ok,
		"creation-succeeds-iff-below-capacity",
		"order {order:?} (0-2 reserve/drain/push, 3 removal pass, 4 refill): {} resources alive or awaiting removal of {} when the slot was reserved, creation {}; case {c:?}",
		alive_at_reserve,
		c.cap,
		if result.is_ok() { "succeeded" } else { "was refused" }
	);
	let created = result.ok();
	let picked_in_race = created.is_some() && pos(G3) < pos(A2);
	// --- afterwards: one quiet callback, then the books must balance
	let g2 = callback(&mut renderer);
	if let Some(p) = &g2.panic {
		return Err(Failure::panic("callback-", p));
	}
	ensure!(g2.deallocs == 0, "destroyed-on-callers-thread", "the callback after the race freed memory; case {c:?}");
	let want_count = c.picked - c.marked + c.unpicked + created.is_some() as usize;
	let got = count(&mut mgr, c.pool);
	ensure!(got == want_count, "count-equals-created-minus-removed", "order {order:?}: after the race and one more callback the pool reports {got} resources, expected {want_count}; case {c:?}");
	if let Some(r) = &created {
		if let Some(w) = r.work() {
			let per_cb = if c.pool == SPool::Modulator { (FRAMES / BUF) as u64 } else { FRAMES as u64 };
			let want = if picked_in_race { 2 * per_cb } else { per_cb };
			ensure!(w == want, "picked-up-at-the-next-callback", "order {order:?}: the resource created during the race has been processed for {w} units, expected {want} ({}); case {c:?}", if picked_in_race { "pushed before the refill: picked up in the raced callback" } else { "pushed after the refill: picked up one callback later" });
		}
	}
	// a further creation must see exactly the free slots
	let more = create(&mut mgr, c.pool);
	ensure!(more.is_ok() == (want_count < c.cap), "creation-succeeds-iff-below-capacity", "after the race the pool holds {want_count} of {}; a further creation {}; case {c:?}", c.cap, if more.is_ok() { "succeeded" } else { "was refused" });
	if let Ok(r) = more {
		live.push(r);
	}
	if let Some(r) = created {
		live.push(r);
	}
	// --- tear down: everything is destroyed outside callbacks
	mgr.backend_mut().renderer = Some(renderer);
	drop(mgr);
	all.extend(live);
	for r in &all {
		ensure!(!r.dropped_in_callback(), "destroyed-on-callers-thread", "a resource was destroyed inside an audio callback; order {order:?}; case {c:?}");
	}
	Ok(c.marked > 0 || c.unpicked > 0 || c.picked + c.unpicked >= c.cap)
}

/// every small scenario: pool x capacity 1..3 x picked x marked x unpicked x order
pub fn all_cases(max_cap: usize) -> Vec<SCase> {
	let mut v = vec![];
	for pool in POOLS {
		for cap in 1..=max_cap {
			for picked in 0..=cap {
				for marked in 0..=picked {
					for unpicked in 0..=(cap - picked).min(1) {
						for order in 0..10 {
							v.push(SCase { pool, cap, picked, marked, unpicked, order });
						}
					}
				}
			}
		}
	}
	v
}
