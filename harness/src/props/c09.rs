//! C09 - a streaming sound behaves exactly like a static sound of the same audio.

use crate::engine::{CaseInfo, CaseResult, Ctx, Failure, Property, Src, Tier};
use crate::ensure;
use crate::probes::{streamctl, DecoderLog, ScriptDecoder, ScriptError};
use crate::scene::ast::{StartSpec, TweenSpec};
use crate::scene::exec::content_frames;
use crate::scene::gen::gen_easing;
use kira::info::MockInfoBuilder;
use kira::sound::static_sound::{StaticSoundData, StaticSoundHandle, StaticSoundSettings};
use kira::sound::streaming::{StreamingSoundData, StreamingSoundHandle, StreamingSoundSettings};
use kira::sound::{EndPosition, PlaybackPosition, PlaybackState, Region, Sound, SoundData};
use kira::{Decibels, Frame, Panning, PlaybackRate, StartTime, Tween};
use std::sync::Arc;
use std::time::Duration;

pub struct C09;

#[derive(Debug, Clone)]
enum Cmd {
	Volume(f32, TweenSpec),
	Panning(f32, TweenSpec),
	Rate(f64, TweenSpec),
	Pause(TweenSpec),
	Resume(TweenSpec),
	Stop(TweenSpec),
}

#[derive(Debug, Clone)]
struct DecoderCfg {
	packets: Vec<usize>,
	seek_granularity: usize,
	seek_early: usize,
}

#[derive(Debug, Clone)]
struct Case {
	len: usize,
	seed: u32,
	sound_rate: u32,
	device_rate: u32,
	slice: Option<(usize, usize)>,
	start: usize,
	loop_region: Option<(usize, Option<usize>)>,
	volume: f32,
	panning: f32,
	rate: f64,
	fade_in: Option<TweenSpec>,
	start_delay: f64,
	chunks: Vec<usize>,
	cmds: Vec<(usize, Cmd)>,
	dec_a: DecoderCfg,
	dec_b: DecoderCfg,
}

fn tween(t: &TweenSpec) -> Tween {
	Tween {
		start_time: match t.start {
			StartSpec::Immediate => StartTime::Immediate,
			StartSpec::Delayed(d) => StartTime::Delayed(Duration::from_secs_f64(d)),
			StartSpec::Clock(..) => StartTime::Immediate,
		},
		duration: Duration::from_secs_f64(t.dur_s),
		easing: t.easing,
	}
}

fn region(l: Option<(usize, Option<usize>)>) -> Option<Region> {
	l.map(|(s, e)| Region {
		start: PlaybackPosition::Samples(s),
		end: match e {
			None => EndPosition::EndOfAudio,
			Some(e) => EndPosition::Custom(PlaybackPosition::Samples(e)),
		},
	})
}

struct Stream {
	sound: Box<dyn Sound>,
	handle: StreamingSoundHandle<ScriptError>,
	log: Arc<DecoderLog>,
	id: usize,
}

fn make_stream(c: &Case, frames: &Arc<[Frame]>, d: &DecoderCfg) -> Result<Stream, Failure> {
	let (mut dec, log) = ScriptDecoder::new(frames.clone(), c.sound_rate);
	dec.packets = d.packets.clone();
	dec.seek_granularity = d.seek_granularity;
	dec.seek_early = d.seek_early;
	let mut settings = StreamingSoundSettings::new()
		.start_position(PlaybackPosition::Samples(c.start))
		.loop_region(region(c.loop_region))
		.volume(Decibels(c.volume))
		.panning(Panning(c.panning))
		.playback_rate(PlaybackRate(c.rate))
		.fade_in_tween(c.fade_in.as_ref().map(tween));
	if c.start_delay > 0.0 {
		settings = settings.start_time(StartTime::Delayed(Duration::from_secs_f64(c.start_delay)));
	}
	let mut data = StreamingSoundData::from_decoder(dec).with_settings(settings);
	data.slice = c.slice;
	let mark = streamctl::mark();
	let (sound, handle) = data.into_sound().map_err(|e| Failure::simple("into-sound", format!("streaming into_sound failed: {e:?}")))?;
	let id = handle.verif_id();
	streamctl::adopt(id, mark);
	Ok(Stream { sound, handle, log, id })
}

fn apply_static(h: &mut StaticSoundHandle, cmd: &Cmd) {
	match cmd {
		Cmd::Volume(v, t) => h.set_volume(Decibels(*v), tween(t)),
		Cmd::Panning(v, t) => h.set_panning(Panning(*v), tween(t)),
		Cmd::Rate(v, t) => h.set_playback_rate(PlaybackRate(*v), tween(t)),
		Cmd::Pause(t) => h.pause(tween(t)),
		Cmd::Resume(t) => h.resume(tween(t)),
		Cmd::Stop(t) => h.stop(tween(t)),
	}
}

fn apply_stream(h: &mut StreamingSoundHandle<ScriptError>, cmd: &Cmd) {
	match cmd {
		Cmd::Volume(v, t) => h.set_volume(Decibels(*v), tween(t)),
		Cmd::Panning(v, t) => h.set_panning(Panning(*v), tween(t)),
		Cmd::Rate(v, t) => h.set_playback_rate(PlaybackRate(*v), tween(t)),
		Cmd::Pause(t) => h.pause(tween(t)),
		Cmd::Resume(t) => h.resume(tween(t)),
		Cmd::Stop(t) => h.stop(tween(t)),
	}
}

struct Outcome {
	looped_across_packet: bool,
	paused: bool,
	rate_not_one: bool,
	ring_wrapped: bool,
	timeouts: usize,
}

fn run_case(c: &Case) -> Result<Outcome, Failure> {
	streamctl::install();
	streamctl::set_callback_active(false);
	let frames = content_frames(crate::scene::ast::Content::Noise(c.seed), c.len);
	let mut settings = StaticSoundSettings::new()
		.start_position(PlaybackPosition::Samples(c.start))
		.loop_region(region(c.loop_region))
		.volume(Decibels(c.volume))
		.panning(Panning(c.panning))
		.playback_rate(PlaybackRate(c.rate))
		.fade_in_tween(c.fade_in.as_ref().map(tween));
	if c.start_delay > 0.0 {
		settings = settings.start_time(StartTime::Delayed(Duration::from_secs_f64(c.start_delay)));
	}
	let sdata = StaticSoundData {
		sample_rate: c.sound_rate,
		frames: frames.clone(),
		settings,
		slice: c.slice,
	};
	let (mut st_sound, mut st_handle) = sdata.into_sound().map_err(|_| Failure::simple("into-sound", "static into_sound failed"))?;
	let mut a = make_stream(c, &frames, &c.dec_a)?;
	let mut b = make_stream(c, &frames, &c.dec_b)?;
	let info = MockInfoBuilder::new().build();
	let dt = 1.0 / c.device_rate as f64;
	let mut t = 0usize;
	let mut timeouts = 0;
	let mut ended = false;
	let mut paused = false;
	let result = (|| -> Result<(), Failure> {
		for (ci, len) in c.chunks.iter().enumerate() {
			for (at, cmd) in &c.cmds {
				if *at == ci {
					apply_static(&mut st_handle, cmd);
					apply_stream(&mut a.handle, cmd);
					apply_stream(&mut b.handle, cmd);
					if matches!(cmd, Cmd::Pause(_)) {
						paused = true;
					}
				}
			}
			// the decoders keep ahead: both rings are full (or the streams have been decoded to
			// their end) before the sounds are asked for audio, and do not move during the call
			let streams = [(a.id, a.log.clone()), (b.id, b.log.clone())];
			if !streamctl::wait_quiescent_or_flag(&streams, Duration::from_secs(20)) {
				timeouts += 1;
			}
			streamctl::set_callback_active(true);
			let mut o_st = vec![Frame::ZERO; *len];
			let mut o_a = vec![Frame::ZERO; *len];
			let mut o_b = vec![Frame::ZERO; *len];
			st_sound.on_start_processing();
			a.sound.on_start_processing();
			b.sound.on_start_processing();
			let (p_st, p_a, p_b) = (st_handle.position(), a.handle.position(), b.handle.position());
			st_sound.process(&mut o_st, dt, &info);
			a.sound.process(&mut o_a, dt, &info);
			b.sound.process(&mut o_b, dt, &info);
			streamctl::set_callback_active(false);
			for i in 0..*len {
				ensure!(
					o_a[i] == o_st[i],
					"stream-output-equals-static",
					"output frame {} (chunk {ci}, offset {i}): streaming {:?}, static {:?}; case {c:?}",
					t + i,
					o_a[i],
					o_st[i]
				);
				ensure!(
					o_b[i] == o_a[i],
					"independent-of-packet-split-and-seek-granularity",
					"output frame {} (chunk {ci}, offset {i}): decoder A {:?}, decoder B {:?}; case {c:?}",
					t + i,
					o_a[i],
					o_b[i]
				);
			}
			t += len;
			let (s_st, s_a, s_b) = (st_handle.state(), a.handle.state(), b.handle.state());
			ensure!(s_a == s_st, "stream-state-equals-static", "after chunk {ci} ({t} frames): streaming state {s_a:?}, static state {s_st:?}; case {c:?}");
			ensure!(s_b == s_st, "stream-state-equals-static", "after chunk {ci} ({t} frames): streaming(B) state {s_b:?}, static state {s_st:?}; case {c:?}");
			// "until the sound ends": positions are compared while source frames are still being
			// heard; once the static sound reports the frame just past the last one the audio
			// is over (the state follows one frame later)
			let n_eff = c.slice.map(|(a, b)| b - a).unwrap_or(c.len);
			let past_last_frame = c.loop_region.is_none() && (p_st * c.sound_rate as f64).round() as usize >= n_eff;
			if !ended && !past_last_frame {
				let tol = 1.0 / c.sound_rate as f64 + 1e-12;
				ensure!((p_a - p_st).abs() <= tol, "stream-position-equals-static", "before chunk {ci}: streaming position {p_a} s, static position {p_st} s (one frame = {} s); case {c:?}", 1.0 / c.sound_rate as f64);
				ensure!((p_b - p_st).abs() <= tol, "stream-position-equals-static", "before chunk {ci}: streaming(B) position {p_b} s, static position {p_st} s; case {c:?}");
			}
			if s_st == PlaybackState::Stopped {
				ended = true;
			}
		}
		Ok(())
	})();
	// let the decoder threads end: stop the sounds and give them one more chunk
	streamctl::set_callback_active(false);
	let instant = Tween {
		duration: Duration::ZERO,
		..Default::default()
	};
	a.handle.stop(instant);
	b.handle.stop(instant);
	let mut scratch = vec![Frame::ZERO; 4];
	for s in [&mut a.sound, &mut b.sound] {
		s.on_start_processing();
		s.process(&mut scratch, dt, &info);
	}
	streamctl::abandon_all();
	result?;
	let looped_across_packet = c.loop_region.is_some() && (c.dec_a.packets.iter().any(|p| *p > 1));
	let consumed = a.log.frames_decoded.load(std::sync::atomic::Ordering::SeqCst);
	Ok(Outcome {
		looped_across_packet,
		paused,
		rate_not_one: c.rate != 1.0 || c.cmds.iter().any(|(_, c)| matches!(c, Cmd::Rate(..))),
		ring_wrapped: consumed > 16384,
		timeouts,
	})
}

fn gen_decoder(src: &mut Src) -> DecoderCfg {
	let mut packets = vec![];
	for _ in 0..src.usize_in(1, 4) {
		packets.push(match src.weighted(&[2, 3, 2, 1]) {
			0 => 1,
			1 => src.usize_in(1, 64),
			2 => src.usize_in(64, 1200),
			_ => src.usize_in(1200, 20000),
		});
	}
	DecoderCfg {
		packets,
		seek_granularity: match src.weighted(&[3, 3, 2]) {
			0 => 1,
			1 => src.usize_in(1, 64),
			_ => src.usize_in(64, 1152),
		},
		seek_early: src.weighted(&[5, 2, 1]),
	}
}

fn gen_tw(src: &mut Src, chunk_s: f64) -> TweenSpec {
	TweenSpec {
		start: match src.weighted(&[5, 2]) {
			0 => StartSpec::Immediate,
			_ => StartSpec::Delayed(src.f64_uniform(0.0, chunk_s * 3.0)),
		},
		dur_s: match src.weighted(&[3, 3, 3]) {
			0 => 0.0,
			1 => src.f64_uniform(0.0, chunk_s),
			_ => src.f64_uniform(0.0, chunk_s * 8.0),
		},
		easing: gen_easing(src),
	}
}

fn decode(src: &mut Src, tier: Tier) -> Case {
	let long = src.chance(1, tier.pick(40, 12));
	let len = if long {
		src.usize_in(16000, 40000)
	} else {
		match src.weighted(&[2, 3, 3]) {
			0 => src.usize_in(1, 8),
			1 => src.usize_in(1, 200),
			_ => src.usize_in(1, 3000),
		}
	};
	let sound_rate = src.pick(&[48000u32, 44100, 8000, 22050, 1000]);
	let device_rate = if src.chance(2, 3) { sound_rate } else { src.pick(&[48000u32, 44100, 96000, 8000]) };
	let slice = if src.chance(1, 4) {
		let a = src.usize_in(0, len - 1);
		let b = src.usize_in(a + 1, len);
		Some((a, b))
	} else {
		None
	};
	let n = slice.map(|(a, b)| b - a).unwrap_or(len);
	// (one start position in twelve lies at or just past the end: nothing to play, and both kinds of
	// sound must say so in the same way)
	let start = match src.weighted(&[8, 3, 1]) {
		0 => 0,
		1 => src.usize_in(0, n - 1),
		_ => n + src.pick(&[0usize, 1, 5]),
	};
	let loop_region = if src.chance(1, 3) {
		let s = src.usize_in(0, n - 1);
		if src.chance(1, 3) {
			Some((s, None))
		} else {
			Some((s, Some(src.usize_in(s + 1, n))))
		}
	} else {
		None
	};
	let rate = match src.weighted(&[4, 3, 3]) {
		0 => 1.0,
		1 => src.pick(&[0.5, 2.0, 0.25, 4.0, 0.0, 1.5]),
		_ => src.f64_uniform(0.0, 4.0),
	};
	let max_chunk = 512;
	let speed = (rate * sound_rate as f64 / device_rate as f64).max(0.1);
	let target_frames = if loop_region.is_some() {
		(n as f64 * 3.0 / speed) as usize + 64
	} else {
		(n as f64 * 1.3 / speed) as usize + 32
	}
	.clamp(16, if long { 60000 } else { 8000 });
	let mode = src.weighted(&[2, 2, 3]);
	let fixed = src.usize_in(1, max_chunk);
	let mut chunks = vec![];
	let mut left = target_frames;
	while left > 0 {
		let mut k = match mode {
			0 => max_chunk,
			1 => fixed,
			_ => src.usize_in(1, max_chunk),
		};
		// every chunk costs a hand-shake with two decoder threads (up to 1 ms): keep the number
		// of chunks bounded
		if chunks.len() >= 300 {
			k = max_chunk;
		}
		let k = k.min(left);
		chunks.push(k);
		left -= k;
	}
	let chunk_s = 128.0 / device_rate as f64;
	let mut cmds = vec![];
	for _ in 0..src.weighted(&[3, 3, 2, 2, 1]) {
		let at = src.index(chunks.len());
		let cmd = match src.weighted(&[3, 2, 3, 3, 3, 2]) {
			0 => Cmd::Volume(src.f32_in(-70.0, 6.0), gen_tw(src, chunk_s)),
			1 => Cmd::Panning(src.f32_in(-1.0, 1.0), gen_tw(src, chunk_s)),
			2 => Cmd::Rate(src.f64_uniform(0.0, 4.0), gen_tw(src, chunk_s)),
			3 => Cmd::Pause(gen_tw(src, chunk_s)),
			4 => Cmd::Resume(gen_tw(src, chunk_s)),
			_ => Cmd::Stop(gen_tw(src, chunk_s)),
		};
		cmds.push((at, cmd));
	}
	cmds.sort_by_key(|(at, _)| *at);
	let case = Case {
		len,
		seed: src.raw() | 1,
		sound_rate,
		device_rate,
		slice,
		start,
		loop_region,
		volume: if src.chance(1, 3) { src.f32_in(-30.0, 6.0) } else { 0.0 },
		panning: if src.chance(1, 4) { src.f32_in(-1.0, 1.0) } else { 0.0 },
		rate,
		fade_in: if src.chance(1, 5) { Some(gen_tw(src, chunk_s)) } else { None },
		start_delay: if src.chance(1, 6) { src.f64_uniform(0.0, chunk_s * 4.0) } else { 0.0 },
		chunks,
		cmds,
		dec_a: gen_decoder(src),
		dec_b: gen_decoder(src),
	};
	// half of the long cases get a fade that outlasts what the ring holds when it begins (a stop,
	// pause or volume tween of 17 000 .. 30 000 device frames near the start): the decoder has to
	// keep delivering while the sound fades
	let mut case = case;
	if long && src.chance(1, 2) {
		let tw = TweenSpec {
			start: StartSpec::Immediate,
			dur_s: src.usize_in(17000, 30000) as f64 / case.device_rate as f64,
			easing: kira::Easing::Linear,
		};
		let cmd = match src.weighted(&[3, 2, 1]) {
			0 => Cmd::Stop(tw),
			1 => Cmd::Pause(tw),
			_ => Cmd::Volume(-40.0, tw),
		};
		case.cmds.push((src.index(case.chunks.len().min(4)), cmd));
		case.cmds.sort_by_key(|(at, _)| *at);
	}
	// the streaming sound reads its frames from a ring of 16384 slots: half of the long cases at
	// playback speed 1 put a callback boundary exactly where the ring's read position sits on its
	// last slot (16383 frames consumed, or a few frames either side), after a callback of at least
	// two frames - what is reported and rendered there must not depend on where the ring wraps
	if long && case.rate == 1.0 && case.sound_rate == case.device_rate && n > 17000 && src.chance(1, 2) {
		let t = if src.bool() { 16383usize } else { 16375 + src.usize_in(0, 16) };
		let mut acc = 0usize;
		let mut j = 0;
		while j < case.chunks.len() && acc + case.chunks[j] <= t {
			acc += case.chunks[j];
			j += 1;
		}
		if j < case.chunks.len() && acc < t {
			let head = t - acc;
			let tail = case.chunks[j] - head;
			if head >= 2 {
				case.chunks[j] = head;
				case.chunks.insert(j + 1, tail);
			} else if j > 0 {
				case.chunks[j - 1] += head;
				case.chunks[j] = tail;
			}
			case.chunks.retain(|k| *k > 0);
		}
	}
	case
}

impl Property for C09 {
	fn id(&self) -> &'static str {
		"C09"
	}
	fn rule(&self) -> &'static str {
		"each case builds one random audio buffer and plays it three ways side by side as Box<dyn Sound> with identical process() calls: StaticSoundData, and StreamingSoundData over two scripted decoders with different packet splits (1..20000 frames, variable) and seek behaviour (granularity 1..1152, landing up to 2 granules early). Settings: start position, slice, loop region, volume, panning, rate >= 0, fade-in, start delay; command histories of set_volume / set_panning / set_playback_rate / pause / resume / stop with generated tweens at arbitrary chunk boundaries (no seeks). The decoder threads are held at their loop top during each process call and are allowed to fill their ring (or reach the end) before it (hook H2), i.e. the decoder keeps ahead; half of the long cases at speed 1 place a callback boundary at (or within 8 frames of) 16383 consumed frames, where the streaming sound's 16384-slot frame ring wraps. Oracles: streaming output == static output bit-for-bit, decoder A output == decoder B output, states equal after every chunk, positions within one frame until the sound ends. Non-trivial = loop with multi-frame packets, or a pause, or rate != 1, or more than 16384 frames streamed; distinct = distinct decoded choices."
	}
	fn assumptions(&self) -> Vec<String> {
		vec![
			"'decoder keeps ahead' is realised with the decode_loop / decode_pushed / decode_wait hook points: before each process() call every decoder has filled its 16384-frame ring or finished; playback speed x chunk size stays below the ring size".into(),
			"sounds are driven directly (on_start_processing + process) with a MockInfoBuilder Info".into(),
			"'until the sound ends' for positions: until the static sound reports the position just past its last frame (the Stopped state follows one processed frame later; in that gap the streaming sound still reports its previous position)".into(),
		]
	}
	fn tape_len(&self, _tier: Tier) -> usize {
		300
	}
	fn cases(&self, tier: Tier) -> u64 {
		tier.pick(12_000, 300_000)
	}
	fn case_time_limit_s(&self) -> u64 {
		60
	}

	fn run(&self, tape: &[u32], ctx: &mut Ctx) -> CaseResult {
		let mut src = Src::new(tape);
		let case = decode(&mut src, ctx.tier);
		ctx.describe(|| format!("{case:?}"));
		let o = run_case(&case)?;
		if o.timeouts > 0 {
			ctx.count("decoder-quiescence-timeouts", o.timeouts as u64);
		}
		let mut classes = vec![];
		if o.looped_across_packet {
			classes.push("loop-with-multi-frame-packets");
		}
		if o.paused {
			classes.push("pause");
		}
		if o.rate_not_one {
			classes.push("rate-not-one");
		}
		if o.ring_wrapped {
			classes.push("ring-wrapped");
		}
		if case.slice.is_some() {
			classes.push("slice");
		}
		let nt = !classes.is_empty();
		Ok(CaseInfo::new(&src, nt, classes))
	}
}
