//! C10 - decoder threads always end; decode errors stop the sound and reach the handle.

use crate::engine::tape::enc;
use crate::engine::{CaseInfo, CaseResult, Ctx, Enumeration, Failure, Property, Src, Tier};
use crate::ensure;
use crate::probes::{default_manager, streamctl, DecoderLog, FaultPlan, Mgr, ScriptDecoder, ScriptError};
use kira::sound::streaming::{StreamingSoundData, StreamingSoundHandle, StreamingSoundSettings};
use kira::sound::PlaybackState;
use kira::track::{TrackBuilder, TrackHandle};
use kira::{Frame, PlaySoundError, Tween};
use std::sync::atomic::Ordering;
use std::sync::Arc;
use std::time::{Duration, Instant};

pub struct C10;

#[derive(Debug, Clone, Copy, PartialEq)]
enum Place {
	Main,
	SubTrack,
	/// on a sub-track that was paused before the sound was played
	PausedSubTrack,
	/// on a plain sub-track of a spatial track whose listener has been dropped (the spatial track is
	/// silent, but everything on it is still processed)
	UnderSpatialTrackWithoutListener,
}

#[derive(Debug, Clone, Copy, PartialEq)]
enum End {
	/// play to the natural end
	Natural,
	/// stop() with an instant tween before callback j
	StopAt(usize),
	/// the track is full: play() is refused
	Rejected,
	/// the handle of the sub-track is dropped before callback j
	TrackDropped(usize),
	/// the whole manager is dropped before callback j
	ManagerDropped(usize),
	/// nothing ends the sound within the case (it is stopped at the very end)
	KeepsPlaying,
}

#[derive(Debug, Clone, Copy, PartialEq)]
enum Pace {
	Ahead,
	/// the decoder gets this many steps per callback
	Starving(u64),
	/// the decoder stalls for good after this many steps
	Stalled(u64),
}

/// what keeps the sound itself from advancing while the decoder works
#[derive(Debug, Clone, Copy, PartialEq)]
enum Hold {
	None,
	/// pause() on the sound's handle before its first callback
	Paused,
	/// a start time ten seconds away
	Delayed,
}

#[derive(Debug, Clone)]
struct Case {
	hold: Hold,
	frames: usize,
	looping: bool,
	packets: Vec<usize>,
	seek_granularity: usize,
	fault: FaultPlan,
	place: Place,
	end: End,
	pace: Pace,
	chunk: usize,
	callbacks: usize,
	/// playback rate (1, 2 or 4 source frames per output frame: the arithmetic stays exact)
	stride: u32,
	/// slice of the stream (the end may lie past the end of the audio) and start position inside it
	/// (may lie past the end of the slice or of the audio: nothing to play then)
	slice: Option<(usize, usize)>,
	start: usize,
}

const RATE: u32 = 8000;

fn instant() -> Tween {
	Tween {
		duration: Duration::ZERO,
		..Default::default()
	}
}

/// frame i carries (i + 1) / 65536 on both channels
fn source(n: usize) -> Arc<[Frame]> {
	(0..n).map(|i| Frame::from_mono((i + 1) as f32 / 65536.0)).collect::<Vec<_>>().into()
}

fn wait_dropped(log: &DecoderLog, limit: Duration) -> Option<Duration> {
	let start = Instant::now();
	loop {
		if log.dropped.load(Ordering::SeqCst) {
			return Some(start.elapsed());
		}
		if start.elapsed() > limit {
			return None;
		}
		std::thread::sleep(Duration::from_micros(200));
	}
}

struct Outcome {
	fault_after_good_packet: bool,
	discard: bool,
	starving: bool,
}

fn run_case(c: &Case) -> Result<Outcome, Failure> {
	streamctl::install();
	streamctl::set_callback_active(false);
	streamctl::set_default_budget(match c.pace {
		Pace::Ahead => None,
		Pace::Starving(_) => Some(0),
		Pace::Stalled(n) => Some(n),
	});
	let result = run_inner(c);
	streamctl::set_default_budget(None);
	streamctl::set_callback_active(false);
	streamctl::abandon_all();
	result
}

fn run_inner(c: &Case) -> Result<Outcome, Failure> {
	let mut mgr: Option<Mgr> = Some(default_manager(RATE, c.chunk.min(64).max(1)));
	let m = mgr.as_mut().unwrap();
	let mut _spatial_parent = None;
	let mut track: Option<TrackHandle> = match c.place {
		Place::Main => None,
		Place::UnderSpatialTrackWithoutListener => {
			let listener = m.add_listener(glam::Vec3::ZERO, glam::Quat::IDENTITY).map_err(|_| Failure::simple("setup", "listener"))?;
			let mut sp = m.add_spatial_sub_track(listener.id(), glam::Vec3::new(1.0, 0.0, 0.0), kira::track::SpatialTrackBuilder::new()).map_err(|_| Failure::simple("setup", "spatial track"))?;
			drop(listener);
			let child = sp.add_sub_track(TrackBuilder::new().sound_capacity(1)).map_err(|_| Failure::simple("setup", "track"))?;
			_spatial_parent = Some(sp);
			Some(child)
		}
		_ => Some(m.add_sub_track(TrackBuilder::new().sound_capacity(1)).map_err(|_| Failure::simple("setup", "track"))?),
	};
	if c.place == Place::PausedSubTrack {
		track.as_mut().unwrap().pause(instant());
	}
	m.backend_mut().callback(c.chunk, 2);
	if c.end == End::Rejected {
		// (the refused sound has no handle to pace it by: its decoder runs freely)
		streamctl::set_default_budget(None);
		// fill the track (capacity 1) with a first, endless sound
		let (dec0, _l0) = ScriptDecoder::new(source(40000), RATE);
		let data0 = StreamingSoundData::from_decoder(dec0).with_settings(StreamingSoundSettings::new().loop_region(..));
		let t = track.get_or_insert_with(|| m.add_sub_track(TrackBuilder::new().sound_capacity(1)).unwrap());
		let mut blocker = t.play(data0).map_err(|_| Failure::simple("setup", "blocker"))?;
		let (mut dec, log) = ScriptDecoder::new(source(c.frames), RATE);
		dec.packets = c.packets.clone();
		let mut settings = StreamingSoundSettings::new();
		if c.looping {
			settings = settings.loop_region(..);
		}
		let r = t.play(StreamingSoundData::from_decoder(dec).with_settings(settings));
		ensure!(matches!(r, Err(PlaySoundError::SoundLimitReached)), "setup", "the second sound was not refused");
		drop(r);
		let waited = wait_dropped(&log, Duration::from_secs(4));
		// release the blocker's thread
		blocker.stop(instant());
		m.backend_mut().callback(c.chunk, 2);
		m.backend_mut().callback(c.chunk, 2);
		return match waited {
			Some(_) => Ok(Outcome {
				fault_after_good_packet: false,
				discard: true,
				starving: false,
			}),
			None => Err(Failure::new("decoder-thread-ends", "decoder-thread-ends:sound-rejected-by-full-track", format!("a streaming sound refused by a full track: its decoder was still alive 4 s later ({} decode calls so far); case {c:?}", log.decode_calls.load(Ordering::SeqCst)))),
		};
	}
	// the sound under test
	let (mut dec, log) = ScriptDecoder::new(source(c.frames), RATE);
	dec.packets = c.packets.clone();
	dec.seek_granularity = c.seek_granularity;
	dec.fault = c.fault;
	let mut settings = StreamingSoundSettings::new();
	if c.looping {
		settings = settings.loop_region(..);
	}
	if c.hold == Hold::Delayed {
		settings = settings.start_time(kira::StartTime::Delayed(Duration::from_secs(10)));
	}
	if c.stride != 1 {
		settings = settings.playback_rate(c.stride as f64);
	}
	if c.start != 0 {
		settings = settings.start_position(kira::sound::PlaybackPosition::Samples(c.start));
	}
	let mut data = StreamingSoundData::from_decoder(dec).with_settings(settings);
	if let Some((a, b)) = c.slice {
		data = data.slice(kira::sound::Region {
			start: kira::sound::PlaybackPosition::Samples(a),
			end: kira::sound::EndPosition::Custom(kira::sound::PlaybackPosition::Samples(b)),
		});
	}
	let mark = streamctl::mark();
	let played: Result<StreamingSoundHandle<ScriptError>, PlaySoundError<ScriptError>> = match &mut track {
		None => m.play(data),
		Some(t) => t.play(data),
	};
	let mut handle = match played {
		Ok(h) => h,
		Err(PlaySoundError::IntoSoundError(e)) => {
			// the very first seek failed: no sound, no thread, decoder released at once
			ensure!(matches!(c.fault, FaultPlan::Seek { k: 0, .. }), "error-reaches-the-caller", "play() failed with {e:?} without a scripted fault on the first seek; case {c:?}");
			ensure!(log.dropped.load(Ordering::SeqCst), "decoder-thread-ends", "play() failed but the decoder was not released; case {c:?}");
			return Ok(Outcome {
				fault_after_good_packet: false,
				discard: false,
				starving: false,
			});
		}
		Err(e) => return Err(Failure::simple("setup", format!("play failed: {e:?}"))),
	};
	let id = handle.verif_id();
	streamctl::adopt(id, mark);
	if c.hold == Hold::Paused {
		handle.pause(instant());
	}
	let streams = [(id, log.clone())];
	let mut out_all: Vec<f32> = vec![];
	let mut stopped_at: Option<usize> = None;
	let mut first_error: Option<String> = None;
	let mut trigger: Option<(&'static str, Instant)> = None;
	let mut silent_since_stop = true;
	let mut unloaded_checked = false;
	let mut flagged_and_processed = false;
	for j in 0..c.callbacks {
		match c.end {
			End::StopAt(k) if k == j => {
				handle.stop(instant());
			}
			End::TrackDropped(k) if k == j => {
				if let Some(t) = track.take() {
					drop(t);
				}
			}
			End::ManagerDropped(k) if k == j => {
				// everything the audio side owns goes away with the manager
				drop(track.take());
				drop(mgr.take());
				trigger = Some(("manager-dropped", Instant::now()));
				break;
			}
			_ => {}
		}
		if let Pace::Starving(n) = c.pace {
			streamctl::grant(id, n);
		}
		streamctl::settle(&streams)?;
		// (the hook reports an error after the error flag is published)
		let flagged = streamctl::state(id).errors > 0;
		let processed_now = c.place != Place::PausedSubTrack && !matches!(c.end, End::TrackDropped(k) if j >= k);
		streamctl::set_callback_active(true);
		let m = mgr.as_mut().unwrap();
		let cb = m.backend_mut().callback(c.chunk, 2);
		streamctl::set_callback_active(false);
		if let Some(p) = &cb.guard.panic {
			return Err(Failure::panic("", p));
		}
		let state = handle.state();
		if flagged && processed_now {
			// (3) a decode error stops the sound at the next processed callback, without further audio
			flagged_and_processed = true;
			ensure!(state == PlaybackState::Stopped, "error-stops-the-sound", "the decoder had reported an error before callback {j}; after it the sound reports {state:?}; case {c:?}");
			ensure!(cb.out.iter().all(|s| *s == 0.0), "silent-after-stopped", "the decoder had reported an error before callback {j}, yet the callback is not silent; case {c:?}");
		}
		if stopped_at.is_some() {
			silent_since_stop &= cb.out.iter().all(|s| *s == 0.0);
		}
		out_all.extend(cb.out.iter().step_by(2));
		if state == PlaybackState::Stopped && stopped_at.is_none() {
			stopped_at = Some(j);
			trigger.get_or_insert(("stopped", Instant::now()));
		}
		if let Some(s) = stopped_at {
			if j == s + 1 && !unloaded_checked {
				unloaded_checked = true;
				let n = match &track {
					Some(t) => t.num_sounds(),
					None => m.main_track().num_sounds(),
				};
				ensure!(n == 0 || c.end == End::TrackDropped(0), "unloaded-after-stopped", "one callback after the sound became Stopped its track still reports {n} sounds; case {c:?}");
			}
		}
		if first_error.is_none() {
			if let Some(e) = handle.pop_error() {
				first_error = Some(e.0);
			}
		}
		if let End::TrackDropped(k) = c.end {
			if j == k {
				trigger.get_or_insert(("track-dropped", Instant::now()));
			}
		}
	}
	// a stop() is never lost: two processed callbacks later the sound is Stopped, whatever it was
	// doing (playing, paused through its handle, waiting for its start time)
	if let End::StopAt(k) = c.end {
		if c.callbacks >= k + 2 && c.place != Place::PausedSubTrack {
			ensure!(stopped_at.is_some(), "stop-reaches-stopped", "stop() was called before callback {k}; after callback {} the sound still reports {:?}; case {c:?}", c.callbacks - 1, handle.state());
		}
	}
	ensure!(silent_since_stop, "silent-after-stopped", "audio was emitted after the sound reported Stopped; case {c:?}");

	// (3) ... and the first error reaches the handle
	let errors = log.errors_returned.load(Ordering::SeqCst);
	if flagged_and_processed {
		let e = first_error.clone().or_else(|| handle.pop_error().map(|e| e.0));
		let Some(e) = e else {
			return Err(Failure::simple("first-error-reaches-the-handle", format!("the decoder reported {errors} error(s) but pop_error() returned nothing; case {c:?}")));
		};
		let want = match c.fault {
			FaultPlan::Decode { k, .. } => format!("scripted decode fault at call {k}"),
			FaultPlan::Seek { k, .. } => format!("scripted seek fault at call {k}"),
			FaultPlan::None => String::new(),
		};
		ensure!(c.fault == FaultPlan::None || e == want, "first-error-reaches-the-handle", "pop_error() returned {e:?}, the first error was {want:?}; case {c:?}");
	}

	// (3b) under a paused track the sound is not processed: the error must come through on resume
	if streamctl::state(id).errors > 0 && c.place == Place::PausedSubTrack && mgr.is_some() && track.is_some() {
		track.as_mut().unwrap().resume(instant());
		for _ in 0..2 {
			let cb = mgr.as_mut().unwrap().backend_mut().callback(c.chunk, 2);
			if let Some(p) = &cb.guard.panic {
				return Err(Failure::panic("", p));
			}
			ensure!(cb.out.iter().all(|s| *s == 0.0), "silent-after-stopped", "a sound whose decoder failed under a paused track is audible after the track resumed; case {c:?}");
		}
		ensure!(handle.state() == PlaybackState::Stopped, "error-stops-the-sound", "the decoder failed while the track was paused; two callbacks after the track resumed the sound reports {:?}; case {c:?}", handle.state());
		stopped_at.get_or_insert(c.callbacks);
		ensure!(first_error.is_some() || handle.pop_error().is_some(), "first-error-reaches-the-handle", "the decoder failed under a paused track but pop_error() returned nothing; case {c:?}");
	}

	// (3c) a decoder that was never told to fail reports no error: the sound never asks for audio
	// past the end of the stream, whatever slice and start position it was given
	if c.fault == FaultPlan::None {
		ensure!(errors == 0 && first_error.is_none(), "no-error-without-a-fault", "no fault was scripted, yet the decoder was driven into {errors} error(s) (first popped from the handle: {first_error:?}); case {c:?}");
	}
	// (1b) a sound that is left to play to its end with a decoder that keeps ahead does end: once
	// more output frames have been rendered than it has audio to play it reports Stopped
	if c.end == End::Natural && c.fault == FaultPlan::None && !c.looping && c.pace == Pace::Ahead && c.hold == Hold::None && mgr.is_some() && !matches!(c.place, Place::PausedSubTrack) {
		let (a, b) = c.slice.unwrap_or((0, c.frames));
		let playable = b.min(c.frames).saturating_sub(a).saturating_sub(c.start);
		let rendered = c.callbacks.saturating_sub(1) * c.chunk * c.stride as usize;
		if rendered > playable + 4 * c.chunk * c.stride as usize + 16 {
			ensure!(stopped_at.is_some(), "sound-ends-after-its-last-frame", "{playable} frames to play, {rendered} source frames' worth of callbacks rendered, and the sound still reports {:?}; case {c:?}", handle.state());
		}
	}

	// (4) a slow decoder causes gaps, never repeated / reordered / foreign frames
	if c.fault == FaultPlan::None && !c.looping {
		let mut prev: Option<u32> = None;
		let mut skipped = 0u32;
		let mut underruns = 0u32;
		let mut in_gap = false;
		for (i, s) in out_all.iter().enumerate() {
			if *s == 0.0 {
				if prev.is_some() && !in_gap {
					in_gap = true;
					underruns += 1;
				}
				continue;
			}
			in_gap = false;
			let idx = (*s as f64 * 65536.0).round();
			ensure!((idx - *s as f64 * 65536.0).abs() < 1e-3 && idx >= 1.0 && idx <= c.frames as f64, "no-foreign-frames", "output frame {i} = {s} is not a frame of the source; case {c:?}");
			let idx = idx as u32;
			if let Some(p) = prev {
				ensure!(idx > p, "no-repeated-or-reordered-frames", "output frame {i} carries source frame {idx} after source frame {p}; case {c:?}");
				// (at playback rate s consecutive output frames are s source frames apart)
				skipped += (idx - p).saturating_sub(c.stride);
			}
			prev = Some(idx);
		}
		ensure!(skipped <= underruns + 1, "continues-within-a-frame-after-a-gap", "{skipped} source frames were skipped over {underruns} gaps of silence (at most one per gap); case {c:?}");
	}

	// (2) no busy spinning while there is nothing to do
	if mgr.is_some() {
		let before = streamctl::total_idle_loops();
		let w = 40;
		std::thread::sleep(Duration::from_millis(w));
		let spins = streamctl::total_idle_loops().saturating_sub(before);
		if spins > 2 * w + 50 {
			let sig = if errors > 0 { "decoder-does-not-busy-spin:decoder-keeps-failing" } else { "decoder-does-not-busy-spin" };
			return Err(Failure::new("decoder-does-not-busy-spin", sig, format!("the decode loop ran {spins} times without delivering a frame in a window of {w} ms (a sleeping loop does at most {}); decoder errors so far: {errors}; case {c:?}", 2 * w + 50)));
		}
	}

	// (1) the decoding thread ends and releases its decoder
	let expect_end = match c.end {
		End::Natural => stopped_at.is_some() || errors > 0,
		End::StopAt(_) => stopped_at.is_some(),
		End::TrackDropped(_) | End::ManagerDropped(_) => true,
		End::KeepsPlaying | End::Rejected => errors > 0 && stopped_at.is_some(),
	};
	let stalled = matches!(c.pace, Pace::Stalled(_) | Pace::Starving(_));
	if expect_end {
		// a stalled decoder is parked inside its own decode step by the harness: let it go
		if stalled {
			streamctl::set_budget(id, None);
		}
		let (why, _) = trigger.unwrap_or(("ended", Instant::now()));
		if wait_dropped(&log, Duration::from_secs(4)).is_none() {
			let sig = match c.end {
				End::TrackDropped(_) => "decoder-thread-ends:track-handle-dropped",
				End::ManagerDropped(_) => "decoder-thread-ends:manager-dropped",
				_ if errors > 0 => "decoder-thread-ends:after-decoder-error",
				_ => "decoder-thread-ends",
			};
			return Err(Failure::new("decoder-thread-ends", sig, format!("4 s after '{why}' the decoding thread still holds its decoder ({} decode calls, {} errors); case {c:?}", log.decode_calls.load(Ordering::SeqCst), errors)));
		}
	} else {
		// end the thread ourselves
		streamctl::set_budget(id, None);
		handle.stop(instant());
		if let Some(m) = mgr.as_mut() {
			if c.place == Place::PausedSubTrack {
				if let Some(t) = track.as_mut() {
					t.resume(instant());
				}
			}
			m.backend_mut().callback(c.chunk, 2);
			m.backend_mut().callback(c.chunk, 2);
		}
	}
	let good_before_fault = match c.fault {
		FaultPlan::Decode { k, .. } => k > 0,
		FaultPlan::Seek { k, .. } => k > 0,
		FaultPlan::None => false,
	};
	Ok(Outcome {
		fault_after_good_packet: good_before_fault && errors > 0,
		discard: matches!(c.end, End::TrackDropped(_) | End::ManagerDropped(_)),
		starving: matches!(c.pace, Pace::Starving(_)),
	})
}

fn decode(src: &mut Src, ctx: &mut Ctx) -> Case {
	if src.below(4) == 0 {
		// enumerated: short stream, every fault position
		let frames = 1 + src.below(64) as usize;
		let packet = 1 + src.below(8) as usize;
		let fault_kind = src.below(3);
		let k = src.below(80) as usize;
		let forever = src.below(2) == 1;
		let place = [Place::Main, Place::SubTrack][src.below(2) as usize];
		let hold = [Hold::None, Hold::Paused, Hold::Delayed][src.below(3) as usize];
		return Case {
			hold,
			frames,
			looping: false,
			packets: vec![packet],
			seek_granularity: 1,
			fault: match fault_kind {
				0 => FaultPlan::None,
				1 => FaultPlan::Decode { k, forever },
				_ => FaultPlan::Seek { k: k.min(1), forever },
			},
			place,
			end: End::Natural,
			pace: Pace::Ahead,
			chunk: 16,
			callbacks: frames / 16 + 4,
			stride: 1,
			slice: None,
			start: 0,
		};
	}
	let long = src.chance(1, 3);
	let frames = if long { src.usize_in(17000, 40000) } else { src.usize_in(1, 2000) };
	let looping = src.chance(1, 4);
	let chunk = src.pick(&[64usize, 16, 256, 1]);
	let callbacks = src.usize_in(3, 14);
	let mut end = match src.weighted(&[3, 3, 2, 2, 2, 2]) {
		0 => End::Natural,
		1 => End::StopAt(src.index(callbacks)),
		2 => End::Rejected,
		3 => End::TrackDropped(src.index(callbacks)),
		4 => End::ManagerDropped(src.index(callbacks)),
		_ => End::KeepsPlaying,
	};
	let mut place = src.pick(&[Place::Main, Place::SubTrack, Place::PausedSubTrack, Place::UnderSpatialTrackWithoutListener]);
	if matches!(end, End::TrackDropped(_)) && place == Place::Main {
		place = Place::SubTrack;
	}
	let fault = match src.weighted(&[4, 3, 2]) {
		0 => FaultPlan::None,
		1 => FaultPlan::Decode {
			k: src.usize_in(0, 40),
			forever: src.bool(),
		},
		_ => FaultPlan::Seek {
			k: src.usize_in(0, 3),
			forever: src.bool(),
		},
	};
	let pace = match src.weighted(&[5, 3, 1]) {
		0 => Pace::Ahead,
		1 => Pace::Starving(src.pick(&[1u64, 3, 17, 64, 300])),
		_ => Pace::Stalled(src.usize_in(0, 200) as u64),
	};
	// known-finding class
	if matches!(end, End::TrackDropped(_)) && (long || looping) && ctx.exclude("track-with-a-streaming-sound-dropped") {
		end = End::StopAt(0);
	}
	Case {
		hold: Hold::None,
		frames,
		looping,
		packets: (0..src.usize_in(1, 3)).map(|_| src.pick(&[1usize, 7, 64, 1152])).collect(),
		seek_granularity: src.pick(&[1usize, 8, 64]),
		fault,
		place,
		end,
		pace,
		chunk,
		callbacks,
		stride: 1,
		slice: None,
		start: 0,
	}
	.with_hold(src)
	.with_stride(src)
	.with_slice(src)
}

impl Case {
	/// (drawn after everything else, so that older tapes decode as before)
	fn with_slice(mut self, src: &mut Src) -> Self {
		if src.chance(1, 5) {
			let a = src.usize_in(0, self.frames - 1);
			let b = match src.weighted(&[2, 1, 1]) {
				0 => src.usize_in(a + 1, self.frames),
				1 => self.frames + src.usize_in(0, 300),
				_ => self.frames,
			};
			self.slice = Some((a, b));
			// inside the slice, at its end, past the end of the audio but inside an over-long slice
			self.start = match src.weighted(&[3, 1, 1]) {
				0 => 0,
				1 => src.usize_in(0, b - a),
				_ => (self.frames - a) + src.usize_in(0, (b - a).saturating_sub(self.frames - a)),
			};
		}
		self
	}
	/// (drawn last, so that older tapes decode as before)
	fn with_stride(mut self, src: &mut Src) -> Self {
		self.stride = [1u32, 2, 4][src.weighted(&[3, 1, 1])];
		self
	}
	fn with_hold(mut self, src: &mut Src) -> Self {
		self.hold = [Hold::None, Hold::Paused, Hold::Delayed][src.weighted(&[3, 1, 1])];
		self
	}
}

impl Property for C10 {
	fn id(&self) -> &'static str {
		"C10"
	}
	fn level(&self) -> &'static str {
		"fault_enumeration"
	}
	fn rule(&self) -> &'static str {
		"each case plays one streaming sound over a scripted decoder (index-coded frames, packet sizes 1..1152, seek granularity 1..64) through the real manager with a real decoding thread whose steps are scheduled through hook H2, under a fault plan (k-th decode() or seek() call fails once or forever), a scenario (main track, sub-track, sub-track paused beforehand, sub-track of a spatial track whose listener has been dropped; the sound itself playing, paused through its handle before its first callback, or waiting for a start time ten seconds away; natural end, stop() before callback j, refused by a full track, track handle dropped, manager dropped, left playing) and a decoder pace (ahead, n steps per callback, stalled after m steps). Oracles: a stop() with an instant tween reaches Stopped within two processed callbacks; the decoder object is released (its Drop is observed) within 4 s of the sound finishing / being stopped / failing / being refused or discarded; the decode loop runs at most 2w+50 times in an idle window of w ms; after a decoder error the sound is Stopped, unloaded one callback later, silent from then on, and pop_error() yields the first error; a fifth of the streams are sliced (the slice may reach past the end of the audio) and started anywhere up to the nominal end of the slice; without faults no decoder error is ever reported, a sound left to play with a decoder that keeps ahead reports Stopped once its audio is used up, and the audible frames (at playback rate 1, 2 or 4) are a strictly increasing subsequence of the source, consecutive ones one playback step apart, with at most one extra frame skipped per gap of silence. Enumeration: every stream length 1..24 x packet size 1..4 x every fault position (decode call k, first / later seek, once / forever) on the main track and a sub-track, with the sound playing, paused or waiting for its start time. Non-trivial = a fault after at least one good packet, a discard scenario, or a starving decoder; distinct = distinct decoded choices."
	}
	fn assumptions(&self) -> Vec<String> {
		vec![
			"'bounded time' is 4 s (typical: < 5 ms); the idle-spin bound compares against the loop's 1 ms sleep".into(),
			"the harness owns the schedule at decoder-step / callback granularity (hook H2), not inside a step".into(),
			"known-finding classes are excluded by construction and replayed as witnesses (see KNOWN_FINDINGS.txt)".into(),
		]
	}
	fn tape_len(&self, _tier: Tier) -> usize {
		64
	}
	fn cases(&self, tier: Tier) -> u64 {
		tier.pick(3_000, 60_000)
	}
	fn case_time_limit_s(&self) -> u64 {
		40
	}

	fn enumerations(&self, tier: Tier) -> Vec<Enumeration> {
		let (max_frames, max_packet) = tier.pick((24u64, 4u64), (64, 8));
		let mut tapes = vec![];
		for frames in 1..=max_frames {
			for packet in 1..=max_packet {
				let calls = frames / packet + 2;
				let mut plans: Vec<(u64, u64, u64)> = vec![(0, 0, 0)];
				for k in 0..calls {
					for forever in 0..2 {
						plans.push((1, k, forever));
					}
				}
				for k in 0..2 {
					for forever in 0..2 {
						plans.push((2, k, forever));
					}
				}
				for (kind, k, forever) in plans {
					for place in 0..2u64 {
						for hold in 0..3u64 {
							tapes.push(vec![enc(0, 4), enc(frames - 1, 64), enc(packet - 1, 8), enc(kind, 3), enc(k, 80), enc(forever, 2), enc(place, 2), enc(hold, 3)]);
						}
					}
				}
			}
		}
		vec![Enumeration {
			name: "every fault position of short streams (length x packet size x k-th decode / seek call x once / forever x main track / sub-track x sound playing / paused / waiting for its start time)",
			tapes: Box::new(tapes.into_iter()),
			exhaustive: true,
		}]
	}

	fn run(&self, tape: &[u32], ctx: &mut Ctx) -> CaseResult {
		let mut src = Src::new(tape);
		let case = decode(&mut src, ctx);
		ctx.describe(|| format!("{case:?}"));
		let o = run_case(&case)?;
		let mut classes = vec![];
		if o.fault_after_good_packet {
			classes.push("fault-after-good-packet");
		}
		if o.discard {
			classes.push("discard");
		}
		if o.starving {
			classes.push("starving-decoder");
		}
		if case.fault != FaultPlan::None {
			classes.push("fault");
		}
		Ok(CaseInfo::new(&src, o.fault_after_good_packet || o.discard || o.starving, classes))
	}
}
