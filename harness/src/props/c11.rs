//! C11 - rendered audio does not depend on buffer sizes.

use crate::engine::{CaseInfo, CaseResult, Ctx, Failure, Property, Src, Tier};
use crate::scene::ast::*;
use crate::scene::exec::World;
use crate::scene::fx::{gen_fx, gen_fx_kind, Domain, FxSpec};
use crate::scene::gen::{gen_db, gen_easing, gen_quat, STD_RATES};
use crate::scene::signal::gen_partition;

pub struct C11;

fn fixed_settings(src: &mut Src, len: usize) -> SoundSettings {
	let start = if len > 0 && src.chance(1, 3) { src.usize_in(0, len - 1) } else { 0 };
	let loop_region = if len > 1 && src.chance(1, 2) {
		let s = src.usize_in(0, len - 2);
		let e = if src.chance(1, 3) { None } else { Some(Pos::Samples(src.usize_in(s + 1, len))) };
		Some(RegionSpec { start: Pos::Samples(s), end: e })
	} else {
		None
	};
	SoundSettings {
		start_time: StartSpec::Immediate,
		start_position: Pos::Samples(start),
		loop_region,
		reverse: src.chance(1, 5),
		volume: VSpec::fixed(gen_db(src).clamp(-40.0, 6.0)),
		rate: VSpec::fixed(match src.weighted(&[3, 3, 3]) {
			0 => 1.0,
			1 => src.pick(&[0.5, 2.0, -1.0, 0.25, 1.5, -0.5]),
			_ => src.f64_uniform(-4.0, 4.0),
		}),
		panning: VSpec::fixed(if src.bool() { 0.0 } else { src.f64_uniform(-1.0, 1.0) }),
		fade_in: None,
	}
}

fn gen_effects(src: &mut Src, ctx: &mut Ctx, sr: u32, memoryless_only: bool) -> Vec<FxSpec> {
	(0..src.weighted(&[4, 3, 2, 1]))
		.map(|_| {
			if memoryless_only {
				// volume, panning, distortion
				let kind = src.pick(&[0usize, 1, 4]);
				gen_fx_kind(src, ctx, Domain::Documented, sr, 0, kind)
			} else {
				gen_fx(src, ctx, Domain::Documented, sr, 0)
			}
		})
		.collect()
}

struct Scene {
	program: Program,
	recursive: bool,
	spatial: bool,
}

fn contains_recursive(fx: &[FxSpec]) -> bool {
	fx.iter().any(|f| f.recursive())
}

fn gen_scene(src: &mut Src, ctx: &mut Ctx) -> Scene {
	let sample_rate = src.pick(&STD_RATES);
	let memoryless_only = src.bool();
	let mut recursive = false;
	let mut spatial = false;
	let main_effects = gen_effects(src, ctx, sample_rate, memoryless_only);
	recursive |= contains_recursive(&main_effects);
	let config = Config {
		sample_rate,
		internal_buffer_size: 128,
		channels: 2,
		sub_track_capacity: 128,
		send_track_capacity: 16,
		clock_capacity: 8,
		modulator_capacity: 16,
		listener_capacity: 8,
		main_sound_capacity: 128,
		main_volume: VSpec::fixed(gen_db(src).clamp(-30.0, 6.0)),
		main_effects,
	};
	let mut ops = vec![];
	let has_listener = src.chance(1, 4);
	if has_listener {
		let p = [src.f64_uniform(-5.0, 5.0) as f32, src.f64_uniform(-5.0, 5.0) as f32, src.f64_uniform(-5.0, 5.0) as f32];
		ops.push(Op::AddListener(p, gen_quat(src)));
	}
	let n_sends = src.weighted(&[4, 3, 2]);
	for _ in 0..n_sends {
		let effects = gen_effects(src, ctx, sample_rate, memoryless_only);
		recursive |= contains_recursive(&effects);
		ops.push(Op::AddSend {
			volume: VSpec::fixed(gen_db(src).clamp(-30.0, 6.0)),
			effects,
		});
	}
	let n_tracks = src.usize_in(0, 5);
	for t in 0..n_tracks {
		let parent = if t > 0 && src.chance(1, 2) { Where::Track(src.index(t)) } else { Where::Main };
		let sp = if has_listener && src.chance(1, 3) {
			spatial = true;
			let a = src.f64_uniform(0.5, 10.0) as f32;
			Some(SpatialSpec {
				listener: 0,
				position: [src.f64_uniform(-20.0, 20.0) as f32, src.f64_uniform(-20.0, 20.0) as f32, src.f64_uniform(-20.0, 20.0) as f32],
				distances: (a, a + src.f64_uniform(1.0, 100.0) as f32),
				attenuation: if src.chance(1, 4) { None } else { Some(gen_easing(src)) },
				strength: VSpec::fixed(src.f64_in(0.0, 1.0)),
			})
		} else {
			None
		};
		let effects = gen_effects(src, ctx, sample_rate, memoryless_only);
		recursive |= contains_recursive(&effects);
		let mut sends = vec![];
		if n_sends > 0 {
			for _ in 0..src.weighted(&[3, 3, 1]) {
				let s = src.index(n_sends);
				if !sends.iter().any(|(x, _)| *x == s) {
					sends.push((s, VSpec::fixed(gen_db(src).clamp(-30.0, 6.0))));
				}
			}
		}
		ops.push(Op::AddTrack(TrackSpec {
			parent,
			spatial: sp,
			volume: VSpec::fixed(gen_db(src).clamp(-30.0, 6.0)),
			effects,
			sends,
			persist: false,
			sound_capacity: 128,
			sub_track_capacity: 128,
		}));
	}
	// a spatial parent makes its whole subtree spatial; keep the flag simple: any spatial track
	let n_sounds = src.usize_in(1, 5);
	for _ in 0..n_sounds {
		let wh = if n_tracks > 0 && src.chance(3, 4) { Where::Track(src.index(n_tracks)) } else { Where::Main };
		let len = match src.weighted(&[1, 3, 3]) {
			0 => src.usize_in(0, 4),
			1 => src.usize_in(1, 100),
			_ => src.usize_in(1, 3000),
		};
		let sr = if src.bool() { sample_rate } else { src.pick(&[44100u32, 48000, 8000, 22050, 96000]) };
		ops.push(Op::PlayStatic(
			wh,
			StaticSpec {
				len,
				sample_rate: sr,
				content: match src.index(3) {
					0 => Content::Noise(src.raw() | 1),
					1 => Content::Ramp,
					_ => Content::Sine(src.f64_log(1e-3, 0.4)),
				},
				slice: None,
				settings: fixed_settings(src, len),
			},
		));
	}
	Scene {
		program: Program { config, ops },
		recursive,
		spatial,
	}
}

fn render(p: &Program, ibs: usize, partition: &[usize]) -> Result<Vec<f32>, Failure> {
	let mut w = World::new(&p.config, 2, ibs);
	for op in &p.ops {
		w.exec(op);
	}
	let mut out = vec![];
	for n in partition {
		let cb = w.callback(*n);
		if let Some(pn) = &cb.guard.panic {
			return Err(Failure::panic("", pn));
		}
		out.extend_from_slice(&cb.out);
	}
	Ok(out)
}

impl Property for C11 {
	fn id(&self) -> &'static str {
		"C11"
	}
	fn rule(&self) -> &'static str {
		"each case builds one scene with fixed parameters and nothing in flight - static sounds (any rate incl. negative, loop regions, reverse, pan, other sample rates), a track tree with sends, optionally spatial tracks with a fixed listener, all eight built-in effects incl. nested delay feedback at any node - entirely before the first callback, and renders the same number of frames twice from fresh managers with two independent (internal buffer size 1..4096, callback partition) configurations: one-frame callbacks, non-multiples, buffers larger than the whole render. The two outputs must be bit-identical when the scene has no recursive effect and no spatial track, within 1e-6 with recursive effects, within 1e-5 x the gain of the recursive effects, distortion drives and volumes above 0 dB present when a spatial track is present (spatial tracks differ by an ulp or two between partitions, and whatever follows them amplifies that). Non-trivial = the configurations differ, at least one callback is not a multiple of its internal buffer, and the output is not silent; distinct = distinct decoded choices."
	}
	fn assumptions(&self) -> Vec<String> {
		vec![
			"spatial tracks are given the 1e-6 bound: the listener orientation is re-interpolated per frame with a lerp that is not bit-stable across chunk sizes (1-2 ulp); spatialisation is not in the property's bit-for-bit list".into(),
			"no commands, tweens, start delays or modulators (the property's premise)".into(),
		]
	}
	fn tape_len(&self, _tier: Tier) -> usize {
		500
	}
	fn cases(&self, tier: Tier) -> u64 {
		tier.pick(120_000, 1_000_000)
	}

	fn run(&self, tape: &[u32], ctx: &mut Ctx) -> CaseResult {
		let mut src = Src::new(tape);
		let scene = gen_scene(&mut src, ctx);
		let frames = match src.weighted(&[2, 3, 2]) {
			0 => src.usize_in(1, 64),
			1 => src.usize_in(1, 1000),
			_ => src.usize_in(1, ctx.tier.pick(6000, 30000)),
		};
		let gen_ibs = |src: &mut Src| match src.weighted(&[3, 3, 2, 1]) {
			0 => src.pick(&[128usize, 1, 2, 3, 64, 4096]),
			1 => src.usize_in(1, 64),
			2 => src.usize_in(1, 512),
			_ => src.usize_in(1, 4096),
		};
		let ibs_a = gen_ibs(&mut src);
		let ibs_b = gen_ibs(&mut src);
		let part_a = gen_partition(&mut src, frames, (ibs_a * 3).min(8192));
		let part_b = gen_partition(&mut src, frames, (ibs_b * 3).min(8192));
		ctx.describe(|| format!("frames={frames} A=(ibs {ibs_a}, {} callbacks {:?}...) B=(ibs {ibs_b}, {} callbacks {:?}...) recursive={} spatial={} scene={:#?}", part_a.len(), &part_a[..part_a.len().min(6)], part_b.len(), &part_b[..part_b.len().min(6)], scene.recursive, scene.spatial, scene.program));
		let a = render(&scene.program, ibs_a, &part_a)?;
		let b = render(&scene.program, ibs_b, &part_b)?;
		let exact = !scene.recursive && !scene.spatial;
		// recursive effects: 1e-6 (the property's bound); spatial tracks add ulp-level noise of their
		// own that recursive effects downstream amplify: 1e-5 there
		let tol = if exact {
			0.0
		} else if scene.spatial {
			// (the ulp noise of a spatial track is amplified by whatever recursive effects follow it:
			// a +24 dB shelf of quality 10 at Nyquist multiplies it by several hundred)
			let mut cond = 1.0f32;
			let mut all: Vec<&crate::scene::fx::FxSpec> = scene.program.config.main_effects.iter().collect();
			for op in &scene.program.ops {
				match op {
					crate::scene::ast::Op::AddTrack(t) => all.extend(t.effects.iter()),
					crate::scene::ast::Op::AddSend { effects, .. } => all.extend(effects.iter()),
					_ => {}
				}
			}
			for e in all {
				cond *= super::c13::conditioning(e, frames, scene.program.config.sample_rate).max(1.0);
				// ... and by plain gain: a distortion multiplies small differences by its drive, a
				// volume control by its volume
				cond *= match e {
					crate::scene::fx::FxSpec::Distortion { drive_db, .. } if *drive_db > 0.0 => 1.0 + 10f32.powf(*drive_db / 20.0),
					crate::scene::fx::FxSpec::Volume { db } if *db > 0.0 => 10f32.powf(*db / 20.0),
					_ => 1.0,
				};
			}
			// ... and by every volume above 0 dB on the way out (tracks, routes, send tracks, main track)
			let boost = |v: &crate::scene::ast::VSpec| -> f32 { 10f32.powf((v.x.max(v.y).max(0.0) / 20.0) as f32) };
			cond *= boost(&scene.program.config.main_volume);
			for op in &scene.program.ops {
				match op {
					crate::scene::ast::Op::AddTrack(t) => {
						cond *= boost(&t.volume);
						for (_, v) in &t.sends {
							cond *= boost(v);
						}
					}
					crate::scene::ast::Op::AddSend { volume, .. } => cond *= boost(volume),
					_ => {}
				}
			}
			1e-5 * cond.min(1e4)
		} else {
			1e-6
		};
		for i in 0..a.len() {
			let ok = a[i] == b[i] || (a[i] - b[i]).abs() <= tol;
			if !ok {
				let oracle = if exact { "bit-identical-across-buffer-sizes" } else { "within-1e-6-across-buffer-sizes" };
				return Err(Failure::simple(
					oracle,
					format!("frame {} channel {}: {} with (ibs {ibs_a}, partition A) vs {} with (ibs {ibs_b}, partition B); recursive effects: {}, spatial: {}", i / 2, i % 2, a[i], b[i], scene.recursive, scene.spatial),
				));
			}
		}
		let nonzero = a.iter().any(|s| *s != 0.0);
		let remainder = part_a.iter().any(|n| n % ibs_a != 0) || part_b.iter().any(|n| n % ibs_b != 0);
		let differ = ibs_a != ibs_b || part_a != part_b;
		let mut classes = vec![if exact { "bit-exact-scene" } else { "tolerance-scene" }];
		if scene.spatial {
			classes.push("spatial");
		}
		if scene.recursive {
			classes.push("recursive-effect");
		}
		if ibs_a == 1 || ibs_b == 1 {
			classes.push("buffer-size-1");
		}
		Ok(CaseInfo::new(&src, nonzero && remainder && differ, classes))
	}
}
