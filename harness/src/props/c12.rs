//! C12 - pausing a track freezes its subtree; removal follows handle / persistence rules.

use crate::engine::{CaseInfo, CaseResult, Ctx, Failure, Property, Src, Tier};
use crate::engine::monitor;
use crate::ensure;
use crate::models::param::DbParam;
use crate::probes::{default_manager, Mgr, ProbeSoundData, ProbeSoundHandle, Signal};
use kira::clock::{ClockHandle, ClockSpeed, ClockTime};
use kira::sound::static_sound::{StaticSoundData, StaticSoundHandle, StaticSoundSettings};
use kira::track::{TrackBuilder, TrackHandle, TrackPlaybackState};
use kira::{Decibels, Frame, StartTime, Tween};
use std::sync::Arc;
use std::time::Duration;

pub struct C12;

const SR: u32 = 8000;

#[derive(Debug, Clone, PartialEq)]
enum SoundSpec {
	/// index-coded ramp: frame i = base + i * step
	Probe { base: f32, step: f32, len: Option<usize> },
	/// looping DC static sound with a start delay and a fade-in
	Static { level: f32, start_delay: f64, fade_in: f64 },
}

#[derive(Debug, Clone, PartialEq)]
enum Op {
	AddClock(f64),
	DropClock(usize),
	AddTrack { parent: Option<usize>, volume_db: f32, persist: bool },
	AddSound { track: usize, spec: SoundSpec },
	Pause(usize, f64),
	Resume(usize, f64),
	ResumeAtDelayed(usize, f64, f64),
	ResumeAtClock(usize, usize, u64, f64),
	DropTrack(usize),
	FinishSound(usize),
	Callback(usize),
}

#[derive(Debug, Clone)]
struct Case {
	ibs: usize,
	ops: Vec<Op>,
}

// ------------------------------------------------------------------------------------------
// reference model

#[derive(Debug, Clone, Copy, PartialEq)]
enum Wait {
	Delayed(f64),
	Clock(usize, u64),
}

#[derive(Debug, Clone, Copy, PartialEq)]
enum TState {
	Playing,
	Pausing,
	Paused,
	Waiting(Wait, f64),
	Resuming,
	/// the clock a waiting track depended on is gone (no fifth state fits; see known findings)
	Dead,
}

impl TState {
	fn advancing(&self) -> bool {
		matches!(self, TState::Playing | TState::Pausing | TState::Resuming)
	}
	fn public(&self) -> Option<TrackPlaybackState> {
		Some(match self {
			TState::Playing => TrackPlaybackState::Playing,
			TState::Pausing => TrackPlaybackState::Pausing,
			TState::Paused => TrackPlaybackState::Paused,
			TState::Waiting(..) => TrackPlaybackState::WaitingToResume,
			TState::Resuming => TrackPlaybackState::Resuming,
			TState::Dead => return None,
		})
	}
}

#[derive(Debug, Clone, Copy, PartialEq)]
enum Place {
	Queued,
	Live,
	Gone,
}

#[derive(Debug, Clone)]
struct MTrack {
	parent: Option<usize>,
	vol: DbParam,
	fade: DbParam,
	state: TState,
	persist: bool,
	place: Place,
	handle_dropped: bool,
	pending_pause: Option<f64>,
	pending_resume: Option<(Option<Wait>, f64)>,
}

#[derive(Debug, Clone)]
struct MSound {
	track: usize,
	spec: SoundSpec,
	pos: usize,
	place: Place,
	finished: bool,
	// static sounds
	delay_left: f64,
	fade: DbParam,
}

#[derive(Debug, Clone)]
struct MClock {
	speed: f64,
	ticks: u64,
	frac: f64,
	place: Place,
	dropped: bool,
	ticking: bool,
}

struct Model {
	tracks: Vec<MTrack>,
	sounds: Vec<MSound>,
	clocks: Vec<MClock>,
}

type F2 = (f64, f64);

impl Model {
	fn children(&self, parent: Option<usize>) -> Vec<usize> {
		(0..self.tracks.len()).filter(|i| self.tracks[*i].parent == parent).collect()
	}

	fn should_be_removed(&self, t: usize) -> bool {
		for c in self.children(Some(t)) {
			if self.tracks[c].place == Place::Live && !self.should_be_removed(c) {
				return false;
			}
		}
		let tr = &self.tracks[t];
		if tr.persist {
			// 'until its sounds finish': sounds that have been played on the track count whether
			// or not the audio thread has picked them up yet
			tr.handle_dropped && !self.sounds.iter().any(|s| s.track == t && s.place != Place::Gone)
		} else {
			tr.handle_dropped
		}
	}

	fn kill(&mut self, t: usize) {
		self.tracks[t].place = Place::Gone;
		for s in self.sounds.iter_mut() {
			if s.track == t {
				s.place = Place::Gone;
			}
		}
		for c in self.children(Some(t)) {
			if self.tracks[c].place != Place::Gone {
				self.kill(c);
			}
		}
	}

	fn start_level(&mut self, parent: Option<usize>) {
		let kids = self.children(parent);
		for &c in &kids {
			if self.tracks[c].place == Place::Live && self.should_be_removed(c) {
				self.kill(c);
			}
		}
		for &c in &kids {
			if self.tracks[c].place == Place::Queued {
				self.tracks[c].place = Place::Live;
			}
		}
		for &c in &kids {
			if self.tracks[c].place == Place::Live {
				self.start_track(c);
			}
		}
	}

	fn start_track(&mut self, t: usize) {
		// commands: pause is read before resume
		if let Some(dur) = self.tracks[t].pending_pause.take() {
			self.tracks[t].state = TState::Pausing;
			self.tracks[t].fade.set(-60.0, dur);
		}
		if let Some((wait, dur)) = self.tracks[t].pending_resume.take() {
			match wait {
				None => {
					self.tracks[t].state = TState::Resuming;
					self.tracks[t].fade.set(0.0, dur);
				}
				Some(w) => self.tracks[t].state = TState::Waiting(w, dur),
			}
		}
		for s in self.sounds.iter_mut().filter(|s| s.track == t) {
			if s.place == Place::Live {
				let ended = match &s.spec {
					SoundSpec::Probe { len, .. } => s.finished || len.map(|l| s.pos >= l).unwrap_or(false),
					SoundSpec::Static { .. } => false,
				};
				if ended {
					s.place = Place::Gone;
				}
			}
		}
		for s in self.sounds.iter_mut().filter(|s| s.track == t) {
			if s.place == Place::Queued {
				s.place = Place::Live;
			}
		}
		self.start_level(Some(t));
	}

	fn on_start_processing(&mut self) {
		self.start_level(None);
		for c in self.clocks.iter_mut() {
			if c.place == Place::Live && c.dropped {
				c.place = Place::Gone;
			}
			if c.place == Place::Queued {
				c.place = Place::Live;
				c.ticking = true;
			}
		}
	}

	fn clock_reached(&self, clock: usize, ticks: u64) -> Option<bool> {
		let c = &self.clocks[clock];
		if c.place != Place::Live {
			return None;
		}
		Some(c.ticking && (c.ticks, c.frac) >= (ticks, 0.0))
	}

	/// per-chunk update of a track whose ancestors are all advancing
	fn update_track(&mut self, t: usize, dt: f64, active: &mut Vec<bool>) {
		self.tracks[t].vol.update(dt);
		let finished = self.tracks[t].fade.update(dt);
		let new_state = match self.tracks[t].state {
			TState::Pausing if finished => TState::Paused,
			TState::Resuming if finished => TState::Playing,
			TState::Waiting(w, dur) => match w {
				Wait::Delayed(rem) => {
					let rem = (((rem - dt) * 1e9).round() / 1e9).max(0.0);
					if rem <= 0.0 {
						self.tracks[t].fade.set(0.0, dur);
						TState::Resuming
					} else {
						TState::Waiting(Wait::Delayed(rem), dur)
					}
				}
				Wait::Clock(c, ticks) => match self.clock_reached(c, ticks) {
					Some(true) => {
						self.tracks[t].fade.set(0.0, dur);
						TState::Resuming
					}
					Some(false) => TState::Waiting(w, dur),
					None => TState::Dead,
				},
			},
			s => s,
		};
		self.tracks[t].state = new_state;
		if !new_state.advancing() {
			return;
		}
		active[t] = true;
		for c in self.children(Some(t)) {
			if self.tracks[c].place == Place::Live {
				self.update_track(c, dt, active);
			}
		}
		for s in self.sounds.iter_mut().filter(|s| s.track == t && s.place == Place::Live) {
			if let SoundSpec::Static { .. } = s.spec {
				s.fade.update(dt);
				if s.delay_left > 0.0 {
					s.delay_left = (((s.delay_left - dt) * 1e9).round() / 1e9).max(0.0);
				}
			}
		}
	}

	fn track_frame(&mut self, t: usize, a: f64, active: &[bool]) -> F2 {
		if !active[t] {
			return (0.0, 0.0);
		}
		let mut acc = (0.0, 0.0);
		for c in self.children(Some(t)) {
			if self.tracks[c].place == Place::Live {
				let v = self.track_frame(c, a, active);
				acc.0 += v.0;
				acc.1 += v.1;
			}
		}
		for s in self.sounds.iter_mut().filter(|s| s.track == t && s.place == Place::Live) {
			match &s.spec {
				SoundSpec::Probe { base, step, len } => {
					if len.map(|l| s.pos < l).unwrap_or(true) {
						let v = (*base + s.pos as f32 * *step) as f64;
						acc.0 += v;
						acc.1 += v;
					}
					s.pos += 1;
				}
				SoundSpec::Static { level, .. } => {
					if s.delay_left <= 0.0 {
						let v = *level as f64 * s.fade.amp_at(a);
						acc.0 += v;
						acc.1 += v;
					}
				}
			}
		}
		let g = self.tracks[t].vol.amp_at(a) * self.tracks[t].fade.amp_at(a);
		(acc.0 * g, acc.1 * g)
	}

	fn chunk(&mut self, n: usize) -> Vec<F2> {
		// (the duration of a chunk is formed as the renderer forms it - frame duration times frames -
		// so that a clock time reached exactly at the end of a chunk falls on the same side here)
		let dt = (1.0 / SR as f64) * n as f64;
		// clocks advance before the mixer
		for c in self.clocks.iter_mut() {
			if c.place == Place::Live && c.ticking {
				c.frac += c.speed * dt;
				while c.frac >= 1.0 {
					c.frac -= 1.0;
					c.ticks += 1;
				}
			}
		}
		let mut active = vec![false; self.tracks.len()];
		for t in self.children(None) {
			if self.tracks[t].place == Place::Live {
				self.update_track(t, dt, &mut active);
			}
		}
		let mut out = Vec::with_capacity(n);
		for i in 0..n {
			let a = (i + 1) as f64 / n as f64;
			let mut acc = (0.0, 0.0);
			for t in self.children(None) {
				if self.tracks[t].place == Place::Live {
					let v = self.track_frame(t, a, &active);
					acc.0 += v.0;
					acc.1 += v.1;
				}
			}
			out.push((acc.0.clamp(-1.0, 1.0), acc.1.clamp(-1.0, 1.0)));
		}
		out
	}

	fn count_children(&self, parent: Option<usize>) -> usize {
		self.children(parent).iter().filter(|c| self.tracks[**c].place != Place::Gone).count()
	}
	fn count_sounds(&self, t: usize) -> usize {
		self.sounds.iter().filter(|s| s.track == t && s.place != Place::Gone).count()
	}
}

// ------------------------------------------------------------------------------------------

enum SoundH {
	Probe(ProbeSoundHandle),
	Static(#[allow(dead_code)] StaticSoundHandle),
}

fn tw(dur: f64) -> Tween {
	Tween {
		duration: Duration::from_secs_f64(dur),
		..Default::default()
	}
}

struct Flags {
	inner_pause_with_fade: bool,
	parent_dropped_before_child: bool,
	nonzero: bool,
}

fn run_case(c: &Case) -> Result<Flags, Failure> {
	let mut mgr: Mgr = default_manager(SR, c.ibs);
	let mut tracks: Vec<Option<TrackHandle>> = vec![];
	let mut sounds: Vec<Option<SoundH>> = vec![];
	let mut clocks: Vec<Option<ClockHandle>> = vec![];
	let mut clock_ids = vec![];
	let mut model = Model {
		tracks: vec![],
		sounds: vec![],
		clocks: vec![],
	};
	let mut flags = Flags {
		inner_pause_with_fade: false,
		parent_dropped_before_child: false,
		nonzero: false,
	};
	let mut state_trace: Vec<Vec<Option<TrackPlaybackState>>> = vec![];
	let mut model_trace: Vec<Vec<Option<TrackPlaybackState>>> = vec![];
	let mut t_total = 0usize;
	for (oi, op) in c.ops.iter().enumerate() {
		match op {
			Op::AddClock(speed) => {
				let mut h = mgr.add_clock(ClockSpeed::TicksPerSecond(*speed)).map_err(|_| Failure::simple("setup", "clock limit"))?;
				h.start();
				clock_ids.push(h.id());
				clocks.push(Some(h));
				model.clocks.push(MClock {
					speed: *speed,
					ticks: 0,
					frac: 0.0,
					place: Place::Queued,
					dropped: false,
					ticking: false,
				});
			}
			Op::DropClock(i) => {
				if let Some(s) = clocks.get_mut(*i) {
					if s.take().is_some() {
						model.clocks[*i].dropped = true;
					}
				}
			}
			Op::AddTrack { parent, volume_db, persist } => {
				let b = TrackBuilder::new().volume(Decibels(*volume_db)).persist_until_sounds_finish(*persist);
				let h = match parent {
					None => mgr.add_sub_track(b).ok(),
					Some(p) => match tracks.get_mut(*p) {
						Some(Some(ph)) => ph.add_sub_track(b).ok(),
						_ => None,
					},
				};
				let ok = h.is_some();
				tracks.push(h);
				model.tracks.push(MTrack {
					parent: *parent,
					vol: DbParam::new(*volume_db as f64),
					fade: DbParam::new(0.0),
					state: TState::Playing,
					persist: *persist,
					place: if ok { Place::Queued } else { Place::Gone },
					handle_dropped: !ok,
					pending_pause: None,
					pending_resume: None,
				});
			}
			Op::AddSound { track, spec } => {
				let h = match tracks.get_mut(*track) {
					Some(Some(th)) => match spec {
						SoundSpec::Probe { base, step, len } => th.play(ProbeSoundData::new(Signal::Ramp { base: *base, step: *step }, *len)).ok().map(SoundH::Probe),
						SoundSpec::Static { level, start_delay, fade_in } => {
							let frames: Arc<[Frame]> = vec![Frame::from_mono(*level); 8].into();
							let mut settings = StaticSoundSettings::new().loop_region(..).fade_in_tween(tw(*fade_in));
							if *start_delay > 0.0 {
								settings = settings.start_time(StartTime::Delayed(Duration::from_secs_f64(*start_delay)));
							}
							th.play(StaticSoundData {
								sample_rate: SR,
								frames,
								settings,
								slice: None,
							})
							.ok()
							.map(SoundH::Static)
						}
					},
					_ => None,
				};
				let ok = h.is_some();
				sounds.push(h);
				let (delay_left, fade) = match spec {
					SoundSpec::Static { start_delay, fade_in, .. } => {
						let mut f = DbParam::new(-60.0);
						f.set(0.0, Duration::from_secs_f64(*fade_in).as_secs_f64());
						(Duration::from_secs_f64(*start_delay).as_secs_f64(), f)
					}
					_ => (0.0, DbParam::new(0.0)),
				};
				model.sounds.push(MSound {
					track: *track,
					spec: spec.clone(),
					pos: 0,
					place: if ok { Place::Queued } else { Place::Gone },
					finished: false,
					delay_left,
					fade,
				});
			}
			Op::Pause(i, dur) => {
				if let Some(Some(h)) = tracks.get_mut(*i) {
					h.pause(tw(*dur));
					model.tracks[*i].pending_pause = Some(Duration::from_secs_f64(*dur).as_secs_f64());
					if *dur > 0.0 && model.tracks[*i].parent.is_some() {
						flags.inner_pause_with_fade = true;
					}
				}
			}
			Op::Resume(i, dur) => {
				if let Some(Some(h)) = tracks.get_mut(*i) {
					h.resume(tw(*dur));
					model.tracks[*i].pending_resume = Some((None, Duration::from_secs_f64(*dur).as_secs_f64()));
				}
			}
			Op::ResumeAtDelayed(i, delay, dur) => {
				if let Some(Some(h)) = tracks.get_mut(*i) {
					h.resume_at(StartTime::Delayed(Duration::from_secs_f64(*delay)), tw(*dur));
					model.tracks[*i].pending_resume = Some((Some(Wait::Delayed(Duration::from_secs_f64(*delay).as_secs_f64())), Duration::from_secs_f64(*dur).as_secs_f64()));
				}
			}
			Op::ResumeAtClock(i, clock, ticks, dur) => {
				if let (Some(Some(h)), Some(id)) = (tracks.get_mut(*i), clock_ids.get(*clock)) {
					h.resume_at(StartTime::ClockTime(ClockTime::from_ticks_u64(*id, *ticks)), tw(*dur));
					model.tracks[*i].pending_resume = Some((Some(Wait::Clock(*clock, *ticks)), Duration::from_secs_f64(*dur).as_secs_f64()));
				}
			}
			Op::DropTrack(i) => {
				if let Some(s) = tracks.get_mut(*i) {
					if s.take().is_some() {
						model.tracks[*i].handle_dropped = true;
						if model.children(Some(*i)).iter().any(|c| !model.tracks[*c].handle_dropped) {
							flags.parent_dropped_before_child = true;
						}
					}
				}
			}
			Op::FinishSound(i) => {
				if let Some(Some(SoundH::Probe(h))) = sounds.get(*i) {
					h.finish();
					model.sounds[*i].finished = true;
				}
			}
			Op::Callback(n) => {
				let cb = mgr.backend_mut().callback(*n, 2);
				if let Some(p) = &cb.guard.panic {
					return Err(Failure::panic("", p));
				}
				model.on_start_processing();
				let mut want = Vec::with_capacity(*n);
				let mut left = *n;
				let _ = crate::models::param::take_edge_hit();
				while left > 0 {
					let k = left.min(c.ibs);
					want.extend(model.chunk(k));
					left -= k;
				}
				let edge = crate::models::param::take_edge_hit();
				if std::env::var("KVERIF_DEBUG").is_ok() {
					eprintln!("op #{oi} Callback({n}): out[0]={} want[0]={:?} states={:?} model={:?} clocks={:?}", cb.out[0], want[0], tracks.iter().map(|t| t.as_ref().map(|h| h.state())).collect::<Vec<_>>(), model.tracks.iter().map(|t| t.state).collect::<Vec<_>>(), clocks.iter().map(|c| c.as_ref().map(|h| (h.time().ticks, h.time().fraction))).collect::<Vec<_>>());
				}
				for i in 0..*n {
					let (l, r) = (cb.out[2 * i] as f64, cb.out[2 * i + 1] as f64);
					if l != 0.0 {
						flags.nonzero = true;
					}
					let (wl, wr) = want[i];
					let tol = 1e-5 * (1.0 + wl.abs()) + if edge { 4e-3 } else { 0.0 };
					if (l - wl).abs() > tol || (r - wr).abs() > tol {
						return Err(Failure::simple("subtree-freeze-and-removal-model", format!("op #{oi}, output frame {} (frame {i} of this callback): got ({l}, {r}), reference gives ({wl}, {wr}); case {c:?}", t_total + i)));
					}
					if wl == 0.0 {
						ensure!(l == 0.0 && r == 0.0, "frozen-subtree-is-exactly-silent", "op #{oi}, frame {i}: got ({l}, {r}) where the reference is silent; case {c:?}");
					}
				}
				t_total += n;
				// handle-visible state: one of the five states, never a panic; counts
				let mut st = vec![];
				let mut mt = vec![];
				for (ti, h) in tracks.iter().enumerate() {
					match h {
						Some(h) => {
							let s = monitor::catch(|| h.state());
							match s {
								Ok(s) => st.push(Some(s)),
								Err(info) => {
									let mut f = Failure::panic("state()-", &info);
									f.detail = format!("TrackHandle::state() of track {ti} panicked after op #{oi}: {}; case {c:?}", f.detail);
									return Err(f);
								}
							}
							mt.push(model.tracks[ti].state.public());
							if model.tracks[ti].place == Place::Live {
								let (ns, nt) = (h.num_sounds(), h.num_sub_tracks());
								ensure!(ns == model.count_sounds(ti), "sound-count", "op #{oi}: track {ti} reports {ns} sounds, reference {}; case {c:?}", model.count_sounds(ti));
								ensure!(nt == model.count_children(Some(ti)), "sub-track-count", "op #{oi}: track {ti} reports {nt} sub-tracks, reference {}; case {c:?}", model.count_children(Some(ti)));
							}
						}
						None => {
							st.push(None);
							mt.push(None);
						}
					}
				}
				let top = mgr.num_sub_tracks();
				ensure!(top == model.count_children(None), "sub-track-count", "op #{oi}: manager reports {top} sub-tracks, reference {}; case {c:?}", model.count_children(None));
				state_trace.push(st);
				model_trace.push(mt);
			}
		}
	}
	// reported track states follow the reference within one callback
	for k in 0..state_trace.len() {
		for ti in 0..state_trace[k].len() {
			let Some(s) = state_trace[k][ti] else { continue };
			let cur = model_trace[k].get(ti).copied().flatten();
			let prev = if k > 0 { model_trace[k - 1].get(ti).copied().flatten() } else { Some(TrackPlaybackState::Playing) };
			let next = model_trace.get(k + 1).and_then(|m| m.get(ti).copied().flatten());
			// (the last callback of a history has no successor to grant the one-callback allowance from)
			let last = k + 1 >= model_trace.len();
			let ok = Some(s) == cur || Some(s) == prev || Some(s) == next || cur.is_none() || last;
			ensure!(ok, "track-state-follows-reference", "after callback {k}: track {ti} reports {s:?}, reference {prev:?} / {cur:?} / {next:?} (previous / now / next callback); case {c:?}");
		}
	}
	Ok(flags)
}

fn decode(src: &mut Src, ctx: &mut Ctx) -> Case {
	let ibs = match src.weighted(&[3, 3, 2]) {
		0 => src.pick(&[16usize, 1, 2, 64]),
		1 => src.usize_in(1, 16),
		_ => src.usize_in(1, 128),
	};
	let cb_s = ibs as f64 / SR as f64;
	let n_ops = src.usize_in(4, ctx.tier.pick(50, 120));
	let mut ops = vec![];
	let (mut n_tracks, mut n_sounds, mut n_clocks) = (0usize, 0usize, 0usize);
	let mut depth: Vec<usize> = vec![];
	let mut clock_dropped: Vec<bool> = vec![];
	let mut clock_awaited: Vec<bool> = vec![];
	let gen_dur = |src: &mut Src| match src.weighted(&[3, 2, 4]) {
		0 => 0.0,
		1 => src.f64_uniform(0.0, cb_s),
		_ => src.f64_uniform(0.0, cb_s * 8.0),
	};
	for _ in 0..n_ops {
		let have = n_tracks > 0;
		let w = [10, 1, if n_clocks > 0 { 1 } else { 0 }, 6, if have { 7 } else { 0 }, if have { 5 } else { 0 }, if have { 4 } else { 0 }, if have { 2 } else { 0 }, if have && n_clocks > 0 { 2 } else { 0 }, if have { 3 } else { 0 }, if n_sounds > 0 { 1 } else { 0 }];
		let op = match src.weighted(&w) {
			0 => {
				Op::Callback(match src.weighted(&[3, 3, 2]) {
					0 => ibs,
					1 => src.usize_in(1, ibs * 3),
					_ => 1,
				})
			}
			// (the default clock capacity is 8; capacities are C08's subject)
			1 if n_clocks >= 8 => Op::Callback(ibs),
			1 => {
				n_clocks += 1;
				clock_dropped.push(false);
				clock_awaited.push(false);
				Op::AddClock(src.pick(&[100.0, 1000.0, 10.0, 8000.0]))
			}
			2 => {
				let i = src.index(n_clocks);
				if clock_awaited[i] && ctx.exclude("track-resume-at-clock-that-is-dropped") {
					Op::Callback(ibs)
				} else {
					clock_dropped[i] = true;
					Op::DropClock(i)
				}
			}
			3 => {
				let cands: Vec<usize> = (0..n_tracks).filter(|t| depth[*t] < 3).collect();
				let parent = if !cands.is_empty() && src.chance(2, 3) { Some(cands[src.index(cands.len())]) } else { None };
				depth.push(parent.map(|p| depth[p] + 1).unwrap_or(1));
				let p = src.chance(1, 3);
				n_tracks += 1;
				Op::AddTrack {
					parent,
					volume_db: src.pick(&[0.0f32, -6.0, -3.0, -12.0]),
					persist: p,
				}
			}
			4 => {
				let track = src.index(n_tracks);
				n_sounds += 1;
				let spec = if src.chance(2, 3) {
					SoundSpec::Probe {
						// disjoint code ranges: sound k lives around 0.01 * (k + 1)
						base: 0.01 * (n_sounds as f32),
						step: 0.00001,
						len: if src.chance(1, 3) { Some(src.usize_in(0, 300)) } else { None },
					}
				} else {
					SoundSpec::Static {
						level: 0.01 * n_sounds as f32 + 0.005,
						start_delay: if src.bool() { src.f64_uniform(0.0, cb_s * 6.0) } else { 0.0 },
						fade_in: src.f64_uniform(0.0, cb_s * 10.0),
					}
				};
				Op::AddSound { track, spec }
			}
			5 => Op::Pause(src.index(n_tracks), gen_dur(src)),
			6 => Op::Resume(src.index(n_tracks), gen_dur(src)),
			7 => Op::ResumeAtDelayed(src.index(n_tracks), src.f64_uniform(0.0, cb_s * 6.0), gen_dur(src)),
			8 => {
				let clock = src.index(n_clocks);
				if clock_dropped[clock] && ctx.exclude("track-resume-at-clock-that-is-dropped") {
					Op::Callback(ibs)
				} else {
					clock_awaited[clock] = true;
					Op::ResumeAtClock(src.index(n_tracks), clock, src.int(0, 40) as u64, gen_dur(src))
				}
			}
			9 => {
				let t = src.index(n_tracks);
				Op::DropTrack(t)
			}
			_ => Op::FinishSound(src.index(n_sounds)),
		};
		ops.push(op);
	}
	for _ in 0..src.usize_in(1, 4) {
		ops.push(Op::Callback(src.usize_in(1, ibs * 2)));
	}
	Case { ibs, ops }
}

impl Property for C12 {
	fn id(&self) -> &'static str {
		"C12"
	}
	fn rule(&self) -> &'static str {
		"each case builds a track tree (depth <= 3) through the manager with index-coded probe sounds (disjoint code ranges, endless or finite) and looping DC static sounds with start delays and fade-ins on any node, and runs a history of pause(t) / resume(t) / resume_at(delayed | clock) with fade tweens from zero to eight callbacks on any node, clocks added and dropped, sounds played under paused tracks, handles of parents, children and sounds dropped in any order with persistence on or off, interleaved with callbacks of arbitrary sizes. A reference model of the documented semantics (per-track five-state machine, a node is frozen iff it or an ancestor is not advancing, frozen nodes neither emit nor advance positions / start delays / fades, removal after handle drop unless persisting sounds remain and never while a descendant is alive) is evaluated in f64 and compared with every output frame (1e-5; exact silence where the reference is silent); TrackHandle::state() is called on every live handle after every callback (must return, within one callback of the reference), and num_sounds / num_sub_tracks / AudioManager::num_sub_tracks must equal the reference counts. Non-trivial = a timed pause of an inner node or a parent handle dropped before its child's, with audible output; distinct = distinct decoded choices."
	}
	fn assumptions(&self) -> Vec<String> {
		vec![
			"a frozen parent does not run its children at all, so their own fades and resume timers stand still too (that is what 'start delays and fades do not advance' means for nested tracks)".into(),
			"known-finding classes excluded by construction: a clock dropped while a track waits on it (or resume_at on a dropped clock)".into(),
			"fade tweens are linear with immediate start (tween laws: C06)".into(),
		]
	}
	fn tape_len(&self, _tier: Tier) -> usize {
		600
	}
	fn cases(&self, tier: Tier) -> u64 {
		tier.pick(800_000, 8_000_000)
	}

	fn run(&self, tape: &[u32], ctx: &mut Ctx) -> CaseResult {
		let mut src = Src::new(tape);
		let case = decode(&mut src, ctx);
		ctx.describe(|| format!("{case:?}"));
		let flags = run_case(&case)?;
		let mut classes = vec![];
		if flags.inner_pause_with_fade {
			classes.push("timed-pause-of-inner-node");
		}
		if flags.parent_dropped_before_child {
			classes.push("parent-dropped-before-child");
		}
		if case.ops.iter().any(|o| matches!(o, Op::ResumeAtClock(..))) {
			classes.push("resume-at-clock");
		}
		if case.ops.iter().any(|o| matches!(o, Op::AddTrack { persist: true, .. })) {
			classes.push("persist");
		}
		Ok(CaseInfo::new(&src, (flags.inner_pause_with_fade || flags.parent_dropped_before_child) && flags.nonzero, classes))
	}
}
