//! C13 - effect laws: dry identity, silence, finiteness, linearity, chunk independence.

use crate::engine::{CaseInfo, CaseResult, Ctx, Failure, Property, Src, Tier};
use crate::scene::fx::{build, gen_fx, Domain, FxSpec};
use crate::scene::signal::{gen_partition, gen_sig, render_sig, SigKind};
use kira::effect::Effect;
use kira::info::{Info, MockInfoBuilder};
use kira::Frame;

pub struct C13;

pub const RATES: [u32; 12] = [44100, 48000, 8000, 11025, 16000, 22050, 32000, 88200, 96000, 176400, 192000, 12345];

pub fn run_effect(spec: &FxSpec, sr: u32, ibs: usize, input: &[Frame], partition: &[usize], info: &Info) -> Vec<Frame> {
	let (mut fx, _h) = build(spec);
	fx.init(sr, ibs);
	process_with(&mut fx, sr, input, partition, info)
}

pub fn process_with(fx: &mut Box<dyn Effect>, sr: u32, input: &[Frame], partition: &[usize], info: &Info) -> Vec<Frame> {
	let mut buf = input.to_vec();
	let dt = 1.0 / sr as f64;
	let mut pos = 0;
	for len in partition {
		fx.on_start_processing();
		fx.process(&mut buf[pos..pos + len], dt, info);
		pos += len;
	}
	assert_eq!(pos, input.len());
	buf
}

/// The fully dry / transparent variant of a spec, if the documentation promises one.
fn dry_variant(spec: &FxSpec) -> Option<(FxSpec, bool)> {
	// bool: identity only holds for |x| <= 1
	Some(match spec.clone() {
		FxSpec::Filter { mode, cutoff, resonance, .. } => (FxSpec::Filter { mode, cutoff, resonance, mix: 0.0 }, false),
		FxSpec::Eq { kind, frequency, q, .. } => (FxSpec::Eq { kind, frequency, gain_db: 0.0, q }, false),
		FxSpec::Delay { time_s, feedback_db, inner, .. } => (FxSpec::Delay { time_s, feedback_db, mix: 0.0, inner }, false),
		FxSpec::Reverb { feedback, damping, stereo_width, .. } => (FxSpec::Reverb { feedback, damping, stereo_width, mix: 0.0 }, false),
		FxSpec::Compressor { threshold, ratio, attack_s, release_s, makeup_db, .. } => (FxSpec::Compressor { threshold, ratio, attack_s, release_s, makeup_db, mix: 0.0 }, false),
		FxSpec::Distortion { kind, drive_db, mix } => {
			if kind == kira::effect::distortion::DistortionKind::HardClip && mix > 0.5 {
				// hard clip at 0 dB drive below full scale, fully wet
				(FxSpec::Distortion { kind, drive_db: 0.0, mix: 1.0 }, true)
			} else {
				(FxSpec::Distortion { kind, drive_db, mix: 0.0 }, false)
			}
		}
		FxSpec::Volume { .. } => (FxSpec::Volume { db: 0.0 }, false),
		FxSpec::Panning { .. } => (FxSpec::Panning { pan: 0.0 }, false),
	})
}

/// How much an effect amplifies its own f32 rounding noise internally: the EQ mixes its state
/// variables with coefficients up to 10^(|gain|/20), a resonant filter has gain 1/k at the
/// corner. The linearity tolerance is scaled by this factor (1 for everything else).
fn nyquist_factor(f: f64, sr: u32) -> f32 {
	let rel = (f / sr as f64).clamp(0.0001, 0.5);
	(1.0 + 0.02 / (0.5 - rel + 1e-4)) as f32
}

pub fn conditioning(spec: &FxSpec, n: usize, sr: u32) -> f32 {
	match spec {
		// (a corner at the Nyquist frequency puts the design's g = tan(pi f / rate) at 1e16: the
		// recursion is then only marginally stable and its rounding errors add up over a long run)
		FxSpec::Eq { gain_db, frequency, .. } => 10f32.powf(gain_db.abs() / 20.0) * nyquist_factor(*frequency, sr),
		FxSpec::Filter { resonance, cutoff, .. } => ((1.0 / (2.0 - 1.9 * resonance.clamp(0.0, 1.0))) as f32 + 1.0) * nyquist_factor(*cutoff, sr),
		FxSpec::Delay { time_s, feedback_db, inner, .. } => {
			// a feedback loop sums its own rounding errors: 1 / (1 - loop gain) of them, and when the
			// loop gain is 1 (0 dB feedback is allowed: the line then integrates) one per round trip
			let g = if *feedback_db <= -60.0 { 0.0 } else { 10f64.powf(*feedback_db as f64 / 20.0) * inner.iter().map(crate::scene::fx::max_gain).product::<f64>() };
			let trips = (n as f64 / crate::scene::fx::delay_frames(*time_s, sr).max(1) as f64).max(1.0);
			let loop_c = if g < 1.0 { (1.0 / (1.0 - g)).min(trips) } else { trips };
			inner.iter().map(|i| conditioning(i, n, sr)).fold(1.0, f32::max) * loop_c as f32
		}
		_ => 1.0,
	}
}

fn peak(x: &[Frame]) -> f32 {
	x.iter().fold(0.0f32, |m, f| m.max(f.left.abs()).max(f.right.abs()))
}

fn first_diff(a: &[Frame], b: &[Frame], tol: f32) -> Option<(usize, Frame, Frame)> {
	for (i, (x, y)) in a.iter().zip(b.iter()).enumerate() {
		let ok = |p: f32, q: f32| p == q || (p - q).abs() <= tol;
		if !(ok(x.left, y.left) && ok(x.right, y.right)) {
			return Some((i, *x, *y));
		}
	}
	None
}

fn first_nonfinite(a: &[Frame]) -> Option<(usize, Frame)> {
	a.iter().enumerate().find(|(_, f)| !f.left.is_finite() || !f.right.is_finite()).map(|(i, f)| (i, *f))
}

fn f(oracle: &str, fx: &FxSpec, detail: String) -> Failure {
	Failure::new(oracle, format!("{oracle}:{}", fx.name()), detail)
}

impl Property for C13 {
	fn id(&self) -> &'static str {
		"C13"
	}
	fn rule(&self) -> &'static str {
		"each case: one effect spec (8 kinds; a delay may nest up to 2 levels of feedback effects) with parameters from the documented ranges and their edges, a sample rate 8k..192k, an internal buffer size, an input signal (impulse/noise/step/DC/sine/full-scale square/sparse/denormal, amplitude up to 4) and two partitions into process() slices. Oracles: dry variant == input exactly; zeros in -> exact zeros out; finite output; superposition+scaling for linear effects (1e-4 of peak), and scaling by 2^-10..2^-38 with the tolerance relative to the scaled signal; two partitions agree (bit-exact for memoryless effects, 1e-6 for recursive ones). Non-trivial = non-silent input and at least one parameter differs from the builder default; distinct = distinct decoded choices."
	}
	fn assumptions(&self) -> Vec<String> {
		vec![
			"effects are driven directly through EffectBuilder::build / Effect::{init,on_start_processing,process} with a MockInfoBuilder Info, slices never longer than the internal buffer size (what every track does)".into(),
			"equality is f32 == (so -0.0 == 0.0); linearity tolerance 1e-4 * max(1, peak of the signals involved) * internal gain of the effect (10^(|EQ gain|/20), 1 + 1/k for a resonant filter, min(1/(1 - loop gain), round trips) for a delay's feedback loop, 1 + 0.02/(0.5 - f/rate) for a corner close to Nyquist); recursive-effect partition tolerance 1e-6 absolute".into(),
			"effects placed inside a delay's feedback loop are restricted to a provable loop gain <= 0.95 (a loop with gain above 1 diverges by design); see counters".into(),
		]
	}
	fn tape_len(&self, _tier: Tier) -> usize {
		96
	}
	fn cases(&self, tier: Tier) -> u64 {
		tier.pick(500_000, 5_000_000)
	}

	fn run(&self, tape: &[u32], ctx: &mut Ctx) -> CaseResult {
		let mut src = Src::new(tape);
		let sr = if src.chance(1, 5) { src.int(8000, 192000) as u32 } else { src.pick(&RATES) };
		let ibs = match src.weighted(&[3, 2, 2]) {
			0 => src.pick(&[128usize, 1, 2, 64, 3, 512]),
			1 => src.usize_in(1, 64),
			_ => src.usize_in(1, 1024),
		};
		let spec = gen_fx(&mut src, ctx, Domain::Documented, sr, 0);
		let n = match ctx.tier {
			Tier::Quick => src.usize_in(1, 1024),
			Tier::Thorough => src.usize_in(1, 8192),
		};
		let sig = gen_sig(&mut src, false);
		let input = render_sig(&sig, n);
		let p1 = gen_partition(&mut src, n, ibs);
		let p2 = gen_partition(&mut src, n, ibs);
		let sig2 = gen_sig(&mut src, false);
		let (ka, kb) = (src.f32_in(-2.0, 2.0), src.f32_in(-2.0, 2.0));
		ctx.describe(|| format!("sr={sr} ibs={ibs} n={n} fx={spec:?} sig={sig:?} partitions=({} slices, {} slices) sig2={:?} a={ka} b={kb}", p1.len(), p2.len(), sig2.kind));
		let info = MockInfoBuilder::new().build();
		let whole: Vec<usize> = {
			let mut v = vec![];
			let mut left = n;
			while left > 0 {
				let k = left.min(ibs);
				v.push(k);
				left -= k;
			}
			v
		};

		// finite output
		let out1 = run_effect(&spec, sr, ibs, &input, &p1, &info);
		if let Some((i, fr)) = first_nonfinite(&out1) {
			return Err(f("finite-output", &spec, format!("frame {i} = {fr:?} for finite input (sr {sr}, {spec:?}, {sig:?})")));
		}

		// chunk independence
		let out2 = run_effect(&spec, sr, ibs, &input, &p2, &info);
		let tol = if spec.recursive() { 1e-6 } else { 0.0 };
		if let Some((i, a, b)) = first_diff(&out1, &out2, tol) {
			return Err(f("chunk-independence", &spec, format!("frame {i}: {a:?} with partition A vs {b:?} with partition B (tol {tol:e}); {spec:?} sr {sr} ibs {ibs}")));
		}

		// silence stays silent from a cleared state
		let zeros = vec![Frame::ZERO; n];
		let outz = run_effect(&spec, sr, ibs, &zeros, &p1, &info);
		if let Some((i, fr)) = outz.iter().enumerate().find(|(_, f)| !(f.left == 0.0 && f.right == 0.0)) {
			return Err(f("silence-in-silence-out", &spec, format!("frame {i} = {fr:?} for all-zero input; {spec:?} sr {sr}")));
		}

		// dry identity
		if let Some((dry, below_full_scale)) = dry_variant(&spec) {
			let x: Vec<Frame> = if below_full_scale && peak(&input) > 1.0 {
				let p = peak(&input);
				input.iter().map(|f| *f / p).collect()
			} else {
				input.clone()
			};
			let outd = run_effect(&dry, sr, ibs, &x, &p1, &info);
			if let Some((i, a, b)) = first_diff(&outd, &x, 0.0) {
				return Err(f("dry-identity", &spec, format!("frame {i}: output {a:?} != input {b:?} for {dry:?} (sr {sr})")));
			}
		}

		// superposition and scaling
		if spec.linear() {
			let y = render_sig(&sig2, n);
			let comb: Vec<Frame> = input.iter().zip(y.iter()).map(|(p, q)| *p * ka + *q * kb).collect();
			let oy = run_effect(&spec, sr, ibs, &y, &whole, &info);
			let ox = run_effect(&spec, sr, ibs, &input, &whole, &info);
			let oc = run_effect(&spec, sr, ibs, &comb, &whole, &info);
			let want: Vec<Frame> = ox.iter().zip(oy.iter()).map(|(p, q)| *p * ka + *q * kb).collect();
			let scale = peak(&ox).max(peak(&oy)).max(peak(&oc)).max(peak(&comb)).max(1.0);
			if first_nonfinite(&oc).is_none() && first_nonfinite(&want).is_none() {
				let tol = 1e-4 * scale * conditioning(&spec, n, sr);
				if let Some((i, a, b)) = first_diff(&oc, &want, tol) {
					return Err(f("linearity", &spec, format!("frame {i}: f(a*x+b*y) = {a:?} but a*f(x)+b*f(y) = {b:?} (a={ka}, b={kb}, tolerance {tol:e}); {spec:?} sr {sr}")));
				}
			}
			// scaling holds at every level: a very quiet signal is treated like a loud one (scaling by
			// a power of two is exact in binary floating point, so the tolerance can be relative to the
			// scaled signal itself)
			let e = [10, 24, 30, 38][(n + sr as usize + ibs) % 4];
			let k = 2f32.powi(-e);
			let xs: Vec<Frame> = input.iter().map(|f| *f * k).collect();
			let os = run_effect(&spec, sr, ibs, &xs, &whole, &info);
			let want_s: Vec<Frame> = ox.iter().map(|f| *f * k).collect();
			let pk = peak(&want_s);
			// (signals that are denormal to begin with, or become so, are outside the exact-scaling argument)
			if pk > 1e-20 && first_nonfinite(&ox).is_none() {
				let tol = 1e-4 * pk * conditioning(&spec, n, sr);
				if let Some((i, a, b)) = first_diff(&os, &want_s, tol) {
					return Err(f("scaling-at-low-level", &spec, format!("frame {i}: f(2^-{e} x) = {a:?} but 2^-{e} f(x) = {b:?} (tolerance {tol:e}, peak {pk:e}); {spec:?} sr {sr}")));
				}
			}
		}

		let default_like = matches!(spec, FxSpec::Volume { db } if db == 0.0) || matches!(spec, FxSpec::Panning { pan } if pan == 0.0);
		let nontrivial = sig.kind != SigKind::Silence && !default_like && peak(&input) > 0.0;
		let mut classes = vec![spec.name()];
		if let FxSpec::Delay { inner, .. } = &spec {
			if !inner.is_empty() {
				classes.push("delay-with-feedback-effects");
			}
		}
		if p1 != p2 {
			classes.push("partitions-differ");
		}
		Ok(CaseInfo::new(&src, nontrivial, classes))
	}
}
