//! C14 - each effect realises its documented transfer behaviour (independent references).

use crate::engine::{CaseInfo, CaseResult, Ctx, Failure, Property, Src, Tier};
use crate::ensure;
use crate::props::c13::{run_effect, RATES};
use crate::scene::fx::{delay_frames, FxSpec};
use crate::scene::signal::{gen_sig, render_sig};
use kira::effect::distortion::DistortionKind;
use kira::effect::eq_filter::EqFilterKind;
use kira::effect::filter::FilterMode;
use kira::info::MockInfoBuilder;
use kira::Frame;
use std::f64::consts::PI;

pub struct C14;

fn whole(n: usize, ibs: usize) -> Vec<usize> {
	let mut v = vec![];
	let mut left = n;
	while left > 0 {
		let k = left.min(ibs);
		v.push(k);
		left -= k;
	}
	v
}

fn amp(db: f64) -> f64 {
	if db <= -60.0 {
		0.0
	} else if db == 0.0 {
		1.0
	} else {
		10f64.powf(db / 20.0)
	}
}

// ------------------------------------------------------------------------------------------
// references

/// Linear trapezoidal state variable filter (Simper / Cytomic), one channel, f64.
struct Svf {
	ic1: f64,
	ic2: f64,
}

impl Svf {
	/// returns (v1 = band, v2 = low)
	fn tick(&mut self, v0: f64, g: f64, k: f64) -> (f64, f64) {
		let a1 = 1.0 / (1.0 + g * (g + k));
		let a2 = g * a1;
		let a3 = g * a2;
		let v3 = v0 - self.ic2;
		let v1 = a1 * self.ic1 + a2 * v3;
		let v2 = self.ic2 + a2 * self.ic1 + a3 * v3;
		self.ic1 = 2.0 * v1 - self.ic1;
		self.ic2 = 2.0 * v2 - self.ic2;
		(v1, v2)
	}
}

/// analytic magnitude of the filter at frequency f (the bilinear-warped analog prototype)
fn filter_mag(mode: FilterMode, fc: f64, k: f64, f: f64, sr: f64) -> f64 {
	let g = (PI * (fc / sr).clamp(0.0001, 0.5)).tan();
	let w = (PI * f / sr).tan() / g;
	let den = ((1.0 - w * w).powi(2) + (k * w).powi(2)).sqrt();
	match mode {
		FilterMode::LowPass => 1.0 / den,
		FilterMode::BandPass => w / den,
		FilterMode::HighPass => w * w / den,
		FilterMode::Notch => (1.0 - w * w).abs() / den,
	}
}

fn eq_mag(kind: EqFilterKind, fc: f64, gain_db: f64, q: f64, f: f64, sr: f64) -> f64 {
	let a = 10f64.powf(gain_db / 40.0);
	let q = q.max(0.01);
	let t = (PI * (fc / sr).clamp(0.0001, 0.5)).tan();
	let (g, k, m0, m1, m2) = match kind {
		EqFilterKind::Bell => (t, 1.0 / (q * a), 1.0, (1.0 / (q * a)) * (a * a - 1.0), 0.0),
		EqFilterKind::LowShelf => (t / a.sqrt(), 1.0 / q, 1.0, (1.0 / q) * (a - 1.0), a * a - 1.0),
		EqFilterKind::HighShelf => (t * a.sqrt(), 1.0 / q, a * a, (1.0 / q) * (1.0 - a) * a, 1.0 - a * a),
	};
	// H(s) = m0 + m1 * s / D + m2 / D with D = s^2 + k s + 1 and s = j w
	let w = (PI * f / sr).tan() / g;
	let (dr, di) = (1.0 - w * w, k * w);
	let d2 = dr * dr + di * di;
	// s / D = j w (dr - j di) / d2 = (w di + j w dr) / d2
	let re = m0 + m1 * (w * di) / d2 + m2 * dr / d2;
	let im = m1 * (w * dr) / d2 - m2 * di / d2;
	(re * re + im * im).sqrt()
}

/// gain of the effect at frequency f measured with a sine (single-bin correlation over whole periods)
fn measure_gain(spec: &FxSpec, sr: u32, f: f64) -> f64 {
	measure_gain_after(spec, sr, f, None)
}

/// `prior`: the same effect instance has first run at that device rate; the device then changed
/// to `sr` ("at any sample rate" includes the rate the device has now)
fn measure_gain_after(spec: &FxSpec, sr: u32, f: f64, prior: Option<u32>) -> f64 {
	// the transient of a resonance of quality Q dies as exp(-pi f t / Q): wait 3 Q periods (at least 30)
	let q_pole = match spec {
		FxSpec::Filter { resonance, .. } => 1.0 / (2.0 - 1.9 * resonance.clamp(0.0, 1.0)),
		FxSpec::Eq { gain_db, q, .. } => q.max(0.01) * 10f64.powf(gain_db.abs() as f64 / 40.0),
		_ => 1.0,
	};
	let settle_periods = (3.0 * q_pole).max(30.0);
	let info = MockInfoBuilder::new().build();
	// settle for 30 periods (and at least 4000 frames), then correlate over a whole number of
	// periods (at least 6 periods and 4000 frames)
	let per = sr as f64 / f;
	let settle = ((settle_periods * per) as usize).clamp(4000, 3_000_000);
	let periods = (4000.0 / per).ceil().max(6.0);
	let measure = (periods * per).round() as usize;
	let n = settle + measure;
	let input: Vec<Frame> = (0..n).map(|i| Frame::from_mono(0.25 * (2.0 * PI * f * i as f64 / sr as f64).sin() as f32)).collect();
	let out = match prior {
		None => run_effect(spec, sr, 512, &input, &whole(n, 512), &info),
		Some(r0) => {
			let (mut fx, _h) = crate::scene::fx::build(spec);
			fx.init(r0, 512);
			let warm: Vec<Frame> = (0..1536).map(|i| Frame::from_mono(0.25 * (2.0 * PI * f * i as f64 / r0 as f64).sin() as f32)).collect();
			let _ = super::c13::process_with(&mut fx, r0, &warm, &whole(1536, 512), &info);
			fx.on_change_sample_rate(sr);
			super::c13::process_with(&mut fx, sr, &input, &whole(n, 512), &info)
		}
	};
	let corr = |x: &[Frame]| {
		let (mut s, mut c) = (0.0f64, 0.0f64);
		for (j, fr) in x.iter().enumerate() {
			let ph = 2.0 * PI * f * (settle + j) as f64 / sr as f64;
			s += fr.left as f64 * ph.sin();
			c += fr.left as f64 * ph.cos();
		}
		(s * s + c * c).sqrt()
	};
	corr(&out[settle..]) / corr(&input[settle..])
}

/// 0.1 dB, widened for corners far below the sample rate where the f32 state of the filter
/// itself limits the accuracy (relative error of order epsilon / g, g = tan(pi f / rate))
fn low_corner_tol(corner: f64, sr: u32) -> f64 {
	let g = (PI * (corner / sr as f64).clamp(0.0001, 0.5)).tan();
	0.1 + 5e-4 / g
}

fn db(x: f64) -> f64 {
	20.0 * x.max(1e-12).log10()
}

#[derive(Debug, Clone)]
enum Inner {
	Volume(f32),
	HardClip(f32),
	SoftClip(f32),
}

#[derive(Debug, Clone)]
enum Case {
	Filter { sr: u32, mode: FilterMode, cutoff: f64, resonance: f64, probe: f64, prior: Option<u32> },
	Eq { sr: u32, kind: EqFilterKind, frequency: f64, gain_db: f32, q: f64, probe: f64, prior: Option<u32> },
	Delay { sr: u32, ibs: usize, time_s: f64, feedback_db: f32, mix: f32, inner: Vec<Inner>, n: usize, amp: f32 },
	Reverb { sr: u32, feedback: f64, damping: f64, width: f64, mix: f32, n: usize },
	Compressor { sr: u32, threshold: f64, ratio: f64, attack_s: f64, release_s: f64, level_db: f64, layout: u8 },
	Distortion { kind: DistortionKind, drive_db: f32, x: f32 },
	VolumePan { db: f32, pan: f32, x: (f32, f32) },
	FilterSamples { sr: u32, mode: FilterMode, cutoff: f64, resonance: f64, n: usize },
	/// an EQ that has rested at exactly 0 dB (where it is transparent) is sent to `gain_db`
	EqLeavesUnity { sr: u32, kind: EqFilterKind, frequency: f64, q: f64, gain_db: f32, rest: usize, tween: usize },
}

fn inner_spec(i: &Inner) -> FxSpec {
	match i {
		Inner::Volume(db) => FxSpec::Volume { db: *db },
		Inner::HardClip(d) => FxSpec::Distortion { kind: DistortionKind::HardClip, drive_db: *d, mix: 1.0 },
		Inner::SoftClip(d) => FxSpec::Distortion { kind: DistortionKind::SoftClip, drive_db: *d, mix: 1.0 },
	}
}

fn inner_apply(i: &Inner, x: f64) -> f64 {
	match i {
		Inner::Volume(db) => x * amp(*db as f64),
		Inner::HardClip(d) => {
			let g = amp(*d as f64);
			if g == 0.0 {
				x
			} else {
				(x * g).clamp(-1.0, 1.0) / g
			}
		}
		Inner::SoftClip(d) => {
			let g = amp(*d as f64);
			if g == 0.0 {
				x
			} else {
				let y = x * g;
				y / (1.0 + y.abs()) / g
			}
		}
	}
}

fn run_one(c: &Case) -> Result<(), Failure> {
	let info = MockInfoBuilder::new().build();
	match c {
		Case::Filter { sr, mode, cutoff, resonance, probe, prior } => {
			let spec = FxSpec::Filter { mode: *mode, cutoff: *cutoff, resonance: *resonance, mix: 1.0 };
			let k = 2.0 - 1.9 * resonance.clamp(0.0, 1.0);
			let want = filter_mag(*mode, *cutoff, k, *probe, *sr as f64);
			let got = measure_gain_after(&spec, *sr, *probe, *prior);
			// deep notches / stop bands are compared in linear terms
			let ok = (db(got) - db(want)).abs() <= low_corner_tol(*cutoff, *sr) || (got - want).abs() <= 2e-3;
			ensure!(ok, "filter-frequency-response", "{mode:?} filter, corner {cutoff:.2} Hz, resonance {resonance:.3}, at {sr} Hz (device rate before: {prior:?}): gain at {probe:.2} Hz measured {:.3} dB, the cited state-variable design gives {:.3} dB", db(got), db(want));
			// landmarks of the design
			let nyq = *sr as f64 / 2.0;
			if *cutoff < nyq * 0.4 && *cutoff > 20.0 {
				let at_corner = measure_gain_after(&spec, *sr, *cutoff, *prior);
				let want_c = match mode {
					FilterMode::Notch => 0.0,
					_ => 1.0 / k,
				};
				// (a notch of quality 10 at a corner a ten-thousandth of the sample rate is only as deep
				// as the filter's f32 state allows: -40 dB)
				let tol_c = if *mode == FilterMode::Notch { 0.01 } else { 0.02 * want_c.max(0.05) };
				ensure!((at_corner - want_c).abs() <= tol_c, "filter-corner-at-requested-frequency", "{mode:?} filter: gain at its {cutoff:.2} Hz corner is {at_corner:.4}, expected {want_c:.4} (1/k, k = {k:.3}) at {sr} Hz");
			}
		}
		Case::Eq { sr, kind, frequency, gain_db, q, probe, prior } => {
			let spec = FxSpec::Eq { kind: *kind, frequency: *frequency, gain_db: *gain_db, q: *q };
			let want = eq_mag(*kind, *frequency, *gain_db as f64, *q, *probe, *sr as f64);
			let got = measure_gain_after(&spec, *sr, *probe, *prior);
			ensure!((db(got) - db(want)).abs() <= low_corner_tol(*frequency, *sr), "eq-frequency-response", "{kind:?} EQ, {frequency:.2} Hz, {gain_db:.2} dB, q {q:.3}, at {sr} Hz (device rate before: {prior:?}): gain at {probe:.2} Hz measured {:.3} dB, the cited design gives {:.3} dB", db(got), db(want));
			let nyq = *sr as f64 / 2.0;
			if *frequency < nyq * 0.2 && *frequency > 100.0 {
				match kind {
					EqFilterKind::Bell => {
						let g = measure_gain(&spec, *sr, *frequency);
						ensure!((db(g) - *gain_db as f64).abs() <= low_corner_tol(*frequency, *sr), "eq-requested-gain-at-centre", "bell EQ: {:.3} dB at its centre, requested {gain_db:.3} dB", db(g));
					}
					EqFilterKind::LowShelf | EqFilterKind::HighShelf => {
						// far from the corner the shelf sits on its two levels: the requested gain on
						// the shelf side, unity on the other (how far is "far" depends on q: the
						// analytic response of the design says where the levels are reached)
						let lo_f = (*frequency / 64.0).max(5.0);
						let hi_f = (*frequency * 32.0).min(nyq * 0.9);
						let (shelf_f, flat_f) = if *kind == EqFilterKind::LowShelf { (lo_f, hi_f) } else { (hi_f, lo_f) };
						let shelf = measure_gain(&spec, *sr, shelf_f);
						let flat = measure_gain(&spec, *sr, flat_f);
						let a_shelf = eq_mag(*kind, *frequency, *gain_db as f64, *q, shelf_f, *sr as f64);
						let a_flat = eq_mag(*kind, *frequency, *gain_db as f64, *q, flat_f, *sr as f64);
						if (db(a_shelf) - *gain_db as f64).abs() <= 0.05 {
							ensure!((db(shelf) - *gain_db as f64).abs() <= 0.2, "eq-requested-gain-on-shelf", "{kind:?}: {:.3} dB on the shelf (at {shelf_f:.1} Hz), requested {gain_db:.3} dB", db(shelf));
						}
						if db(a_flat).abs() <= 0.05 {
							ensure!(db(flat).abs() <= 0.2, "eq-unity-pass-band", "{kind:?}: {:.3} dB in the pass band (at {flat_f:.1} Hz), expected 0 dB", db(flat));
						}
					}
				}
			}
		}
		Case::FilterSamples { sr, mode, cutoff, resonance, n } => {
			let spec = FxSpec::Filter { mode: *mode, cutoff: *cutoff, resonance: *resonance, mix: 1.0 };
			let sig = crate::scene::signal::SigSpec {
				kind: crate::scene::signal::SigKind::Noise,
				amp: 0.5,
				seed: 12345,
				freq: 0.01,
				stereo_skew: 1.0,
			};
			let input = render_sig(&sig, *n);
			let out = run_effect(&spec, *sr, 128, &input, &whole(*n, 128), &info);
			let g = (PI * (cutoff / *sr as f64).clamp(0.0001, 0.5)).tan();
			let k = 2.0 - 1.9 * resonance.clamp(0.0, 1.0);
			let mut f = Svf { ic1: 0.0, ic2: 0.0 };
			let mut peak = 0.0f64;
			for x in &out {
				peak = peak.max(x.left.abs() as f64);
			}
			for i in 0..*n {
				let v0 = input[i].left as f64;
				let (v1, v2) = f.tick(v0, g, k);
				let want = match mode {
					FilterMode::LowPass => v2,
					FilterMode::BandPass => v1,
					FilterMode::HighPass => v0 - k * v1 - v2,
					FilterMode::Notch => v0 - k * v1,
				};
				ensure!((out[i].left as f64 - want).abs() <= 1e-4 * peak.max(1.0) * (1.0 + 1.0 / k), "filter-matches-cited-algorithm", "{mode:?} filter (corner {cutoff:.2} Hz, resonance {resonance:.3}, {sr} Hz): frame {i} = {}, reference state-variable filter gives {want}", out[i].left);
			}
		}
		Case::EqLeavesUnity { sr, kind, frequency, q, gain_db, rest, tween } => {
			// The cited design is continuous in the gain: a band that rested at exactly 0 dB and a band
			// that rested a thousandth of a decibel away from it are the same filter to well below
			// audibility, while they rest (where the first is exactly transparent) and after both have
			// been sent to the same gain with the same tween. In particular the filter's state keeps
			// following the input while the band is flat.
			let sig = crate::scene::signal::SigSpec {
				kind: crate::scene::signal::SigKind::Noise,
				amp: 0.5,
				seed: 4242,
				freq: 0.01,
				stereo_skew: 1.0,
			};
			let n = rest + tween + 2048;
			let input = render_sig(&sig, n);
			let run = |g0: f32| -> Vec<Frame> {
				let (mut fx, h) = crate::scene::fx::build(&FxSpec::Eq { kind: *kind, frequency: *frequency, gain_db: g0, q: *q });
				let mut h = match h {
					crate::scene::fx::FxHandle::Eq(h) => h,
					_ => unreachable!(),
				};
				fx.init(*sr, 64);
				let dt = 1.0 / *sr as f64;
				let mut out = input.clone();
				let mut sent = false;
				let mut i = 0;
				while i < n {
					if !sent && i >= *rest {
						h.set_gain(
							kira::Decibels(*gain_db),
							kira::Tween {
								duration: std::time::Duration::from_secs_f64(*tween as f64 * dt),
								..Default::default()
							},
						);
						sent = true;
					}
					let k = 64.min(n - i);
					fx.on_start_processing();
					fx.process(&mut out[i..i + k], dt, &info);
					i += k;
				}
				out
			};
			let a = run(0.0);
			let b = run(if *gain_db >= 0.0 { 0.001 } else { -0.001 });
			let first_after = (*rest + 63) / 64 * 64;
			for i in 0..first_after.min(n) {
				ensure!(a[i] == input[i], "eq-unity-pass-band", "{kind:?} EQ at 0 dB ({frequency:.2} Hz, q {q:.3}, {sr} Hz): frame {i} = {:?}, the input is {:?}", a[i], input[i]);
			}
			let peak = b.iter().fold(0.0f32, |m, f| m.max(f.left.abs())).max(1.0) as f64;
			// (a thousandth of a decibel is 1.2e-4 of the signal; resonant bands ring that much longer)
			let tol = 2e-3 * peak * (1.0 + *q);
			for i in 0..n {
				ensure!(
					(a[i].left as f64 - b[i].left as f64).abs() <= tol && (a[i].right as f64 - b[i].right as f64).abs() <= tol,
					"eq-state-follows-the-input-while-flat",
					"{kind:?} EQ ({frequency:.2} Hz, q {q:.3}, {sr} Hz) sent from 0 dB to {gain_db} dB after {rest} frames (tween {tween} frames): frame {i} = {:?}; the same band started at +-0.001 dB gives {:?}",
					a[i],
					b[i]
				);
			}
		}
		Case::Delay { sr, ibs, time_s, feedback_db, mix, inner, n, amp: a } => {
			let spec = FxSpec::Delay {
				time_s: *time_s,
				feedback_db: *feedback_db,
				mix: *mix,
				inner: inner.iter().map(inner_spec).collect(),
			};
			let d = delay_frames(*time_s, *sr).max(1);
			let mut input = vec![Frame::ZERO; *n];
			input[0] = Frame::new(*a, -*a * 0.5);
			// a second impulse makes the line hold more than one echo train
			if *n > d / 2 + 3 {
				input[d / 2 + 3] = Frame::new(*a * 0.5, *a);
			}
			let out = run_effect(&spec, *sr, *ibs, &input, &whole(*n, *ibs), &info);
			// reference delay line: y = sqrt(mix) * r + sqrt(1 - mix) * x, r = fb * FX(line[n - D]),
			// line[n] = x + r
			let fb = amp(*feedback_db as f64);
			let m = mix.clamp(0.0, 1.0) as f64;
			let mut line_l = vec![0.0f64; *n];
			let mut line_r = vec![0.0f64; *n];
			for i in 0..*n {
				let (rl, rr) = if i >= d {
					let mut l = line_l[i - d];
					let mut r = line_r[i - d];
					for fx in inner {
						l = inner_apply(fx, l);
						r = inner_apply(fx, r);
					}
					(l * fb, r * fb)
				} else {
					(0.0, 0.0)
				};
				line_l[i] = input[i].left as f64 + rl;
				line_r[i] = input[i].right as f64 + rr;
				let wl = m.sqrt() * rl + (1.0 - m).sqrt() * input[i].left as f64;
				let wr = m.sqrt() * rr + (1.0 - m).sqrt() * input[i].right as f64;
				let tol = 1e-5 * (1.0 + wl.abs().max(wr.abs()));
				ensure!((out[i].left as f64 - wl).abs() <= tol && (out[i].right as f64 - wr).abs() <= tol, "delay-echoes-at-multiples-shaped-by-feedback", "delay of {d} frames ({time_s:.6} s at {sr} Hz), feedback {feedback_db:.2} dB, mix {mix:.3}, feedback effects {inner:?}: frame {i} = ({}, {}), reference delay line gives ({wl}, {wr})", out[i].left, out[i].right);
			}
		}
		Case::Reverb { sr, feedback, damping, width, mix, n: _ } => {
			let spec = FxSpec::Reverb { feedback: *feedback, damping: *damping, stereo_width: *width, mix: *mix };
			let sig = crate::scene::signal::SigSpec {
				kind: crate::scene::signal::SigKind::Sparse,
				amp: 0.8,
				seed: 777,
				freq: 0.01,
				stereo_skew: 1.0,
			};
			// 2000 frames of sparse impulses, then silence: two windows of the longest comb period
			// (times two) show the decay of the tail
			let win = (3600.0 * *sr as f64 / 44100.0) as usize;
			let n = &(2000 + 3 * win + 16);
			let _ = n;
			let mut input = render_sig(&sig, *n);
			for f in input.iter_mut().skip(2000) {
				*f = Frame::ZERO;
			}
			let out = run_effect(&spec, *sr, 256, &input, &whole(*n, 256), &info);
			// Freeverb: 8 parallel feedback-comb filters and 4 series all-pass filters per channel
			let scale = |x: usize| ((x as f64) * (*sr as f64 / 44100.0)) as usize;
			let combs = [1116usize, 1188, 1277, 1356, 1422, 1491, 1557, 1617];
			let allp = [556usize, 441, 341, 225];
			struct Comb {
				buf: Vec<f64>,
				i: usize,
				store: f64,
			}
			struct Ap {
				buf: Vec<f64>,
				i: usize,
			}
			let mk = |spread: usize| -> (Vec<Comb>, Vec<Ap>) { (combs.iter().map(|c| Comb { buf: vec![0.0; scale(c + spread)], i: 0, store: 0.0 }).collect(), allp.iter().map(|a| Ap { buf: vec![0.0; scale(a + spread)], i: 0 }).collect()) };
			let (mut cl, mut al) = mk(0);
			let (mut cr, mut ar) = mk(23);
			let (fbk, damp) = (*feedback as f32 as f64, *damping as f32 as f64);
			let m = mix.clamp(0.0, 1.0) as f64;
			let w = *width as f32 as f64;
			let (wet1, wet2) = (w / 2.0 + 0.5, (1.0 - w) / 2.0);
			let mut peak = 1e-6f64;
			for f in &out {
				peak = peak.max(f.left.abs() as f64).max(f.right.abs() as f64);
			}
			for i in 0..*n {
				let x = (input[i].left as f64 + input[i].right as f64) * 0.015;
				let run = |cs: &mut Vec<Comb>, aps: &mut Vec<Ap>| -> f64 {
					let mut acc = 0.0;
					for c in cs.iter_mut() {
						let o = c.buf[c.i];
						c.store = o * (1.0 - damp) + c.store * damp;
						c.buf[c.i] = x + c.store * fbk;
						c.i = (c.i + 1) % c.buf.len();
						acc += o;
					}
					for a in aps.iter_mut() {
						let bo = a.buf[a.i];
						let o = -acc + bo;
						a.buf[a.i] = acc + bo * 0.5;
						a.i = (a.i + 1) % a.buf.len();
						acc = o;
					}
					acc
				};
				let l = run(&mut cl, &mut al);
				let r = run(&mut cr, &mut ar);
				let (ol, or) = (l * wet1 + r * wet2, r * wet1 + l * wet2);
				let wl = ol * m.sqrt() + input[i].left as f64 * (1.0 - m).sqrt();
				let wr = or * m.sqrt() + input[i].right as f64 * (1.0 - m).sqrt();
				let tol = 2e-4 * peak.max(1.0);
				ensure!((out[i].left as f64 - wl).abs() <= tol && (out[i].right as f64 - wr).abs() <= tol, "reverb-matches-freeverb-network", "reverb (feedback {feedback:.3}, damping {damping:.3}, width {width:.3}, mix {mix:.3}) at {sr} Hz: frame {i} = ({}, {}), Freeverb reference gives ({wl}, {wr})", out[i].left, out[i].right);
			}
			// decays for feedback below 1
			if *feedback < 0.9 && *mix > 0.1 {
				let rms = |a: usize| (out[a..a + win].iter().map(|f| (f.left as f64).powi(2) + (f.right as f64).powi(2)).sum::<f64>() / win as f64).sqrt();
				// the first window after the input ends still receives first echoes: compare the next two
				let (early, late) = (rms(2008 + win), rms(2008 + 2 * win));
				ensure!(late <= early * 1.02 + 1e-9, "reverb-decays", "reverb tail grows: rms {early:e} in frames {win}..{} after the input ends, {late:e} in the following {win} (feedback {feedback:.3})", 2 * win);
			}
		}
		Case::Compressor { sr, threshold, ratio, attack_s, release_s, level_db, layout } => {
			let spec = FxSpec::Compressor { threshold: *threshold, ratio: *ratio, attack_s: *attack_s, release_s: *release_s, makeup_db: 0.0, mix: 1.0 };
			let a = 10f64.powf(level_db / 20.0) as f32;
			// the signal sits on both channels (opposite signs), on the left only, or on the right only:
			// each channel is compressed on its own
			let frame = |x: f32| match layout {
				0 => Frame::new(x, -x),
				1 => Frame::new(x, 0.0),
				_ => Frame::new(0.0, -x),
			};
			let pick = |f: &Frame| if *layout == 2 { -f.right as f64 } else { f.left as f64 };
			// a constant level: long enough for the envelope to settle
			let settle = ((attack_s.max(*release_s) * 12.0 * *sr as f64) as usize).clamp(256, 400_000);
			let input = vec![frame(a); settle];
			let (mut fx, _h) = crate::scene::fx::build(&spec);
			fx.init(*sr, 512);
			let out = super::c13::process_with(&mut fx, *sr, &input, &whole(settle, 512), &info);
			let last = pick(&out[settle - 1]);
			// (a level within a hundredth of a decibel of the threshold may land on either side of it in
			// the compressor's f32 decibel arithmetic: there the gain may change by an ulp, and the
			// steady-state formula below applies with its own tolerance)
			if *level_db <= *threshold - 0.01 {
				ensure!(out.iter().zip(input.iter()).all(|(o, i)| o == i), "compressor-transparent-below-threshold", "a signal at {level_db:.2} dB is changed by a compressor with threshold {threshold:.2} dB: {:?} -> {:?}", input[settle - 1], out[settle - 1]);
			} else {
				let reduction = db(a as f64) - db(last);
				let want = (level_db - threshold).max(0.0) * (1.0 - 1.0 / ratio);
				ensure!((reduction - want).abs() <= 0.05 + 0.002 * want.abs(), "compressor-steady-state-gain-reduction", "level {level_db:.2} dB, threshold {threshold:.2} dB, ratio {ratio:.3} (channel layout {layout}): gain reduction settles at {reduction:.4} dB, expected (level - threshold)(1 - 1/ratio) = {want:.4} dB");
				// release time constant: the level drops below the threshold; after release_s the
				// reduction has fallen to 1/e of what it was
				if *release_s * *sr as f64 > 50.0 && reduction.abs() > 0.5 {
					let k = (*release_s * *sr as f64).round() as usize;
					let low = 10f64.powf((threshold - 20.0) / 20.0) as f32;
					// the level drops to a quiet signal or - in every other case - to digital silence with
					// one quiet frame at the end to read the gain from: the envelope relaxes through
					// silence just the same
					let silent = (k + *sr as usize) % 2 == 0;
					let mut tail = vec![if silent { Frame::ZERO } else { frame(low) }; k + 1];
					tail[k - 1] = frame(low);
					let out2 = super::c13::process_with(&mut fx, *sr, &tail, &whole(k + 1, 512), &info);
					let r_k = db(low as f64) - db(pick(&out2[k - 1]));
					let frac = r_k / reduction;
					ensure!((frac - (-1.0f64).exp()).abs() <= 0.02, "compressor-release-time-constant", "one release time ({release_s:.5} s) after the level fell below the threshold the gain reduction is at {:.2}% of what it was, expected 36.8% (channel layout {layout}, attack {attack_s:.5} s)", frac * 100.0);
				}
				// attack time constant: the reduction reaches 1 - 1/e of its final value after attack_s
				// (only where there is a reduction to take a fraction of)
				if *attack_s * *sr as f64 > 50.0 && reduction.abs() > 0.5 {
					let k = (*attack_s * *sr as f64).round() as usize;
					if k < settle {
						let r_k = db(a as f64) - db(pick(&out[k - 1]));
						let frac = r_k / reduction;
						ensure!((frac - (1.0 - (-1.0f64).exp())).abs() <= 0.02, "compressor-attack-time-constant", "after the attack time ({attack_s:.5} s) the gain reduction is at {:.2}% of its final value, expected 63.2%", frac * 100.0);
					}
				}
			}
		}
		Case::Distortion { kind, drive_db, x } => {
			let spec = FxSpec::Distortion { kind: *kind, drive_db: *drive_db, mix: 1.0 };
			let input = vec![Frame::new(*x, -*x * 0.5); 4];
			let out = run_effect(&spec, 48000, 4, &input, &[4], &info);
			let d = amp(*drive_db as f64);
			let f = |x: f64| -> f64 {
				if d == 0.0 {
					return x;
				}
				match kind {
					DistortionKind::HardClip => (x * d).clamp(-1.0, 1.0) / d,
					DistortionKind::SoftClip => (x * d) / (1.0 + (x * d).abs()) / d,
				}
			};
			let (wl, wr) = (f(*x as f64), f(-*x as f64 * 0.5));
			let tol = 1e-5 * (1.0 + wl.abs());
			ensure!((out[0].left as f64 - wl).abs() <= tol && (out[0].right as f64 - wr).abs() <= tol, "distortion-curve", "{kind:?} at {drive_db:.2} dB drive: input ({x}, {}) -> {:?}, expected ({wl}, {wr})", -*x * 0.5, out[0]);
			// transparent for small signals
			if (*x as f64 * d).abs() < 1e-3 && d > 0.0 {
				ensure!((out[0].left as f64 - *x as f64).abs() <= 2e-3 * x.abs() as f64 + 1e-9, "distortion-transparent-for-small-signals", "{kind:?}: small input {x} -> {}", out[0].left);
			}
		}
		Case::VolumePan { db: d, pan, x } => {
			let input = vec![Frame::new(x.0, x.1); 3];
			let o = run_effect(&FxSpec::Volume { db: *d }, 48000, 3, &input, &[3], &info);
			let g = amp(*d as f64);
			ensure!((o[0].left as f64 - x.0 as f64 * g).abs() <= 1e-6 * (1.0 + g) && (o[0].right as f64 - x.1 as f64 * g).abs() <= 1e-6 * (1.0 + g), "volume-control-decibel-law", "volume control at {d} dB: {x:?} -> {:?}, expected gain {g}", o[0]);
			let o = run_effect(&FxSpec::Panning { pan: *pan }, 48000, 3, &input, &[3], &info);
			let p = (*pan as f64).clamp(-1.0, 1.0);
			let m = (p + 1.0) / 2.0;
			let (gl, gr) = if p == 0.0 { (1.0, 1.0) } else { ((1.0 - m).sqrt() * 2f64.sqrt(), m.sqrt() * 2f64.sqrt()) };
			// (near a hard pan the small gain is the square root of an f32 difference: 1e-5 absolute)
			ensure!((o[0].left as f64 - x.0 as f64 * gl).abs() <= 1e-5 && (o[0].right as f64 - x.1 as f64 * gr).abs() <= 1e-5, "panning-control-equal-power-law", "panning control at {pan}: {x:?} -> {:?}, expected gains ({gl}, {gr})", o[0]);
		}
	}
	Ok(())
}

fn decode(src: &mut Src, tier: Tier) -> Case {
	let sr = if src.chance(1, 5) { src.int(8000, 192000) as u32 } else { src.pick(&RATES) };
	let nyq = sr as f64 / 2.0;
	let modes = [FilterMode::LowPass, FilterMode::BandPass, FilterMode::HighPass, FilterMode::Notch];
	let kinds = [EqFilterKind::Bell, EqFilterKind::LowShelf, EqFilterKind::HighShelf];
	match src.weighted(&[3, 3, 3, 4, 2, 3, 2, 2, 2]) {
		8 => Case::EqLeavesUnity {
			sr,
			kind: src.pick(&kinds),
			frequency: src.f64_log(20.0, nyq * 0.9),
			q: src.f64_log(0.1, 10.0),
			gain_db: src.pick(&[12.0f32, -12.0, 6.0, 24.0, -24.0, 3.0]),
			rest: src.pick(&[256usize, 64, 1000, 4096, 100]),
			tween: src.pick(&[0usize, 1, 64, 500, 3000]),
		},
		0 => {
			let cutoff = src.f64_log(20.0, nyq * 0.9);
			// probe within two octaves of the corner (and inside 10 Hz .. 0.9 Nyquist)
			let probe = (cutoff * 2f64.powf(src.f64_uniform(-2.0, 2.0))).clamp(10.0, nyq * 0.9);
			Case::Filter {
				sr,
				mode: src.pick(&modes),
				cutoff,
				resonance: src.f64_in(0.0, 1.0),
				probe,
				prior: if src.chance(1, 4) { Some(src.pick(&[48000u32, 8000, 44100, 96000, 22050])) } else { None },
			}
		}
		1 => {
			let frequency = src.f64_log(20.0, nyq * 0.9);
			let probe = (frequency * 2f64.powf(src.f64_uniform(-2.0, 2.0))).clamp(10.0, nyq * 0.9);
			Case::Eq {
				sr,
				kind: src.pick(&kinds),
				frequency,
				gain_db: src.f32_in(-24.0, 24.0),
				q: src.f64_log(0.1, 10.0),
				probe,
				prior: if src.chance(1, 4) { Some(src.pick(&[48000u32, 8000, 44100, 96000, 22050])) } else { None },
			}
		}
		2 => Case::FilterSamples {
			sr,
			mode: src.pick(&modes),
			cutoff: src.f64_log(10.0, sr as f64),
			resonance: src.f64_in(0.0, 1.0),
			n: src.usize_in(16, tier.pick(1024, 4096)),
		},
		3 => {
			let time_s = match src.weighted(&[2, 3]) {
				0 => src.usize_in(1, 40) as f64 / sr as f64 + 0.3 / sr as f64,
				_ => src.f64_log(2.0 / sr as f64, 0.02),
			};
			let mut inner = vec![];
			for _ in 0..src.weighted(&[3, 3, 1]) {
				inner.push(match src.index(3) {
					0 => Inner::Volume(src.f32_in(-12.0, 0.0)),
					1 => Inner::HardClip(src.f32_in(-6.0, 30.0)),
					_ => Inner::SoftClip(src.f32_in(-6.0, 30.0)),
				});
			}
			let d = delay_frames(time_s, sr).max(1);
			Case::Delay {
				sr,
				ibs: src.pick(&[128usize, 1, 7, 512]),
				time_s,
				feedback_db: src.f32_in(-24.0, -0.5),
				mix: src.f32_in(0.0, 1.0),
				inner,
				n: (d * src.usize_in(3, 6) + 5).min(8192),
				amp: src.f32_in(0.1, 2.0),
			}
		}
		4 => Case::Reverb {
			sr: src.pick(&[44100u32, 48000, 8000, 22050, 96000]),
			feedback: src.f64_in(0.0, 1.0),
			damping: src.f64_in(0.0, 1.0),
			width: src.f64_in(0.0, 1.0),
			mix: src.f32_in(0.0, 1.0),
			n: tier.pick(6000, 20000),
		},
		5 => {
			let threshold = src.f64_uniform(-40.0, -3.0);
			Case::Compressor {
				sr: src.pick(&[48000u32, 44100, 8000]),
				threshold,
				ratio: src.f64_log(1.0, 20.0),
				attack_s: src.f64_log(0.0005, 0.02),
				release_s: src.f64_log(0.001, 0.05),
				level_db: threshold + src.f64_uniform(-12.0, 24.0),
				layout: src.weighted(&[2, 1, 1]) as u8,
			}
		}
		6 => Case::Distortion {
			kind: src.pick(&[DistortionKind::HardClip, DistortionKind::SoftClip]),
			drive_db: src.f32_in(-70.0, 40.0),
			x: match src.weighted(&[3, 2]) {
				0 => src.f32_in(-2.0, 2.0),
				_ => src.f64_log(1e-6, 1e-2) as f32,
			},
		},
		_ => Case::VolumePan {
			db: src.f32_in(-70.0, 24.0),
			pan: src.f32_in(-1.5, 1.5),
			x: (src.f32_in(-1.0, 1.0), src.f32_in(-1.0, 1.0)),
		},
	}
}

impl Property for C14 {
	fn id(&self) -> &'static str {
		"C14"
	}
	fn rule(&self) -> &'static str {
		"each case builds one effect through its public builder with generated parameters and a sample rate 8k..192k and compares it with an independent reference: filter (4 modes) and EQ (3 kinds): sine gain measured at a probe frequency within two octaves of the corner against the analytic magnitude of the cited state-variable design (0.1 dB + 5e-4/g dB, g = tan(pi corner / rate)), corner / centre / shelf landmarks - in a quarter of the cases on an effect instance that first ran at another device rate and was then told the new one -, and sample-by-sample agreement of the filter with an f64 implementation of the cited algorithm on noise; delay: impulse trains against a reference delay line with floor(time x rate) frames, feedback gain applied once per round trip after the feedback effects (volume, hard / soft clip), sqrt mix law (1e-5 per frame); reverb: sample-by-sample against an f64 Freeverb network (8 combs + 4 all-passes per channel, tunings x rate/44100, spread 23, input gain 0.015) and a decaying tail for feedback < 1; compressor: unchanged below threshold, steady-state reduction (level - threshold)(1 - 1/ratio) dB (0.05 dB), 63.2% of it after the attack time and 36.8% one release time after the level falls below the threshold or to digital silence (2%), with the signal on both channels, the left only or the right only; distortion: clamp(x d)/d and x d/(1+|x d|)/d, transparent for small signals; volume / panning control: decibel and equal-power laws. An EQ band that rested at exactly 0 dB for 64..4096 frames of noise (bit-exact pass-through meanwhile) and is then sent to +-3..24 dB with a tween of 0..3000 frames must agree, frame by frame (2e-3 x (1 + q) of the peak), with the same band started a thousandth of a decibel away from 0 dB - the filter state follows the input while the band is flat. Non-trivial = parameters differ from the builder defaults (always, by generation) and the probe lies within two octaves of the corner; distinct = distinct decoded choices."
	}
	fn assumptions(&self) -> Vec<String> {
		vec![
			"the filter's resonance r is taken as damping k = 2 - 1.9 r (the mapping of the implementation the filter cites); everything else about the references comes from the cited papers / Freeverb source".into(),
			"gains are measured by correlating the steady-state output with a sine and cosine at the probe frequency after 40 periods of settling".into(),
		]
	}
	fn tape_len(&self, _tier: Tier) -> usize {
		64
	}
	fn cases(&self, tier: Tier) -> u64 {
		tier.pick(72_000, 500_000)
	}

	fn run(&self, tape: &[u32], ctx: &mut Ctx) -> CaseResult {
		let mut src = Src::new(tape);
		let case = decode(&mut src, ctx.tier);
		ctx.describe(|| format!("{case:?}"));
		run_one(&case)?;
		let _ = gen_sig;
		let class = match &case {
			Case::Filter { .. } => "filter-response",
			Case::Eq { .. } => "eq-response",
			Case::FilterSamples { .. } => "filter-samples",
			Case::EqLeavesUnity { .. } => "eq-leaves-unity",
			Case::Delay { .. } => "delay",
			Case::Reverb { .. } => "reverb",
			Case::Compressor { .. } => "compressor",
			Case::Distortion { .. } => "distortion",
			Case::VolumePan { .. } => "volume-panning",
		};
		Ok(CaseInfo::new(&src, true, vec![class]))
	}
}
