//! C15 - spatial tracks: loudness from distance, balance from direction, needs a listener.

use crate::engine::{CaseInfo, CaseResult, Ctx, Failure, Property, Src, Tier};
use crate::ensure;
use crate::probes::agent::{Phase, Stage, Target, World, PHASES, TARGETS};
use crate::probes::{default_manager, Mgr, ProbeEffectBuilder, ProbeKind, ProbeSoundData, Signal};
use crate::scene::gen::{gen_easing, gen_quat};
use glam::{Quat, Vec3};
use kira::track::{SpatialTrackBuilder, TrackBuilder};
use kira::{Easing, Mapping, Tween, Value};
use std::time::Duration;

pub struct C15;

#[derive(Debug, Clone)]
struct Geo {
	listener_pos: [f32; 3],
	listener_rot: [f32; 4],
	emitter: [f32; 3],
	min: f32,
	max: f32,
	attenuation: Option<Easing>,
	strength: f32,
	input: (f32, f32),
	ibs: usize,
}

fn v(a: [f32; 3]) -> Vec3 {
	Vec3::from_array(a)
}
fn q(a: [f32; 4]) -> Quat {
	Quat::from_array(a)
}

/// Renders the steady-state output frame of a DC sound on a spatial track.
fn render(g: &Geo) -> Result<(f32, f32), Failure> {
	let mut mgr = default_manager(48000, g.ibs);
	let listener = mgr.add_listener(v(g.listener_pos), q(g.listener_rot)).map_err(|_| Failure::simple("setup", "listener"))?;
	let mut track = mgr
		.add_spatial_sub_track(&listener, v(g.emitter), SpatialTrackBuilder::new().distances((g.min, g.max)).attenuation_function(g.attenuation).spatialization_strength(g.strength))
		.map_err(|_| Failure::simple("setup", "track"))?;
	track.play(ProbeSoundData::new(Signal::Dc(g.input.0, g.input.1), None)).map_err(|_| Failure::simple("setup", "sound"))?;
	last_frame(&mut mgr, g.ibs)
}

fn last_frame(mgr: &mut Mgr, ibs: usize) -> Result<(f32, f32), Failure> {
	let mut last = (0.0, 0.0);
	for _ in 0..2 {
		let cb = mgr.backend_mut().callback(ibs, 2);
		if let Some(p) = &cb.guard.panic {
			return Err(Failure::panic("", p));
		}
		for s in &cb.out {
			if !s.is_finite() {
				return Err(Failure::simple("spatial-output-finite", format!("non-finite sample {s}")));
			}
		}
		// (the renderer replaces NaN by silence before the device sees it; the scenes of this check
		// contain nothing but spatial tracks, so a replaced sample is a spatial track's output)
		if cb.scrubbed > 0 {
			return Err(Failure::simple("spatial-output-finite", format!("the spatial track produced NaN for {} sample(s) of a callback of {ibs} frames (the renderer replaced them by silence)", cb.scrubbed)));
		}
		last = (cb.out[cb.out.len() - 2], cb.out[cb.out.len() - 1]);
	}
	Ok(last)
}

/// easing through the public mapping (C19 checks the curves themselves)
fn ease(e: Easing, x: f64) -> f64 {
	Mapping {
		input_range: (0.0, 1.0),
		output_range: (0.0f64, 1.0f64),
		easing: e,
	}
	.map(x)
}

/// The documented model: level = attenuation(distance) x ear gains.
fn reference(g: &Geo) -> (f64, f64) {
	let lp = v(g.listener_pos).as_dvec3();
	let em = v(g.emitter).as_dvec3();
	let rot = q(g.listener_rot).as_dquat();
	let d = (lp - em).length();
	let att = match g.attenuation {
		None => 1.0,
		Some(e) => {
			let rel = ((d.clamp(g.min as f64, g.max as f64) - g.min as f64) / (g.max as f64 - g.min as f64)).clamp(0.0, 1.0);
			let volume = ease(e, 1.0 - rel);
			let db = -60.0 + 60.0 * volume;
			if db <= -60.0 {
				0.0
			} else if db == 0.0 {
				1.0
			} else {
				10f64.powf(db / 20.0)
			}
		}
	};
	let s = (g.strength as f64).clamp(0.0, 1.0);
	let (l, r) = (g.input.0 as f64, g.input.1 as f64);
	if s == 0.0 {
		return (l * att, r * att);
	}
	let mono = (l + r) / 2.0;
	// ears 0.1 units to either side, each pointing outwards and 22.5 degrees forward
	let x = glam::DVec3::X;
	let left_ear = lp + rot * (-x * 0.1);
	let right_ear = lp + rot * (x * 0.1);
	let a = std::f64::consts::FRAC_PI_8;
	let left_dir = rot * (glam::DQuat::from_rotation_y(-a) * -x);
	let right_dir = rot * (glam::DQuat::from_rotation_y(a) * x);
	let to_l = (em - left_ear).normalize_or_zero();
	let to_r = (em - right_ear).normalize_or_zero();
	let gl = (1.0 - s) + s * (left_dir.dot(to_l) + 1.0) / 2.0;
	let gr = (1.0 - s) + s * (right_dir.dot(to_r) + 1.0) / 2.0;
	(mono * att * gl, mono * att * gr)
}

fn close(a: f32, b: f64, tol: f64) -> bool {
	(a as f64 - b).abs() <= tol
}

fn gen_pos(src: &mut Src) -> [f32; 3] {
	let mode = src.weighted(&[2, 4, 2, 1]);
	let mut p = [0.0f32; 3];
	for x in p.iter_mut() {
		*x = match mode {
			0 => src.pick(&[0.0f32, 1.0, -1.0, 10.0]),
			1 => src.f64_uniform(-20.0, 20.0) as f32,
			2 => src.f64_uniform(-200.0, 200.0) as f32,
			_ => src.f64_uniform(-1e5, 1e5) as f32,
		};
	}
	p
}

fn gen_geo(src: &mut Src) -> Geo {
	let listener_pos = gen_pos(src);
	let listener_rot = gen_quat(src);
	let min = match src.weighted(&[2, 3]) {
		0 => 1.0,
		_ => src.f64_uniform(0.0, 20.0) as f32,
	};
	let max = min + src.f64_log(0.01, 200.0) as f32;
	// emitter: coincident, axis-aligned relative to the listener, inside the range, or anywhere
	let emitter = match src.weighted(&[1, 2, 4, 2]) {
		0 => listener_pos,
		1 => {
			let axis = [Vec3::X, Vec3::Y, Vec3::Z, -Vec3::X, -Vec3::Z][src.index(5)];
			(v(listener_pos) + q(listener_rot) * axis * src.f64_uniform(0.0, (max * 1.2) as f64) as f32).to_array()
		}
		2 => {
			let dir = Vec3::new(src.f64_uniform(-1.0, 1.0) as f32, src.f64_uniform(-1.0, 1.0) as f32, src.f64_uniform(-1.0, 1.0) as f32).normalize_or_zero();
			let d = src.f64_uniform(min as f64, max as f64) as f32;
			(v(listener_pos) + dir * d).to_array()
		}
		_ => gen_pos(src),
	};
	Geo {
		listener_pos,
		listener_rot,
		emitter,
		min,
		max,
		attenuation: if src.chance(1, 4) { None } else { Some(gen_easing(src)) },
		strength: match src.weighted(&[2, 2, 4]) {
			0 => 0.75,
			1 => src.pick(&[0.0f32, 1.0, 0.5]),
			_ => src.f64_uniform(0.0, 1.0) as f32,
		},
		input: if src.bool() { (0.5, 0.5) } else { (src.f32_in(0.05, 0.9), src.f32_in(0.05, 0.9)) },
		ibs: src.pick(&[16usize, 1, 128, 7]),
	}
}

fn local_emitter(g: &Geo) -> Vec3 {
	q(g.listener_rot).inverse() * (v(g.emitter) - v(g.listener_pos))
}

fn magnitude(g: &Geo) -> f64 {
	g.listener_pos.iter().chain(g.emitter.iter()).fold(1.0f32, |m, x| m.max(x.abs())) as f64
}

/// Output tolerance: f32 positions lose absolute precision far from the origin (ulp = 6e-8 x
/// magnitude); that error enters the attenuation relative to the width of the distance range and
/// the ear directions relative to the emitter's distance from the ears (at least 0.1).
fn att_at(g: &Geo, d: f64) -> f64 {
	match g.attenuation {
		None => 1.0,
		Some(e) => {
			let rel = ((d.clamp(g.min as f64, g.max as f64) - g.min as f64) / (g.max as f64 - g.min as f64)).clamp(0.0, 1.0);
			let db = -60.0 + 60.0 * ease(e, 1.0 - rel);
			if db <= -60.0 {
				0.0
			} else {
				10f64.powf(db / 20.0)
			}
		}
	}
}

fn scale(g: &Geo) -> f64 {
	let m = magnitude(g);
	let d = (v(g.listener_pos) - v(g.emitter)).length() as f64;
	// how much the attenuation itself moves when the distance moves by the rounding of f32
	// coordinates: an easing like OutPowf(0.1) is vertical at one end of the range, so the
	// sensitivity is taken from the curve, not from a bound on its slope
	let delta = 16.0 * f32::EPSILON as f64 * m.max(d).max(1.0);
	let a0 = att_at(g, d);
	let spread = [d - delta, d + delta, d - 4.0 * delta, d + 4.0 * delta].iter().map(|x| (att_at(g, x.max(0.0)) - a0).abs()).fold(0.0, f64::max);
	let spread = if spread > 2e-3 { f64::INFINITY } else { spread };
	if spread.is_infinite() {
		return f64::INFINITY;
	}
	// the attenuation curve can be steep (powers up to 8, 60 dB over the range): x60
	// the ear gains depend on the direction from each ear to the emitter: ill-conditioned when the
	// emitter sits (almost) on an ear
	let lp = v(g.listener_pos).as_dvec3();
	let rot = q(g.listener_rot).as_dquat();
	let em = v(g.emitter).as_dvec3();
	let ear_d = [-0.1f64, 0.1].iter().map(|x| (em - (lp + rot * (glam::DVec3::X * *x))).length()).fold(f64::INFINITY, f64::min);
	1e-5 + 4.0 * spread + 6e-5 * m.max(d) / (g.max - g.min).max(0.01) as f64 + 2e-6 * m.max(1.0) / ear_d.max(1e-9)
}

impl Property for C15 {
	fn id(&self) -> &'static str {
		"C15"
	}
	fn rule(&self) -> &'static str {
		"each case generates a listener (position, unit-quaternion orientation), a spatial track (emitter coincident with the listener, on a listener axis, inside the distance range, or anywhere up to 1e5 units away; distances min < max; attenuation easing or none; strength in [0,1]) and a DC input (equal or unequal stereo), renders the steady-state output frame through the manager and checks it against the documented model level = attenuation(distance) x ear gains (f64, tolerance scaled with coordinate magnitude) and one of the relations between renders from fresh managers: attenuation 1 inside the minimum distance, 0 at or beyond the maximum, non-increasing along a ray; ear gains within [1-strength, 1]; emitter on the listener's right gives right >= left; mirroring the emitter through the listener's median plane swaps the channels; a rigid motion of listener and emitter together leaves the output unchanged, and so does every frame of the same translation carried out while playing, with listener and emitter positions both linked to one tweener modulator; strength 0 passes stereo unpanned; a dropped listener (or one whose slot has been reused) silences the track exactly from the next callback, while a listener, a spatial track on it and a sound created together at any of six moments of a callback (before it; from on_start_processing or process of a custom sound on a sub-track or the main track; between the renderer's two halves) give the static result whenever the track mixes signal; a FromListenerDistance parameter (on the track, on a non-spatial child and on a non-spatial grandchild) equals the mapping of the true distance; position / orientation tweens end at the static result, and the same move commanded with instant tweens before the first callback is complete from the second callback on; nested spatial tracks use their own listener and position. Non-trivial = emitter off the listener's axes and strictly between min and max; distinct = distinct decoded choices."
	}
	fn assumptions(&self) -> Vec<String> {
		vec![
			"the reference formula is written from the documentation of SpatialTrackBuilder (ears 0.1 units apart pointing outwards and pi/8 forward, decibel-linear attenuation between the distances) in f64".into(),
			"tolerances: 1e-5 plus a term proportional to the coordinate magnitude (positions are f32)".into(),
		]
	}
	fn tape_len(&self, _tier: Tier) -> usize {
		120
	}
	fn cases(&self, tier: Tier) -> u64 {
		tier.pick(1_500_000, 10_000_000)
	}

	fn run(&self, tape: &[u32], ctx: &mut Ctx) -> CaseResult {
		let mut src = Src::new(tape);
		let g = gen_geo(&mut src);
		let relation = src.index(12);
		ctx.describe(|| format!("relation {relation}; {g:?}"));
		let out = render(&g)?;
		let want = reference(&g);
		// the decibel scale snaps to silence at -60 dB (amplitude 0.001): next to that edge the f32
		// computation may land on the other side of the jump
		let near_silence_edge = want.0.abs().max(want.1.abs()) < 0.0012 * g.input.0.abs().max(g.input.1.abs()) as f64;
		let tol = scale(&g) + if near_silence_edge { 0.0012 } else { 0.0 };
		ensure!(close(out.0, want.0, tol) && close(out.1, want.1, tol), "level-is-attenuation-times-ear-gains", "output {out:?}, documented model {want:?} (tolerance {tol:e}); {g:?}");
		let local = local_emitter(&g);
		let d = local.length();
		let s = g.strength.clamp(0.0, 1.0);
		let mono = (g.input.0 + g.input.1) / 2.0;
		let mut class = "formula";
		match relation {
			0 => {
				class = "attenuation-ends";
				let mut h = g.clone();
				h.strength = 0.0;
				if h.attenuation.is_none() {
					h.attenuation = Some(Easing::Linear);
				}
				let dir = if d > 1e-3 { local / d } else { Vec3::Z };
				let place = |h: &mut Geo, dist: f32| h.emitter = (v(h.listener_pos) + q(h.listener_rot) * (dir * dist)).to_array();
				let margin = (2e-6 * magnitude(&g)) as f32;
				place(&mut h, (g.min * src.f64_uniform(0.0, 1.0) as f32 - margin).max(0.0));
				let near = render(&h)?;
				ensure!(g.min <= margin * 2.0 || (close(near.0, h.input.0 as f64, 1e-6) && close(near.1, h.input.1 as f64, 1e-6)), "attenuation-is-unity-within-min-distance", "inside the minimum distance the output is {near:?}, input {:?}; {h:?}", h.input);
				place(&mut h, g.max * (1.0 + src.f64_uniform(0.0, 2.0) as f32) + 1e-3 * g.max.max(1.0) + margin);
				let far = render(&h)?;
				ensure!(far == (0.0, 0.0), "attenuation-is-zero-beyond-max-distance", "beyond the maximum distance the output is {far:?}; {h:?}");
			}
			1 => {
				class = "attenuation-monotone";
				let mut h = g.clone();
				h.strength = 0.0;
				let dir = if d > 1e-3 { local / d } else { Vec3::X };
				let d1 = src.f64_uniform(0.0, (g.max * 1.2) as f64) as f32;
				let d2 = d1 + src.f64_uniform(0.0, (g.max * 0.5) as f64) as f32;
				h.emitter = (v(h.listener_pos) + q(h.listener_rot) * (dir * d1)).to_array();
				let a = render(&h)?;
				h.emitter = (v(h.listener_pos) + q(h.listener_rot) * (dir * d2)).to_array();
				let b = render(&h)?;
				ensure!(b.0.abs() <= a.0.abs() + tol as f32 && b.1.abs() <= a.1.abs() + tol as f32, "attenuation-non-increasing-with-distance", "at distance {d1} the output is {a:?}, farther away at {d2} it is {b:?}; {h:?}");
			}
			2 => {
				class = "ear-gain-range";
				let mut h = g.clone();
				h.attenuation = None;
				let o = render(&h)?;
				if s > 0.0 {
					for (name, x) in [("left", o.0), ("right", o.1)] {
						let gain = x / mono;
						ensure!(gain >= 1.0 - s - 1e-4 && gain <= 1.0 + 1e-4, "ear-gain-within-strength-range", "{name} ear gain {gain} outside [{}, 1]; {h:?}", 1.0 - s);
					}
				}
			}
			3 => {
				class = "favours-emitter-side";
				let mut h = g.clone();
				// clearly on the listener's right
				let local = Vec3::new(src.f64_uniform(0.5, 20.0) as f32, src.f64_uniform(-3.0, 3.0) as f32, src.f64_uniform(-3.0, 3.0) as f32);
				h.emitter = (v(h.listener_pos) + q(h.listener_rot) * local).to_array();
				h.attenuation = None;
				h.input = (0.5, 0.5);
				let o = render(&h)?;
				ensure!(o.1 >= o.0 - 1e-6 - (scale(&h) as f32), "favours-the-ear-on-the-emitters-side", "emitter on the listener's right ({local:?} in listener space) but left {} > right {}; {h:?}", o.0, o.1);
			}
			4 => {
				class = "mirror";
				let mut h = g.clone();
				let m = Vec3::new(-local.x, local.y, local.z);
				h.emitter = (v(h.listener_pos) + q(h.listener_rot) * m).to_array();
				let o = render(&h)?;
				// unequal stereo input is folded to mono when spatialised, so the swap holds for it too
				if s > 0.0 {
					ensure!(close(o.0, out.1 as f64, tol * 4.0) && close(o.1, out.0 as f64, tol * 4.0), "mirroring-swaps-the-ears", "original output {out:?}, after mirroring the emitter through the median plane {o:?} (expected swapped); {g:?}");
				}
			}
			5 => {
				class = "rigid-motion";
				let mut h = g.clone();
				let r = q(gen_quat(&mut src));
				let t = Vec3::new(src.f64_uniform(-30.0, 30.0) as f32, src.f64_uniform(-30.0, 30.0) as f32, src.f64_uniform(-30.0, 30.0) as f32);
				h.listener_pos = (r * v(g.listener_pos) + t).to_array();
				h.emitter = (r * v(g.emitter) + t).to_array();
				h.listener_rot = (r * q(g.listener_rot)).normalize().to_array();
				let o = render(&h)?;
				let tol2 = (scale(&h) + tol) * 4.0 + 1e-4 * (out.0.abs().max(out.1.abs()) as f64);
				ensure!(close(o.0, out.0 as f64, tol2) && close(o.1, out.1 as f64, tol2), "invariant-under-rigid-motion", "output {out:?} became {o:?} after moving listener and emitter together; {g:?} -> {h:?}");
				// the same translation carried out while playing: listener and emitter positions are
				// both linked to one tweener modulator (mappings that differ by the constant offset
				// between them), so every frame of the move is a translated copy of the scene
				let mut moved = g.clone();
				moved.listener_pos = (v(g.listener_pos) + t).to_array();
				moved.emitter = (v(g.emitter) + t).to_array();
				let tol3 = (scale(&moved) + tol) * 4.0 + 1e-4 * (out.0.abs().max(out.1.abs()) as f64);
				let chunks = src.usize_in(1, 6);
				let mut mgr = default_manager(48000, g.ibs);
				let mut tweener = mgr.add_modulator(kira::modulator::tweener::TweenerBuilder { initial_value: 0.0 }).map_err(|_| Failure::simple("setup", "modulator"))?;
				let link = |from: Vec3, to: Vec3| -> Value<mint::Vector3<f32>> {
					Value::FromModulator {
						id: tweener.id().into(),
						mapping: Mapping {
							input_range: (0.0, 1.0),
							output_range: (from.into(), to.into()),
							easing: Easing::Linear,
						},
					}
				};
				let listener = mgr.add_listener(link(v(g.listener_pos), v(moved.listener_pos)), q(g.listener_rot)).map_err(|_| Failure::simple("setup", "listener"))?;
				let mut track = mgr
					.add_spatial_sub_track(&listener, link(v(g.emitter), v(moved.emitter)), SpatialTrackBuilder::new().distances((g.min, g.max)).attenuation_function(g.attenuation).spatialization_strength(g.strength))
					.map_err(|_| Failure::simple("setup", "track"))?;
				track.play(ProbeSoundData::new(Signal::Dc(g.input.0, g.input.1), None)).map_err(|_| Failure::simple("setup", "sound"))?;
				last_frame(&mut mgr, g.ibs)?;
				tweener.set(
					1.0,
					Tween {
						duration: Duration::from_secs_f64(chunks as f64 * g.ibs as f64 / 48000.0),
						..Default::default()
					},
				);
				for n in 0..chunks + 3 {
					let cb = mgr.backend_mut().callback(g.ibs, 2);
					if let Some(p) = &cb.guard.panic {
						return Err(Failure::panic("", p));
					}
					for (i, f) in cb.out.chunks(2).enumerate() {
						ensure!(
							close(f[0], out.0 as f64, tol3) && close(f[1], out.1 as f64, tol3),
							"invariant-under-rigid-motion",
							"listener and emitter both follow one tweener (translation by {t:?} over {chunks} callbacks): frame {i} of callback {n} after the move began is {f:?}, the scene at rest gives {out:?} (tolerance {tol3:e}); {g:?}"
						);
					}
				}
			}
			6 => {
				class = "strength-zero";
				let mut h = g.clone();
				h.strength = 0.0;
				h.attenuation = None;
				let o = render(&h)?;
				ensure!(o == h.input, "strength-zero-passes-stereo-unpanned", "strength 0 without attenuation: output {o:?}, input {:?}; {h:?}", h.input);
			}
			7 => {
				class = "listener-dropped";
				let mut mgr = default_manager(48000, g.ibs);
				let reuse = src.bool();
				let listener = mgr.add_listener(v(g.listener_pos), q(g.listener_rot)).map_err(|_| Failure::simple("setup", "listener"))?;
				let mut track = mgr.add_spatial_sub_track(&listener, v(g.emitter), SpatialTrackBuilder::new().distances((g.min, g.max)).attenuation_function(None).spatialization_strength(g.strength)).map_err(|_| Failure::simple("setup", "track"))?;
				track.play(ProbeSoundData::new(Signal::Dc(g.input.0, g.input.1), None)).map_err(|_| Failure::simple("setup", "sound"))?;
				let before = last_frame(&mut mgr, g.ibs)?;
				ensure!(before.0 != 0.0 || before.1 != 0.0 || mono == 0.0, "level-is-attenuation-times-ear-gains", "silent with a live listener; {g:?}");
				drop(listener);
				// the callback that removes the listener
				let cb = mgr.backend_mut().callback(g.ibs, 2);
				ensure!(cb.out.iter().all(|x| *x == 0.0), "silent-without-listener", "the callback after the listener was dropped still has signal; {g:?}");
				if reuse {
					let _l2 = mgr.add_listener(v(g.listener_pos), q(g.listener_rot)).map_err(|_| Failure::simple("setup", "listener"))?;
					let after = last_frame(&mut mgr, g.ibs)?;
					ensure!(after == (0.0, 0.0), "silent-without-listener", "a new listener revived a track bound to a dropped one: {after:?}; {g:?}");
				} else {
					let after = last_frame(&mut mgr, g.ibs)?;
					ensure!(after == (0.0, 0.0), "silent-without-listener", "track audible after its listener was dropped: {after:?}; {g:?}");
				}
				// ... and a track whose listener exists is never silenced for want of it: listener,
				// spatial track and sound are created at one of the moments of a callback at which a
				// second thread's calls can land; whenever the track mixes signal (seen by a probe
				// effect on it) its output is the static result
				let phase = PHASES[src.index(PHASES.len())];
				let target = TARGETS[src.index(TARGETS.len())];
				let mut stage = Stage::new(48000, g.ibs, src.bool())?;
				let gg = g.clone();
				let frames = g.ibs * 3;
				let mut keep = None;
				for k in 0..4 {
					let cb = if k == 0 {
						let (r, cb) = stage.callback(frames, phase, move |w: &mut World| -> Result<_, &'static str> {
							let listener = w.mgr.add_listener(v(gg.listener_pos), q(gg.listener_rot)).map_err(|_| "listener limit")?;
							let mut b = SpatialTrackBuilder::new().distances((gg.min, gg.max)).attenuation_function(gg.attenuation).spatialization_strength(gg.strength);
							let log = b.add_effect(ProbeEffectBuilder::new(ProbeKind::Pass));
							let mut track = match target {
								Target::Main => w.mgr.add_spatial_sub_track(&listener, v(gg.emitter), b),
								Target::AgentTrack => w.agent_track.add_spatial_sub_track(&listener, v(gg.emitter), b),
								Target::OtherTrack => w.other_track.add_spatial_sub_track(&listener, v(gg.emitter), b),
							}
							.map_err(|_| "track limit")?;
							track.play(ProbeSoundData::new(Signal::Dc(gg.input.0, gg.input.1), None)).map_err(|_| "sound limit")?;
							Ok((listener, track, log))
						})?;
						keep = Some(r.map_err(|e| Failure::simple("setup", e))?);
						cb
					} else {
						stage.callback(frames, Phase::Before, |_| ())?.1
					};
					let log = &keep.as_ref().unwrap().2;
					let calls = log.take_calls();
					// the track's process calls of this callback are its last `calls.len()` internal buffers
					let buffers = frames / g.ibs;
					ensure!(calls.len() <= buffers, "setup", "more process calls than internal buffers");
					for (j, r) in calls.iter().enumerate() {
						if r.first_in.left == 0.0 && r.first_in.right == 0.0 {
							continue;
						}
						let f = cb.frame((buffers - calls.len() + j) * g.ibs, 2);
						ensure!(
							close(f.0, out.0 as f64, tol * 2.0) && close(f.1, out.1 as f64, tol * 2.0),
							"audible-while-its-listener-exists",
							"listener, spatial track (on {target:?}) and sound were created {phase:?} of callback 0; in callback {k} the track mixes signal but the output frame is {f:?}, a scene built between callbacks gives {out:?}; {g:?}"
						);
					}
				}
				drop(keep);
			}
			8 => {
				class = "listener-distance-parameter";
				let mut mgr = default_manager(48000, g.ibs);
				let listener = mgr.add_listener(v(g.listener_pos), q(g.listener_rot)).map_err(|_| Failure::simple("setup", "listener"))?;
				let (in0, in1) = (src.f64_uniform(0.0, 50.0), src.f64_uniform(50.0, 400.0));
				let mapping = Mapping {
					input_range: (in0, in1),
					output_range: (0.0, 1000.0),
					easing: Easing::Linear,
				};
				let mut b = SpatialTrackBuilder::new().distances((g.min, g.max));
				let log = b.add_effect(ProbeEffectBuilder::new(ProbeKind::Pass).param(Value::FromListenerDistance(mapping)));
				let mut track = mgr.add_spatial_sub_track(&listener, v(g.emitter), b).map_err(|_| Failure::simple("setup", "track"))?;
				// a plain child track inherits the spatial track's position and listener
				let mut cb = TrackBuilder::new();
				let child_log = cb.add_effect(ProbeEffectBuilder::new(ProbeKind::Pass).param(Value::FromListenerDistance(mapping)));
				let mut child = track.add_sub_track(cb).map_err(|_| Failure::simple("setup", "child"))?;
				// ... and so does a plain track below that one
				let mut gb = TrackBuilder::new();
				let grandchild_log = gb.add_effect(ProbeEffectBuilder::new(ProbeKind::Pass).param(Value::FromListenerDistance(mapping)));
				let _grandchild = child.add_sub_track(gb).map_err(|_| Failure::simple("setup", "grandchild"))?;
				last_frame(&mut mgr, g.ibs)?;
				let d = (v(g.listener_pos) - v(g.emitter)).length() as f64;
				let want = (((d - in0) / (in1 - in0)).clamp(0.0, 1.0)) * 1000.0;
				let m = g.listener_pos.iter().chain(g.emitter.iter()).fold(1.0f32, |m, x| m.max(x.abs())) as f64;
				let tolp = 1e-3 + 1000.0 / (in1 - in0) * m * 4e-7;
				for (name, l) in [("spatial track", &log), ("child of the spatial track", &child_log), ("grandchild of the spatial track", &grandchild_log)] {
					let got = l.take_calls().last().map(|r| r.param).unwrap_or(f64::NAN);
					ensure!((got - want).abs() <= tolp, "parameter-follows-listener-distance", "FromListenerDistance parameter on the {name} = {got}, the distance {d} maps to {want}; {g:?}");
				}
			}
			9 => {
				class = "tween-ends-at-static-result";
				let mut mgr = default_manager(48000, g.ibs);
				let start_pos = gen_pos(&mut src);
				let start_rot = gen_quat(&mut src);
				let start_em = gen_pos(&mut src);
				let mut listener = mgr.add_listener(v(start_pos), q(start_rot)).map_err(|_| Failure::simple("setup", "listener"))?;
				let mut track = mgr
					.add_spatial_sub_track(&listener, v(start_em), SpatialTrackBuilder::new().distances((g.min, g.max)).attenuation_function(g.attenuation).spatialization_strength(g.strength))
					.map_err(|_| Failure::simple("setup", "track"))?;
				// in half of the cases the track is still empty (no sound, no effect, no child) while it is
				// being moved, and the sound only arrives after the move: it must be heard where the
				// track was sent, not where the track stood when it went idle
				let late_sound = src.bool();
				if !late_sound {
					track.play(ProbeSoundData::new(Signal::Dc(g.input.0, g.input.1), None)).map_err(|_| Failure::simple("setup", "sound"))?;
				}
				last_frame(&mut mgr, g.ibs)?;
				let dur = src.usize_in(0, 5) as f64 * g.ibs as f64 / 48000.0;
				let tw = Tween {
					duration: Duration::from_secs_f64(dur),
					..Default::default()
				};
				listener.set_position(v(g.listener_pos), tw);
				listener.set_orientation(q(g.listener_rot), tw);
				track.set_position(v(g.emitter), tw);
				for _ in 0..8 {
					last_frame(&mut mgr, g.ibs)?;
				}
				if late_sound {
					track.play(ProbeSoundData::new(Signal::Dc(g.input.0, g.input.1), None)).map_err(|_| Failure::simple("setup", "sound"))?;
				}
				let o = last_frame(&mut mgr, g.ibs)?;
				ensure!(close(o.0, out.0 as f64, tol * 4.0) && close(o.1, out.1 as f64, tol * 4.0), "tween-ends-at-static-result", "after tweening listener and emitter to the geometry{} the output is {o:?}, a scene built there gives {out:?}; {g:?}", if late_sound { " (the sound was only played after the move, the track was empty during it)" } else { "" });
				// the same move commanded before the very first callback (instant tweens): the first
				// callback carries the move, from the second one on the scene is where it was sent
				let mut mgr = default_manager(48000, g.ibs);
				let mut listener = mgr.add_listener(v(start_pos), q(start_rot)).map_err(|_| Failure::simple("setup", "listener"))?;
				let mut track = mgr
					.add_spatial_sub_track(&listener, v(start_em), SpatialTrackBuilder::new().distances((g.min, g.max)).attenuation_function(g.attenuation).spatialization_strength(g.strength))
					.map_err(|_| Failure::simple("setup", "track"))?;
				track.play(ProbeSoundData::new(Signal::Dc(g.input.0, g.input.1), None)).map_err(|_| Failure::simple("setup", "sound"))?;
				let instant = Tween {
					duration: Duration::ZERO,
					..Default::default()
				};
				listener.set_position(v(g.listener_pos), instant);
				listener.set_orientation(q(g.listener_rot), instant);
				track.set_position(v(g.emitter), instant);
				let first = mgr.backend_mut().callback(g.ibs, 2);
				if let Some(p) = &first.guard.panic {
					return Err(Failure::panic("", p));
				}
				let second = mgr.backend_mut().callback(g.ibs, 2);
				if let Some(p) = &second.guard.panic {
					return Err(Failure::panic("", p));
				}
				let o2 = second.frame(0, 2);
				ensure!(close(o2.0, out.0 as f64, tol * 4.0) && close(o2.1, out.1 as f64, tol * 4.0), "command-before-first-callback-moves-the-scene", "listener and emitter were sent to the geometry before the first callback (instant tweens); the first frame of the second callback is {o2:?}, a scene built there gives {out:?}; {g:?}");
			}
			10 => {
				class = "distance-parameter-set-through-handle";
				// a FromListenerDistance value installed with a handle setter keeps following the
				// distance after its tween has finished
				let mut mgr = default_manager(48000, g.ibs);
				let mut listener = mgr.add_listener(v(g.listener_pos), q(g.listener_rot)).map_err(|_| Failure::simple("setup", "listener"))?;
				let mut track = mgr.add_spatial_sub_track(&listener, v(g.emitter), SpatialTrackBuilder::new().attenuation_function(None).spatialization_strength(0.0)).map_err(|_| Failure::simple("setup", "track"))?;
				track.play(ProbeSoundData::new(Signal::Dc(0.5, 0.5), None)).map_err(|_| Failure::simple("setup", "sound"))?;
				let far = src.f64_uniform(20.0, 200.0);
				let mapping = Mapping {
					input_range: (0.0, far),
					output_range: (kira::Decibels(0.0), kira::Decibels(-40.0)),
					easing: Easing::Linear,
				};
				let dur = src.usize_in(0, 3) as f64 * g.ibs as f64 / 48000.0;
				track.set_volume(
					Value::FromListenerDistance(mapping),
					Tween {
						duration: Duration::from_secs_f64(dur),
						..Default::default()
					},
				);
				for _ in 0..4 {
					last_frame(&mut mgr, g.ibs)?;
				}
				let expect = |lp: Vec3| -> f64 {
					let d = (lp - v(g.emitter)).length() as f64;
					let db = -40.0 * (d / far).clamp(0.0, 1.0);
					0.5 * if db == 0.0 { 1.0 } else { 10f64.powf(db / 20.0) }
				};
				let m = magnitude(&g);
				let tolv = 1e-5 + 0.5 * 4.6 * (4e-7 * m / far);
				let o = last_frame(&mut mgr, g.ibs)?;
				ensure!(close(o.0, expect(v(g.listener_pos)), tolv), "parameter-follows-listener-distance", "track volume linked to the listener distance through set_volume: output {}, expected {}; {g:?}", o.0, expect(v(g.listener_pos)));
				// now the listener moves
				let new_pos = v(g.emitter) + Vec3::new(src.f64_uniform(-1.0, 1.0) as f32, src.f64_uniform(-1.0, 1.0) as f32, src.f64_uniform(-1.0, 1.0) as f32) * (far as f32 * 0.6);
				listener.set_position(
					new_pos,
					Tween {
						duration: Duration::ZERO,
						..Default::default()
					},
				);
				for _ in 0..3 {
					last_frame(&mut mgr, g.ibs)?;
				}
				let o = last_frame(&mut mgr, g.ibs)?;
				let m2 = m.max(new_pos.abs().max_element() as f64);
				let tolv = 1e-5 + 0.5 * 4.6 * (4e-7 * m2 / far);
				ensure!(close(o.0, expect(new_pos), tolv), "parameter-follows-listener-distance", "after the listener moved, the volume linked through set_volume gives output {}, the new distance maps to {}; {g:?}", o.0, expect(new_pos));
			}
			_ => {
				class = "nested";
				// a spatial track inside another spatial track uses its own listener and position
				let mut mgr = default_manager(48000, g.ibs);
				let far = mgr.add_listener(Vec3::splat(5000.0), Quat::IDENTITY).map_err(|_| Failure::simple("setup", "listener"))?;
				let near = mgr.add_listener(v(g.listener_pos), q(g.listener_rot)).map_err(|_| Failure::simple("setup", "listener"))?;
				// outer: no attenuation, no panning, so that it passes its child through unchanged
				let mut outer = mgr.add_spatial_sub_track(&far, Vec3::ZERO, SpatialTrackBuilder::new().attenuation_function(None).spatialization_strength(0.0)).map_err(|_| Failure::simple("setup", "outer"))?;
				let mut inner = outer
					.add_spatial_sub_track(&near, v(g.emitter), SpatialTrackBuilder::new().distances((g.min, g.max)).attenuation_function(g.attenuation).spatialization_strength(g.strength))
					.map_err(|_| Failure::simple("setup", "inner"))?;
				inner.play(ProbeSoundData::new(Signal::Dc(g.input.0, g.input.1), None)).map_err(|_| Failure::simple("setup", "sound"))?;
				let o = last_frame(&mut mgr, g.ibs)?;
				ensure!(close(o.0, out.0 as f64, tol * 2.0) && close(o.1, out.1 as f64, tol * 2.0), "nested-spatial-track-uses-its-own-listener", "nested inside a pass-through spatial track the output is {o:?}, on its own {out:?}; {g:?}");
			}
		}
		let off_axis = local.x.abs() > 1e-3 && (local.y.abs() > 1e-3 || local.z.abs() > 1e-3);
		let between = d > g.min && d < g.max;
		Ok(CaseInfo::new(&src, off_axis && between && scale(&g).is_finite(), vec![class]))
	}
}
