//! C16 - seconds and hertz mean the same at every device sample rate and across changes.

use crate::engine::{CaseInfo, CaseResult, Ctx, Failure, Property, Src, Tier};
use crate::ensure;
use crate::probes::{manager, EffectLog, Mgr, ProbeEffectBuilder, ProbeKind, ProbeSoundData, Signal};
use kira::clock::ClockSpeed;
use kira::effect::delay::DelayBuilder;
use kira::effect::filter::{FilterBuilder, FilterMode};
use kira::sound::static_sound::{StaticSoundData, StaticSoundSettings};
use kira::sound::PlaybackState;
use kira::track::{MainTrackBuilder, SendTrackBuilder, SendTrackHandle, TrackBuilder, TrackHandle};
use kira::{Capacities, Decibels, Frame, Mix, Tween};
use std::sync::Arc;
use std::time::Duration;

pub struct C16;

const RATES: [u32; 10] = [48000, 44100, 8000, 96000, 192000, 22050, 11025, 16000, 32000, 88200];

fn gen_rate(src: &mut Src) -> u32 {
	if src.chance(1, 4) {
		src.int(8000, 192000) as u32
	} else {
		src.pick(&RATES)
	}
}

// ------------------------------------------------------------------------------------------
// mode 0: every effect processes with the rate that is in force

#[derive(Debug, Clone)]
enum Op {
	/// parent: None = manager
	AddTrack(Option<usize>),
	AddSend,
	Change(u32),
	Callback(usize),
	DropTrack(usize),
}

#[derive(Debug, Clone)]
struct HistCase {
	rate: u32,
	ibs: usize,
	main_probe: bool,
	ops: Vec<Op>,
}

fn hist_case(c: &HistCase) -> Result<(bool, usize), Failure> {
	let mut main = MainTrackBuilder::new();
	let mut logs: Vec<(String, Arc<EffectLog>, usize)> = vec![]; // name, log, created at op index
	if c.main_probe {
		logs.push(("main track".into(), main.add_effect(ProbeEffectBuilder::new(ProbeKind::Pass)), 0));
	}
	let mut mgr = manager(c.rate, c.ibs, Capacities::default(), main);
	let mut tracks: Vec<Option<TrackHandle>> = vec![];
	let mut sends: Vec<SendTrackHandle> = vec![];
	let mut rate = c.rate;
	let mut queued_since_callback: Vec<usize> = vec![]; // indices into logs
	let mut changed_while_queued = false;
	let mut suspect: Vec<usize> = vec![];
	let mut changes = 0;
	for (oi, op) in c.ops.iter().enumerate() {
		match op {
			Op::AddTrack(parent) => {
				let mut b = TrackBuilder::new();
				let log = b.add_effect(ProbeEffectBuilder::new(ProbeKind::Pass));
				// a nested feedback effect inside a delay is told the rate through the delay
				let h = match parent {
					None => mgr.add_sub_track(b).ok(),
					Some(p) => match tracks.get_mut(*p) {
						Some(Some(t)) => t.add_sub_track(b).ok(),
						_ => None,
					},
				};
				if h.is_some() {
					queued_since_callback.push(logs.len());
					logs.push((format!("track #{} (child of {parent:?})", tracks.len()), log, oi));
				}
				tracks.push(h);
			}
			Op::AddSend => {
				let mut b = SendTrackBuilder::new();
				let log = b.add_effect(ProbeEffectBuilder::new(ProbeKind::Pass));
				if let Ok(h) = mgr.add_send_track(b) {
					queued_since_callback.push(logs.len());
					logs.push((format!("send track #{}", sends.len()), log, oi));
					sends.push(h);
				}
			}
			Op::DropTrack(i) => {
				if let Some(t) = tracks.get_mut(*i) {
					*t = None;
				}
			}
			Op::Change(r) => {
				mgr.backend_mut().change_sample_rate(*r);
				rate = *r;
				changes += 1;
				if !queued_since_callback.is_empty() {
					changed_while_queued = true;
					suspect.extend(queued_since_callback.iter().copied());
				}
			}
			Op::Callback(n) => {
				for (_, l, _) in &logs {
					l.calls.lock().unwrap().clear();
				}
				let cb = mgr.backend_mut().callback(*n, 2);
				if let Some(p) = &cb.guard.panic {
					return Err(Failure::panic("", p));
				}
				queued_since_callback.clear();
				for (li, (name, l, _)) in logs.iter().enumerate() {
					for r in l.calls.lock().unwrap().iter() {
						let dt_rate = (1.0 / r.dt).round() as u32;
						ensure!(dt_rate == rate, "dt-is-the-period-of-the-rate-in-force", "op #{oi}: the effect on the {name} was processed with dt = {} (rate {dt_rate}) while the device runs at {rate}; case {c:?}", r.dt);
						if r.told_rate != rate {
							let sig = if suspect.contains(&li) { "effect-told-the-rate-in-force:track-queued-during-the-change" } else { "effect-told-the-rate-in-force" };
							return Err(Failure::new("effect-told-the-rate-in-force", sig, format!("op #{oi}: the effect on the {name} was last told {} Hz (init / on_change_sample_rate) but is processed at {rate} Hz; case {c:?}", r.told_rate)));
						}
					}
				}
			}
		}
	}
	Ok((changed_while_queued, changes))
}

// ------------------------------------------------------------------------------------------
// mode 1..4: seconds and hertz

#[derive(Debug, Clone)]
struct SecCase {
	kind: usize,
	rate1: u32,
	rate2: u32,
	ibs: usize,
	sound_rate: u32,
	/// callbacks before the change
	before: usize,
	param: f64,
}

fn cb(mgr: &mut Mgr, n: usize) -> Result<Vec<f32>, Failure> {
	let c = mgr.backend_mut().callback(n, 2);
	if let Some(p) = &c.guard.panic {
		return Err(Failure::panic("", p));
	}
	Ok(c.out)
}

/// An effect (any of the eight, with nested feedback effects) that has only ever processed silence
/// and then lives through a device-rate change must behave exactly like a fresh one at the new
/// rate: whatever it derived from the old rate (delay lengths, filter coefficients, comb tunings,
/// time constants) has to follow the change, at every depth of nesting.
fn silent_history(spec: &crate::scene::fx::FxSpec, r1: u32, r2: u32, ibs: usize, sig: &crate::scene::signal::SigSpec) -> Result<(), Failure> {
	use crate::props::c13::process_with;
	let info = kira::info::MockInfoBuilder::new().build();
	let zeros = vec![Frame::ZERO; ibs * 3];
	let part = |n: usize| -> Vec<usize> {
		let mut v = vec![];
		let mut left = n;
		while left > 0 {
			let k = left.min(ibs);
			v.push(k);
			left -= k;
		}
		v
	};
	let n = 1500;
	let input = crate::scene::signal::render_sig(sig, n);
	// A: old rate, silence, change, signal
	let (mut a, _ha) = crate::scene::fx::build(spec);
	a.init(r1, ibs);
	let _ = process_with(&mut a, r1, &zeros, &part(zeros.len()), &info);
	a.on_change_sample_rate(r2);
	let out_a = process_with(&mut a, r2, &input, &part(n), &info);
	// B: new rate from the start
	let (mut b, _hb) = crate::scene::fx::build(spec);
	b.init(r2, ibs);
	let _ = process_with(&mut b, r2, &zeros, &part(zeros.len()), &info);
	let out_b = process_with(&mut b, r2, &input, &part(n), &info);
	for i in 0..n {
		let (x, y) = (out_a[i], out_b[i]);
		let same = |p: f32, q: f32| p == q || (p.is_nan() && q.is_nan()) || (p - q).abs() <= 1e-6 * p.abs().max(q.abs()).max(1.0);
		ensure!(same(x.left, y.left) && same(x.right, y.right), "effect-follows-the-rate-change", "frame {i}: an effect that saw only silence at {r1} Hz and was then told {r2} Hz gives {x:?}, a fresh one at {r2} Hz gives {y:?}; {spec:?} (internal buffer {ibs})");
	}
	Ok(())
}

fn sec_case(c: &SecCase) -> Result<(), Failure> {
	let mut mgr = manager(c.rate1, c.ibs, Capacities::default(), MainTrackBuilder::new());
	match c.kind {
		// a sound keeps its pitch and duration
		0 => {
			let n = (c.param * c.sound_rate as f64) as usize + 8;
			let frames: Arc<[Frame]> = (0..n).map(|i| Frame::from_mono((i + 1) as f32 / (2.0 * n as f32))).collect::<Vec<_>>().into();
			let h = mgr
				.play(StaticSoundData {
					sample_rate: c.sound_rate,
					frames,
					settings: StaticSoundSettings::new(),
					slice: None,
				})
				.map_err(|_| Failure::simple("setup", "play"))?;
			let mut t = 0.0f64; // seconds of audio rendered
			let mut rate = c.rate1;
			let mut k = 0;
			let dur = n as f64 / c.sound_rate as f64;
			loop {
				if k == c.before {
					mgr.backend_mut().change_sample_rate(c.rate2);
					rate = c.rate2;
				}
				let out = cb(&mut mgr, c.ibs)?;
				// the ramp makes the heard source index readable: value = (i + 1) / 2n
				for (i, s) in out.chunks(2).enumerate() {
					let ts = t + i as f64 / rate as f64;
					if s[0] > 0.0 && ts < dur - 3.0 / c.sound_rate as f64 - 3.0 / rate as f64 {
						let heard = s[0] as f64 * 2.0 * n as f64 - 1.0;
						let want = ts * c.sound_rate as f64;
						// the first frames after the start are shaped by the interpolator's empty history
						if want > 3.0 {
							ensure!((heard - want).abs() <= 1.5 + 2e-4 * n as f64 * 0.0 + 4e-7 * n as f64 * 2.0, "sound-keeps-pitch", "{ts:.6} s into the render (device {rate} Hz, sound {} Hz) source frame {heard:.3} is heard, expected {want:.3}; case {c:?}", c.sound_rate);
						}
					}
				}
				t += c.ibs as f64 / rate as f64;
				k += 1;
				if h.state() == PlaybackState::Stopped {
					break;
				}
				ensure!(t < dur + 1.0, "sound-keeps-duration", "a sound of {dur:.4} s is still playing after {t:.4} s; case {c:?}");
			}
			let slack = 2.0 * c.ibs as f64 / c.rate1.min(c.rate2) as f64 + 6.0 / c.sound_rate as f64 + 6.0 / c.rate1.min(c.rate2) as f64;
			ensure!((t - dur) >= -slack && (t - dur) <= slack, "sound-keeps-duration", "a sound of {dur:.5} s ended after {t:.5} s of rendered audio (allowed {slack:.5}); case {c:?}");
		}
		// clocks and tweens keep their real-time speed
		1 => {
			let speed = c.param * 100.0 + 1.0;
			let mut clock = mgr.add_clock(ClockSpeed::TicksPerSecond(speed)).map_err(|_| Failure::simple("setup", "clock"))?;
			clock.start();
			// a track volume tween of 20 callbacks' worth of seconds at the first rate
			let mut b = TrackBuilder::new();
			let log = b.add_effect(ProbeEffectBuilder::new(ProbeKind::Pass));
			let mut track = mgr.add_sub_track(b).map_err(|_| Failure::simple("setup", "track"))?;
			track.play(ProbeSoundData::new(Signal::Dc(0.5, 0.5), None)).map_err(|_| Failure::simple("setup", "sound"))?;
			let tween_s = 20.0 * c.ibs as f64 / c.rate1 as f64;
			track.set_volume(
				Decibels(-20.0),
				Tween {
					duration: Duration::from_secs_f64(tween_s),
					..Default::default()
				},
			);
			let _ = log;
			let mut t = 0.0f64;
			let mut rate = c.rate1;
			let mut finished_at = None;
			let mut t_at_cb_start = vec![];
			let mut k = 0;
			while t < tween_s * 1.5 + 0.01 || k < c.before + 4 {
				if k == c.before {
					mgr.backend_mut().change_sample_rate(c.rate2);
					rate = c.rate2;
				}
				t_at_cb_start.push(t);
				let out = cb(&mut mgr, c.ibs)?;
				// the clock shows the time as of the start of this callback
				let shown = clock.time();
				let got = shown.ticks as f64 + shown.fraction;
				let want = speed * t;
				ensure!((got - want).abs() <= 1e-9 * (1.0 + want) + speed * 1e-12, "clock-keeps-real-time-speed", "after {t:.6} s of audio (rates {} -> {}) the clock shows {got} ticks, expected {want}; case {c:?}", c.rate1, c.rate2);
				t += c.ibs as f64 / rate as f64;
				// -20 dB of 0.5 = 0.05
				let last = out[out.len() - 2];
				if finished_at.is_none() && (last - 0.05).abs() < 1e-6 {
					finished_at = Some(t);
				}
				k += 1;
			}
			let Some(f) = finished_at else {
				return Err(Failure::simple("tween-keeps-real-time-speed", format!("a {tween_s:.5} s volume tween had not finished after {t:.5} s; case {c:?}")));
			};
			let slack = 2.0 * c.ibs as f64 / c.rate1.min(c.rate2) as f64;
			ensure!((f - tween_s).abs() <= slack + 1e-9, "tween-keeps-real-time-speed", "a {tween_s:.6} s volume tween finished after {f:.6} s of audio (rates {} -> {}); case {c:?}", c.rate1, c.rate2);
		}
		// delay times keep their value
		2 => {
			let delay_s = 0.001 + c.param * 0.02;
			let mut b = TrackBuilder::new();
			b.add_effect(DelayBuilder::new().delay_time(Duration::from_secs_f64(delay_s)).feedback(Decibels(-6.0)).mix(Mix::WET));
			let mut track = mgr.add_sub_track(b).map_err(|_| Failure::simple("setup", "track"))?;
			for _ in 0..c.before.max(1) {
				cb(&mut mgr, c.ibs)?;
			}
			// in half of the cases the delay line carries an impulse when the change arrives. Whatever
			// the effect does with audio in flight (kira drops it), an echo that does come out must come
			// out at a multiple of the delay time after its impulse, in seconds of audio
			if c.before % 2 == 1 {
				let table: Arc<[Frame]> = vec![Frame::from_mono(0.5)].into();
				track.play(ProbeSoundData::new(Signal::Table(table), Some(1))).map_err(|_| Failure::simple("setup", "sound"))?;
				let len1 = ((Duration::from_secs_f64(delay_s).as_secs_f64() * c.rate1 as f64) as usize).max(1);
				// the impulse sits in the first frame of the next callback; the change comes j frames later
				let q = ((c.param * 7919.0) as usize % 5 + 1).min((len1 / c.ibs).max(1));
				for _ in 0..q {
					cb(&mut mgr, c.ibs)?;
				}
				let j = q * c.ibs;
				mgr.backend_mut().change_sample_rate(c.rate2);
				let len2 = ((Duration::from_secs_f64(delay_s).as_secs_f64() * c.rate2 as f64) as usize).max(1);
				let mut out = vec![];
				while out.len() < (2 * len2 + c.ibs) * 2 {
					out.extend(cb(&mut mgr, c.ibs)?);
				}
				let d = Duration::from_secs_f64(delay_s).as_secs_f64();
				for (i, s) in out.chunks(2).enumerate() {
					if s[0] == 0.0 && s[1] == 0.0 {
						continue;
					}
					// (frame i of the output is i frames after the first frame rendered at the new rate)
					let t = j as f64 / c.rate1 as f64 + i as f64 / c.rate2 as f64;
					let k = (t / d).round().max(1.0);
					// the line is a whole number of frames long: each pass may be up to a frame short
					let tol = (k + 1.5) / c.rate1.min(c.rate2) as f64;
					ensure!((t - k * d).abs() <= tol, "echo-at-a-multiple-of-the-delay-time", "an impulse entered a {delay_s:.6} s delay {j} frames before the device went from {} Hz to {} Hz; an echo {s:?} comes out {i} frames after the change, i.e. {t:.6} s after the impulse ({:.3} delay times); case {c:?}", c.rate1, c.rate2, t / d);
				}
				// let what is left of it die down (each pass loses 6 dB)
				for _ in 0..(len2 * 24 / c.ibs + 2) {
					cb(&mut mgr, c.ibs)?;
				}
			}
			mgr.backend_mut().change_sample_rate(c.rate2);
			cb(&mut mgr, c.ibs)?;
			// an impulse, then look for its echo
			let table: Arc<[Frame]> = vec![Frame::from_mono(0.5)].into();
			track.play(ProbeSoundData::new(Signal::Table(table), Some(1))).map_err(|_| Failure::simple("setup", "sound"))?;
			let want = (Duration::from_secs_f64(delay_s).as_secs_f64() * c.rate2 as f64) as usize;
			let mut out = vec![];
			while out.len() < (want + 4) * 2 + c.ibs * 2 {
				out.extend(cb(&mut mgr, c.ibs)?);
			}
			let first = out.chunks(2).position(|s| s[0] != 0.0);
			ensure!(first == Some(want.max(1)), "delay-keeps-its-time", "a {delay_s:.6} s delay at {} Hz (after a change from {} Hz) returns the echo after {first:?} frames, expected {}; case {c:?}", c.rate2, c.rate1, want.max(1));
		}
		// filter frequencies keep their value
		_ => {
			let nyq = c.rate1.min(c.rate2) as f64 / 2.0;
			let cutoff = 100.0 + c.param * (nyq * 0.4 - 100.0);
			// one filter instance lives through the change
			let mut b = TrackBuilder::new();
			b.add_effect(FilterBuilder::new().mode(FilterMode::LowPass).cutoff(cutoff).resonance(0.0));
			let mut track = mgr.add_sub_track(b).map_err(|_| Failure::simple("setup", "track"))?;
			let mut measure = |mgr: &mut Mgr, rate: u32| -> Result<f64, Failure> {
				// a sine at the cutoff frequency, sampled at the device rate
				// (long enough for 8 periods to settle and 8 more to be measured)
				let period = rate as f64 / cutoff;
				let n = ((rate as f64 * 0.06) as usize).max((period * 16.0).ceil() as usize + 32);
				let frames: Arc<[Frame]> = (0..n).map(|i| Frame::from_mono(0.5 * (std::f64::consts::TAU * cutoff * i as f64 / rate as f64).sin() as f32)).collect::<Vec<_>>().into();
				track
					.play(StaticSoundData {
						sample_rate: rate,
						frames,
						settings: StaticSoundSettings::new(),
						slice: None,
					})
					.map_err(|_| Failure::simple("setup", "play"))?;
				let mut out = vec![];
				while out.len() < n * 2 {
					out.extend(cb(mgr, 256)?);
				}
				// steady state: second half
				// steady state: a whole number of periods from the second half
				let take = (((n / 2 - 8) as f64 / period).floor() * period).round() as usize;
				let seg: Vec<f32> = out.chunks(2).map(|s| s[0]).skip(n / 2).take(take.max(1)).collect();
				let rms = (seg.iter().map(|x| (*x as f64).powi(2)).sum::<f64>() / seg.len() as f64).sqrt();
				Ok(20.0 * (rms / (0.5 / 2f64.sqrt())).log10())
			};
			let g1 = measure(&mut mgr, c.rate1)?;
			mgr.backend_mut().change_sample_rate(c.rate2);
			let g2 = measure(&mut mgr, c.rate2)?;
			// state-variable low pass with resonance 0 (k = 2): |H| at the corner = 1 / k = -6.02 dB
			ensure!((g1 + 6.0206).abs() <= 0.2, "filter-keeps-its-corner", "low-pass gain at the {cutoff:.1} Hz corner measured at {} Hz is {g1:.3} dB, expected -6.02 dB; case {c:?}", c.rate1);
			ensure!((g2 + 6.0206).abs() <= 0.2, "filter-keeps-its-corner", "low-pass gain at the {cutoff:.1} Hz corner measured at {} Hz (after the change) is {g2:.3} dB, expected -6.02 dB; case {c:?}", c.rate2);
		}
	}
	Ok(())
}

impl Property for C16 {
	fn id(&self) -> &'static str {
		"C16"
	}
	fn rule(&self) -> &'static str {
		"three kinds of cases. (1) Histories: tracks (children of the manager or of any track), send tracks and the main track carry probe effects; tracks are added and dropped, the device rate changes (any rate 8k..192k) and callbacks of arbitrary sizes run in any order; at every process call of every probe effect dt must be the period of the rate in force and the rate last announced to the effect (init / on_change_sample_rate) must be that rate. (2) Seconds and hertz: with a rate change after a generated number of callbacks, an index-coded sound must be heard at source frame t x its own rate (1.5 frames) and end after its duration (one callback), a clock must show speed x seconds (1e-9) and a volume tween must end after its duration (one callback), a delay must return an impulse after delay_time x the new rate frames exactly (and, in half of these cases, an impulse that is still in the delay line when the rate changes may be dropped, but whatever echo of it comes out must come out at a multiple of the delay time in seconds of audio), and a low-pass filter must keep its -6.02 dB corner gain (0.2 dB) at both rates. (3) Silent history: any of the eight built-in effects (generated parameters, feedback effects nested in delays) that has only processed silence at one rate and is then told another must produce the same output (1e-6 relative) as a fresh instance at the new rate. Non-trivial = a rate change while a track is queued or playing (histories), or rate1 != rate2 (seconds cases); distinct = distinct decoded choices."
	}
	fn assumptions(&self) -> Vec<String> {
		vec![
			"on_change_sample_rate is called between callbacks (as the cpal backend does)".into(),
			"known-finding class excluded by construction: a track or send track created after the last callback and still queued when the rate changes (it is never told the new rate); the race 'rate read, rate changes, track enqueued' inside add_sub_track is the same situation and is covered by its sequential form".into(),
			"the delay and filter checks belong to C14 as far as the transfer behaviour goes; here only the dependence on the device rate is examined".into(),
		]
	}
	fn tape_len(&self, _tier: Tier) -> usize {
		200
	}
	fn cases(&self, tier: Tier) -> u64 {
		tier.pick(500_000, 4_000_000)
	}

	fn run(&self, tape: &[u32], ctx: &mut Ctx) -> CaseResult {
		let mut src = Src::new(tape);
		if src.chance(2, 3) {
			let rate = gen_rate(&mut src);
			let ibs = src.pick(&[64usize, 1, 16, 128, 7]);
			let mut ops = vec![];
			let mut n_tracks = 0usize;
			let mut queued = false;
			for _ in 0..src.usize_in(3, ctx.tier.pick(30, 80)) {
				let op = match src.weighted(&[8, 6, 2, 4, if n_tracks > 0 { 1 } else { 0 }]) {
					0 => {
						queued = false;
						Op::Callback(src.pick(&[ibs, 1, ibs * 2 + 3]))
					}
					1 => {
						let parent = if n_tracks > 0 && src.bool() { Some(src.index(n_tracks)) } else { None };
						n_tracks += 1;
						queued = true;
						Op::AddTrack(parent)
					}
					2 => {
						queued = true;
						Op::AddSend
					}
					3 => {
						if queued && ctx.exclude("rate-change-while-a-new-track-is-still-queued") {
							queued = false;
							ops.push(Op::Callback(ibs));
						}
						Op::Change(gen_rate(&mut src))
					}
					_ => Op::DropTrack(src.index(n_tracks)),
				};
				ops.push(op);
			}
			ops.push(Op::Callback(ibs));
			ops.push(Op::Callback(ibs));
			let case = HistCase {
				rate,
				ibs,
				main_probe: src.bool(),
				ops,
			};
			ctx.describe(|| format!("{case:?}"));
			let (queued_change, changes) = hist_case(&case)?;
			let mut classes = vec!["effect-rate-history"];
			if queued_change {
				classes.push("change-while-queued");
			}
			Ok(CaseInfo::new(&src, changes > 0 && n_tracks > 0, classes))
		} else if src.chance(1, 3) {
			let (r1, r2) = (gen_rate(&mut src), gen_rate(&mut src));
			let ibs = src.pick(&[128usize, 64, 16, 256, 100]);
			let mut spec = crate::scene::fx::gen_fx(&mut src, ctx, crate::scene::fx::Domain::Documented, r1.min(r2), 0);
			// a third of the cases: a delay with one effect of any kind (reverb included) in its
			// feedback loop - both instances get the same input, so the loop need not be stable
			if src.chance(1, 3) {
				let inner_kind = src.pick(&[6usize, 2, 3, 5, 4, 7]);
				let inner = crate::scene::fx::gen_fx_kind(&mut src, ctx, crate::scene::fx::Domain::Documented, r1.min(r2), 1, inner_kind);
				spec = crate::scene::fx::FxSpec::Delay {
					time_s: src.pick(&[0.01f64, 0.002, 0.03]),
					feedback_db: src.pick(&[-12.0f32, -6.0, -24.0]),
					mix: 0.5,
					inner: vec![inner],
				};
			}
			let sig = crate::scene::signal::gen_sig(&mut src, false);
			ctx.describe(|| format!("silent history {r1} -> {r2} Hz, internal buffer {ibs}, {spec:?}, {sig:?}"));
			silent_history(&spec, r1, r2, ibs, &sig)?;
			let nested = matches!(&spec, crate::scene::fx::FxSpec::Delay { inner, .. } if !inner.is_empty());
			Ok(CaseInfo::new(&src, r1 != r2, if nested { vec!["effect-after-silent-history", "nested-feedback-effects"] } else { vec!["effect-after-silent-history"] }))
		} else {
			let case = SecCase {
				kind: src.index(4),
				rate1: gen_rate(&mut src),
				rate2: gen_rate(&mut src),
				ibs: src.pick(&[128usize, 64, 16, 256, 100]),
				sound_rate: src.pick(&[44100u32, 48000, 8000, 22050, 96000, 192000]),
				before: src.usize_in(0, 12),
				param: src.f64_uniform(0.0, 1.0),
			};
			ctx.describe(|| format!("{case:?}"));
			sec_case(&case)?;
			let class = ["sound-pitch-and-duration", "clock-and-tween", "delay-time", "filter-corner"][case.kind];
			Ok(CaseInfo::new(&src, case.rate1 != case.rate2, vec![class]))
		}
	}
}
