//! C17 - modulators produce their configured curves; linked parameters follow in-chunk.

use crate::engine::{CaseInfo, CaseResult, Ctx, Failure, Property, Src, Tier};
use crate::ensure;
use crate::probes::{default_manager, EffectLog, ProbeEffectBuilder, ProbeKind};
use crate::probes::agent::{Phase, Stage, Target, World, PHASES, TARGETS};
use crate::scene::gen::gen_easing;
use kira::info::{Info, MockInfoBuilder};
use kira::modulator::lfo::{LfoBuilder, LfoHandle, Waveform};
use kira::modulator::tweener::{TweenerBuilder, TweenerHandle};
use kira::modulator::{Modulator, ModulatorBuilder, ModulatorId};
use kira::track::TrackBuilder;
use kira::{Easing, Mapping, Tween, Value};
use std::f64::consts::TAU;
use std::sync::atomic::{AtomicBool, AtomicU64, Ordering};
use std::sync::{Arc, Mutex};
use std::time::Duration;

pub struct C17;

// ------------------------------------------------------------------------------------------
// a probe modulator: counts its updates, its value is the number of updates so far

#[derive(Debug, Default)]
pub struct ModLog {
	pub updates: AtomicU64,
	pub dts: Mutex<Vec<f64>>,
	pub removed: AtomicBool,
}

struct ProbeModulator {
	log: Arc<ModLog>,
	count: u64,
}

impl Modulator for ProbeModulator {
	fn update(&mut self, dt: f64, _info: &Info) {
		self.count += 1;
		self.log.updates.store(self.count, Ordering::SeqCst);
		let mut d = self.log.dts.lock().unwrap();
		if d.len() < d.capacity() {
			d.push(dt);
		}
	}
	fn value(&self) -> f64 {
		self.count as f64
	}
	fn finished(&self) -> bool {
		self.log.removed.load(Ordering::SeqCst)
	}
}

struct ProbeModulatorBuilder;

struct ProbeModHandle {
	id: ModulatorId,
	log: Arc<ModLog>,
}

impl Drop for ProbeModHandle {
	fn drop(&mut self) {
		self.log.removed.store(true, Ordering::SeqCst);
	}
}

impl ModulatorBuilder for ProbeModulatorBuilder {
	type Handle = ProbeModHandle;
	fn build(self, id: ModulatorId) -> (Box<dyn Modulator>, ProbeModHandle) {
		let log = Arc::new(ModLog {
			updates: AtomicU64::new(0),
			dts: Mutex::new(Vec::with_capacity(4096)),
			removed: AtomicBool::new(false),
		});
		(Box::new(ProbeModulator { log: log.clone(), count: 0 }), ProbeModHandle { id, log })
	}
}

// ------------------------------------------------------------------------------------------
// LFO reference

#[derive(Debug, Clone, Copy, PartialEq)]
enum Wave {
	Sine,
	Triangle,
	Saw,
	Pulse(f64),
}

impl Wave {
	fn kira(self) -> Waveform {
		match self {
			Wave::Sine => Waveform::Sine,
			Wave::Triangle => Waveform::Triangle,
			Wave::Saw => Waveform::Saw,
			Wave::Pulse(width) => Waveform::Pulse { width },
		}
	}
	/// value at phase p in [0, 1): the documented shapes - sine; triangle starting at 0 going up;
	/// saw starting at 0 going up to 1 at half a period and continuing from -1; pulse high for
	/// the first `width` of the period
	fn at(self, p: f64) -> f64 {
		match self {
			Wave::Sine => (p * TAU).sin(),
			Wave::Triangle => {
				if p < 0.25 {
					4.0 * p
				} else if p < 0.75 {
					2.0 - 4.0 * p
				} else {
					4.0 * p - 4.0
				}
			}
			Wave::Saw => {
				if p < 0.5 {
					2.0 * p
				} else {
					2.0 * p - 2.0
				}
			}
			Wave::Pulse(w) => {
				if p < w {
					1.0
				} else {
					-1.0
				}
			}
		}
	}
	/// distance of phase p to the nearest discontinuity of the shape (1.0 if it has none)
	fn edge_distance(self, p: f64) -> f64 {
		let d = |e: f64| {
			let x = (p - e).abs();
			x.min(1.0 - x)
		};
		match self {
			Wave::Sine | Wave::Triangle => 1.0,
			Wave::Saw => d(0.5),
			Wave::Pulse(w) => d(0.0).min(d(w.clamp(0.0, 1.0))),
		}
	}
}

#[derive(Debug, Clone)]
enum LfoStep {
	Update(f64),
	SetPhase(f64),
	SetWave(Wave),
	SetFrequency(f64, f64),
	SetAmplitude(f64, f64),
	SetOffset(f64, f64),
}

#[derive(Debug, Clone)]
struct LfoCase {
	wave: Wave,
	frequency: f64,
	amplitude: f64,
	offset: f64,
	phase: f64,
	steps: Vec<LfoStep>,
}

/// linear tween of an f64, immediate start (the Parameter semantics, see C06)
#[derive(Debug, Clone)]
struct P {
	v: f64,
	tw: Option<(f64, f64, f64, f64)>,
}

impl P {
	fn set(&mut self, to: f64, dur: f64) {
		self.tw = Some((self.v, to, dur, 0.0));
	}
	fn update(&mut self, dt: f64) {
		if let Some((from, to, dur, t)) = &mut self.tw {
			*t += dt;
			if *t >= *dur {
				self.v = *to;
				self.tw = None;
			} else {
				self.v = *from + (*to - *from) * (*t / *dur);
			}
		}
	}
}

fn tw(dur: f64) -> Tween {
	Tween {
		duration: Duration::from_secs_f64(dur),
		..Default::default()
	}
}

fn lfo_direct(c: &LfoCase) -> Result<bool, Failure> {
	let mut mb = MockInfoBuilder::new();
	let id = mb.add_modulator(0.0);
	let info = mb.build();
	let (mut m, mut h): (Box<dyn Modulator>, LfoHandle) = LfoBuilder::new().waveform(c.wave.kira()).frequency(c.frequency).amplitude(c.amplitude).offset(c.offset).starting_phase(c.phase).build(id);
	let mut wave = c.wave;
	let mut phase = (c.phase / TAU).rem_euclid(1.0);
	let (mut f, mut a, mut o) = (P { v: c.frequency, tw: None }, P { v: c.amplitude, tw: None }, P { v: c.offset, tw: None });
	let mut negative_phase = c.phase < 0.0;
	for (si, step) in c.steps.iter().enumerate() {
		match step {
			LfoStep::SetPhase(p) => {
				h.set_phase(*p);
				m.on_start_processing();
				phase = (p / TAU).rem_euclid(1.0);
				if *p < 0.0 {
					negative_phase = true;
				}
			}
			LfoStep::SetWave(w) => {
				h.set_waveform(w.kira());
				m.on_start_processing();
				wave = *w;
			}
			LfoStep::SetFrequency(v, d) => {
				h.set_frequency(*v, tw(*d));
				m.on_start_processing();
				f.set(*v, Duration::from_secs_f64(*d).as_secs_f64());
			}
			LfoStep::SetAmplitude(v, d) => {
				h.set_amplitude(*v, tw(*d));
				m.on_start_processing();
				a.set(*v, Duration::from_secs_f64(*d).as_secs_f64());
			}
			LfoStep::SetOffset(v, d) => {
				h.set_offset(*v, tw(*d));
				m.on_start_processing();
				o.set(*v, Duration::from_secs_f64(*d).as_secs_f64());
			}
			LfoStep::Update(dt) => {
				m.update(*dt, &info);
				f.update(*dt);
				a.update(*dt);
				o.update(*dt);
				phase = (phase + dt * f.v).rem_euclid(1.0);
				let got = m.value();
				let (amp, off) = (a.v, o.v);
				// always inside offset +- |amplitude|
				let slack = 1e-9 * (1.0 + amp.abs() + off.abs());
				if !(got >= off - amp.abs() - slack && got <= off + amp.abs() + slack) {
					let sig = if negative_phase { "lfo-stays-within-offset-plus-minus-amplitude:negative-phase" } else { "lfo-stays-within-offset-plus-minus-amplitude" };
					return Err(Failure::new("lfo-stays-within-offset-plus-minus-amplitude", sig, format!("step {si}: LFO value {got} outside {off} +- {}; case {c:?}", amp.abs())));
				}
				// on the configured curve (away from the jumps of saw / pulse, where a rounding
				// difference in the phase decides the side)
				if wave.edge_distance(phase) > 1e-6 {
					let want = off + amp * wave.at(phase);
					let tol = 1e-6 * (1.0 + amp.abs() * (1.0 + f.v.abs() * 1e-3)) + 1e-9 * off.abs();
					if (got - want).abs() > tol {
						let sig = if negative_phase { "lfo-follows-configured-curve:negative-phase" } else { "lfo-follows-configured-curve" };
						return Err(Failure::new("lfo-follows-configured-curve", sig, format!("step {si}: LFO value {got}, reference {want} (waveform {wave:?}, phase {phase}, amplitude {amp}, offset {off}); case {c:?}")));
					}
				}
			}
		}
	}
	Ok(negative_phase)
}

// ------------------------------------------------------------------------------------------
// through the renderer

#[derive(Debug, Clone)]
enum ModSpec {
	Tweener(f64),
	Lfo { wave: Wave, frequency: f64, amplitude: f64, offset: f64, /// offset linked to modulator slot (mapping identity over [-10, 10])
		offset_link: Option<usize> },
	Probe,
}

#[derive(Debug, Clone)]
struct MapSpec {
	in0: f64,
	in1: f64,
	out0: f64,
	out1: f64,
	easing: Easing,
}

#[derive(Debug, Clone)]
enum Op {
	AddMod(ModSpec),
	/// a track with a probe effect whose parameter is linked to modulator `slot` through a mapping
	AddReader(usize, MapSpec),
	TweenerSet(usize, f64, f64),
	/// lfo_handle.set_offset(Value::FromModulator { id of slot, identity mapping over [-10, 10] })
	LinkOffset(usize, usize),
	DropMod(usize),
	Callback(usize),
}

#[derive(Debug, Clone)]
struct RCase {
	ibs: usize,
	ops: Vec<Op>,
}

enum ModH {
	Tweener(TweenerHandle),
	Lfo(LfoHandle),
	Probe(ProbeModHandle),
}

#[derive(Debug, Clone)]
struct MMod {
	spec: ModSpec,
	place: u8, // 0 queued, 1 live, 2 gone
	dropped: bool,
	value: f64,
	phase: f64,
	tweener: P,
	pending_set: Option<(f64, f64)>,
	pending_link: Option<usize>,
	link: Option<usize>,
	offset_seen: f64,
	updates: u64,
}

fn ease_ref(e: Easing, x: f64) -> f64 {
	Mapping {
		input_range: (0.0, 1.0),
		output_range: (0.0f64, 1.0f64),
		easing: e,
	}
	.map(x)
}

fn map_ref(m: &MapSpec, x: f64) -> f64 {
	let t = ((x - m.in0) / (m.in1 - m.in0)).clamp(0.0, 1.0);
	m.out0 + (m.out1 - m.out0) * ease_ref(m.easing, t)
}

fn renderer_case(c: &RCase) -> Result<(bool, bool), Failure> {
	const SR: u32 = 8000;
	let mut mgr = default_manager(SR, c.ibs);
	let mut handles: Vec<Option<ModH>> = vec![];
	let mut ids: Vec<ModulatorId> = vec![];
	let mut model: Vec<MMod> = vec![];
	struct Reader {
		slot: usize,
		map: MapSpec,
		log: Arc<EffectLog>,
		_track: kira::track::TrackHandle,
		live_from: usize,
		last: Option<f64>,
		/// internal buffers processed since the modulator was removed
		held: usize,
	}
	let mut readers: Vec<Reader> = vec![];
	let mut callback_no = 0usize;
	let mut dropped_any = false;
	let mut nonidentity = false;
	for (oi, op) in c.ops.iter().enumerate() {
		match op {
			Op::AddMod(spec) => {
				let h = match spec {
					ModSpec::Tweener(v) => mgr.add_modulator(TweenerBuilder { initial_value: *v }).ok().map(|h| (h.id(), ModH::Tweener(h))),
					ModSpec::Lfo { wave, frequency, amplitude, offset, offset_link } => {
						let off: Value<f64> = match offset_link.and_then(|s| ids.get(s).copied()) {
							Some(id) => Value::FromModulator {
								id,
								mapping: Mapping {
									input_range: (-10.0, 10.0),
									output_range: (-10.0, 10.0),
									easing: Easing::Linear,
								},
							},
							None => Value::Fixed(*offset),
						};
						mgr.add_modulator(LfoBuilder::new().waveform(wave.kira()).frequency(*frequency).amplitude(*amplitude).offset(off)).ok().map(|h| (h.id(), ModH::Lfo(h)))
					}
					ModSpec::Probe => mgr.add_modulator(ProbeModulatorBuilder).ok().map(|h| (h.id, ModH::Probe(h))),
				};
				let Some((id, h)) = h else {
					return Err(Failure::simple("setup", "modulator limit"));
				};
				ids.push(id);
				handles.push(Some(h));
				model.push(MMod {
					spec: spec.clone(),
					place: 0,
					dropped: false,
					value: match spec {
						ModSpec::Tweener(v) => *v,
						_ => 0.0,
					},
					phase: 0.0,
					tweener: P {
						v: match spec {
							ModSpec::Tweener(v) => *v,
							_ => 0.0,
						},
						tw: None,
					},
					pending_set: None,
					pending_link: None,
					link: match spec {
						ModSpec::Lfo { offset_link, .. } => offset_link.filter(|s| *s < ids.len() - 1),
						_ => None,
					},
					// an offset that is linked from the start has the builder's default (0.0) until the
					// modulator it is linked to produces a value
					offset_seen: match spec {
						ModSpec::Lfo { offset, offset_link, .. } => {
							if offset_link.map(|s| s < ids.len() - 1).unwrap_or(false) {
								0.0
							} else {
								*offset
							}
						}
						_ => 0.0,
					},
					updates: 0,
				});
			}
			Op::AddReader(slot, map) => {
				let Some(id) = ids.get(*slot) else { continue };
				let mut b = TrackBuilder::new();
				let log = b.add_effect(ProbeEffectBuilder::new(ProbeKind::Pass).param(Value::FromModulator {
					id: *id,
					mapping: Mapping {
						input_range: (map.in0, map.in1),
						output_range: (map.out0, map.out1),
						easing: map.easing,
					},
				}));
				let track = mgr.add_sub_track(b).map_err(|_| Failure::simple("setup", "track limit"))?;
				if map.easing != Easing::Linear || map.in0 > map.in1 {
					nonidentity = true;
				}
				readers.push(Reader {
					slot: *slot,
					map: map.clone(),
					log,
					_track: track,
					live_from: callback_no,
					last: None,
					held: 0,
				});
			}
			Op::TweenerSet(slot, to, dur) => {
				if let Some(Some(ModH::Tweener(h))) = handles.get_mut(*slot) {
					h.set(*to, tw(*dur));
					model[*slot].pending_set = Some((*to, Duration::from_secs_f64(*dur).as_secs_f64()));
				}
			}
			Op::LinkOffset(lfo, source) => {
				let Some(id) = ids.get(*source).copied() else { continue };
				if let Some(Some(ModH::Lfo(h))) = handles.get_mut(*lfo) {
					h.set_offset(
						Value::FromModulator {
							id,
							mapping: Mapping {
								input_range: (-10.0, 10.0),
								output_range: (-10.0, 10.0),
								easing: Easing::Linear,
							},
						},
						tw(0.0),
					);
					model[*lfo].pending_link = Some(*source);
				}
			}
			Op::DropMod(slot) => {
				if let Some(s) = handles.get_mut(*slot) {
					if s.take().is_some() {
						model[*slot].dropped = true;
						dropped_any = true;
					}
				}
			}
			Op::Callback(n) => {
				for r in &readers {
					r.log.calls.lock().unwrap().clear();
				}
				for h in handles.iter().flatten() {
					if let ModH::Probe(p) = h {
						p.log.dts.lock().unwrap().clear();
					}
				}
				let cb = mgr.backend_mut().callback(*n, 2);
				if let Some(p) = &cb.guard.panic {
					return Err(Failure::panic("", p));
				}
				// model: start of callback
				for m in model.iter_mut() {
					if m.place == 1 && m.dropped {
						m.place = 2;
					}
				}
				for m in model.iter_mut() {
					if m.place == 0 {
						m.place = 1;
					}
					if m.place == 1 {
						if let Some((to, dur)) = m.pending_set.take() {
							m.tweener.set(to, dur);
						}
						if let Some(l) = m.pending_link.take() {
							m.link = Some(l);
						}
					}
				}
				// chunks
				let mut left = *n;
				let mut chunk_values: Vec<Vec<Option<f64>>> = vec![];
				let mut chunk_lens = vec![];
				while left > 0 {
					let k = left.min(c.ibs);
					let dt = k as f64 / SR as f64;
					// every modulator is updated once per chunk; a modulator that reads another one sees
					// that one's value of the same chunk: sources (tweeners, probes) first, then LFOs
					for pass in 0..2 {
						for i in 0..model.len() {
							if model[i].place != 1 {
								continue;
							}
							let is_lfo = matches!(model[i].spec, ModSpec::Lfo { .. });
							if is_lfo != (pass == 1) {
								continue;
							}
							model[i].updates += 1;
							match model[i].spec.clone() {
								ModSpec::Tweener(_) => {
									model[i].tweener.update(dt);
									model[i].value = model[i].tweener.v;
								}
								ModSpec::Probe => model[i].value = model[i].updates as f64,
								ModSpec::Lfo { wave, frequency, amplitude, offset, .. } => {
									let off = match model[i].link {
										Some(s) if model[s].place == 1 => model[s].value.clamp(-10.0, 10.0),
										Some(_) => model[i].offset_seen,
										None => offset,
									};
									model[i].offset_seen = off;
									model[i].phase = (model[i].phase + dt * frequency).rem_euclid(1.0);
									model[i].value = off + amplitude * wave.at(model[i].phase);
								}
							}
						}
					}
					chunk_values.push(model.iter().map(|m| if m.place == 1 { Some(m.value) } else { None }).collect());
					chunk_lens.push(k);
					left -= k;
				}
				callback_no += 1;
				// probe modulators: exactly one update per chunk with dt = chunk / rate
				for (i, h) in handles.iter().enumerate() {
					if let Some(ModH::Probe(p)) = h {
						if model[i].place == 1 {
							let dts = p.log.dts.lock().unwrap();
							ensure!(dts.len() == chunk_lens.len(), "modulator-updated-once-per-chunk", "op #{oi}: probe modulator {i} was updated {} times in a callback of {} internal buffers; case {c:?}", dts.len(), chunk_lens.len());
							for (d, k) in dts.iter().zip(chunk_lens.iter()) {
								ensure!((d - *k as f64 / SR as f64).abs() < 1e-15, "modulator-updated-once-per-chunk", "op #{oi}: probe modulator {i} got dt = {d} for a buffer of {k} frames; case {c:?}");
							}
						}
					}
				}
				// readers: the parameter equals the mapping of the modulator's value of the same chunk
				for (ri, r) in readers.iter_mut().enumerate() {
					if callback_no - 1 < r.live_from {
						continue;
					}
					let calls = r.log.calls.lock().unwrap();
					ensure!(calls.len() == chunk_lens.len(), "reader-processed-every-chunk", "op #{oi}: reader {ri} processed {} chunks of {}; case {c:?}", calls.len(), chunk_lens.len());
					for (j, rec) in calls.iter().enumerate() {
						match chunk_values[j][r.slot] {
							Some(v) => {
								let want = map_ref(&r.map, v);
								let tol = 1e-9 * (1.0 + want.abs()) + 1e-6 * (r.map.out1 - r.map.out0).abs() * lfo_jump_guard(&model[r.slot], v);
								if (rec.param - want).abs() > tol {
									let later = matches!(model[r.slot].link, Some(s) if s > r.slot);
									let sig = if later { "parameter-follows-modulator-in-same-chunk:modulator-linked-to-later-created-modulator" } else { "parameter-follows-modulator-in-same-chunk" };
									return Err(Failure::new("parameter-follows-modulator-in-same-chunk", sig, format!("op #{oi}, internal buffer {j} of this callback: parameter of reader {ri} = {}, modulator {} is at {v} -> mapping gives {want}; case {c:?}", rec.param, r.slot)));
								}
								r.last = Some(rec.param);
							}
							None => {
								// the modulator is gone: the parameter holds its last value
								if let Some(last) = r.last {
									ensure!(rec.param == last, "parameter-holds-after-modulator-removed", "op #{oi}, internal buffer {j}: parameter of reader {ri} = {} after modulator {} was removed, it held {last} before; case {c:?}", rec.param, r.slot);
									// ... over the whole buffer, not only at its end: from the second buffer after
									// the removal on nothing is left to interpolate from
									if r.held >= 1 {
										ensure!(rec.prev_param == last, "parameter-holds-after-modulator-removed", "op #{oi}, internal buffer {j} ({} buffers after modulator {} was removed): the parameter of reader {ri} still sweeps from {} to {last} inside every buffer; case {c:?}", r.held, r.slot, rec.prev_param);
									}
									r.held += 1;
								}
							}
						}
					}
				}
			}
		}
	}
	Ok((dropped_any, nonidentity))
}

/// LFO values next to a waveform jump may land on either side: widen the tolerance there
fn lfo_jump_guard(m: &MMod, _v: f64) -> f64 {
	match &m.spec {
		ModSpec::Lfo { wave, .. } => {
			if wave.edge_distance(m.phase) < 1e-6 {
				1e9
			} else {
				1.0
			}
		}
		_ => 0.0,
	}
}

fn gen_wave(src: &mut Src) -> Wave {
	match src.index(4) {
		0 => Wave::Sine,
		1 => Wave::Triangle,
		2 => Wave::Saw,
		_ => Wave::Pulse(src.f64_in(0.0, 1.0)),
	}
}

fn decode_lfo(src: &mut Src, ctx: &mut Ctx) -> LfoCase {
	let gen_phase = |src: &mut Src, _ctx: &mut Ctx| -> f64 {
		let p = match src.weighted(&[3, 3, 2]) {
			0 => src.pick(&[0.0, 1.5707963267948966, 3.141592653589793, -1.5707963267948966]),
			1 => src.f64_uniform(0.0, TAU),
			_ => src.f64_uniform(-50.0, 50.0),
		};
		p
	};
	let base_dt = src.pick(&[128.0 / 48000.0, 1.0 / 48000.0, 0.01, 512.0 / 44100.0]);
	let mut steps = vec![];
	for _ in 0..src.usize_in(3, ctx.tier.pick(60, 200)) {
		let dur = match src.weighted(&[2, 3]) {
			0 => 0.0,
			_ => src.f64_uniform(0.0, base_dt * 10.0),
		};
		steps.push(match src.weighted(&[12, 1, 1, 2, 2, 2]) {
			0 => LfoStep::Update(base_dt * src.pick(&[1.0, 0.5, 2.0, 0.01])),
			1 => LfoStep::SetPhase(gen_phase(src, ctx)),
			2 => LfoStep::SetWave(gen_wave(src)),
			3 => LfoStep::SetFrequency(src.f64_log(0.01, 2000.0), dur),
			4 => LfoStep::SetAmplitude(src.f64_in(-4.0, 4.0), dur),
			_ => LfoStep::SetOffset(src.f64_in(-4.0, 4.0), dur),
		});
	}
	LfoCase {
		wave: gen_wave(src),
		frequency: match src.weighted(&[2, 4, 1]) {
			0 => src.pick(&[2.0, 0.0, 1.0, 100.0]),
			1 => src.f64_log(0.01, 2000.0),
			_ => src.f64_log(2000.0, 1e5),
		},
		amplitude: src.f64_in(-4.0, 4.0),
		offset: src.f64_in(-4.0, 4.0),
		phase: gen_phase(src, ctx),
		steps,
	}
}

fn decode_renderer(src: &mut Src, ctx: &mut Ctx) -> RCase {
	let ibs = match src.weighted(&[3, 3, 2]) {
		0 => src.pick(&[128usize, 1, 2, 64]),
		1 => src.usize_in(1, 32),
		_ => src.usize_in(1, 256),
	};
	let cb_s = ibs as f64 / 8000.0;
	let mut ops = vec![];
	let mut n_mods = 0usize;
	let mut is_lfo: Vec<bool> = vec![];
	for _ in 0..src.usize_in(4, ctx.tier.pick(40, 100)) {
		let has_lfo = is_lfo.iter().any(|x| *x);
		let has_src = is_lfo.iter().any(|x| !*x);
		let op = match src.weighted(&[10, if n_mods < 12 { 5 } else { 0 }, if n_mods > 0 { 6 } else { 0 }, if n_mods > 0 { 4 } else { 0 }, if n_mods > 0 { 2 } else { 0 }, if has_lfo && has_src { 2 } else { 0 }]) {
			0 => Op::Callback(match src.weighted(&[3, 3, 2]) {
				0 => ibs,
				1 => src.usize_in(1, ibs * 3),
				_ => 1,
			}),
			1 => {
				let spec = match src.weighted(&[3, 4, 2]) {
					0 => ModSpec::Tweener(src.f64_in(-2.0, 2.0)),
					1 => {
						let sources: Vec<usize> = (0..n_mods).filter(|i| !is_lfo[*i]).collect();
						let link = if !sources.is_empty() && src.chance(1, 3) { Some(sources[src.index(sources.len())]) } else { None };
						ModSpec::Lfo {
							wave: gen_wave(src),
							frequency: src.f64_log(0.1, 500.0),
							amplitude: src.f64_in(-2.0, 2.0),
							offset: src.f64_in(-2.0, 2.0),
							offset_link: link,
						}
					}
					_ => ModSpec::Probe,
				};
				n_mods += 1;
				is_lfo.push(matches!(spec, ModSpec::Lfo { .. }));
				Op::AddMod(spec)
			}
			2 => {
				let (a, b) = (src.f64_in(-3.0, 3.0), src.f64_in(-3.0, 3.0));
				let (in0, in1) = if a == b { (a, a + 1.0) } else { (a, b) };
				Op::AddReader(
					src.index(n_mods),
					MapSpec {
						in0,
						in1,
						out0: src.f64_in(-100.0, 100.0),
						out1: src.f64_in(-100.0, 100.0),
						easing: gen_easing(src),
					},
				)
			}
			3 => Op::TweenerSet(
				src.index(n_mods),
				src.f64_in(-2.0, 2.0),
				match src.weighted(&[2, 2, 3]) {
					0 => 0.0,
					1 => src.f64_uniform(0.0, cb_s),
					_ => src.f64_uniform(0.0, cb_s * 6.0),
				},
			),
			4 => Op::DropMod(src.index(n_mods)),
			_ => {
				let lfos: Vec<usize> = (0..n_mods).filter(|i| is_lfo[*i]).collect();
				let sources: Vec<usize> = (0..n_mods).filter(|i| !is_lfo[*i]).collect();
				let l = lfos[src.index(lfos.len())];
				let mut s = sources[src.index(sources.len())];
				if s > l && ctx.exclude("modulator-linked-to-later-created-modulator") {
					// keep only links to modulators created before the reader
					match sources.iter().copied().filter(|x| *x < l).last() {
						Some(e) => s = e,
						None => {
							ops.push(Op::Callback(ibs));
							continue;
						}
					}
				}
				Op::LinkOffset(l, s)
			}
		};
		ops.push(op);
	}
	for _ in 0..src.usize_in(1, 3) {
		ops.push(Op::Callback(src.usize_in(1, ibs * 2)));
	}
	RCase { ibs, ops }
}

/// A sound parameter linked to a modulator follows it from the sound's first audible frame, also
/// when the sound has been waiting for a delayed start: nothing ramps in from a default value.
fn waiting_sound_follows(ibs: usize, wait_chunks: f64, value: f64, db_lo: f64, streaming: bool) -> Result<(), Failure> {
	use kira::sound::static_sound::{StaticSoundData, StaticSoundSettings};
	let rate = 48000u32;
	let mut mgr = default_manager(rate, ibs);
	let tweener = mgr.add_modulator(TweenerBuilder { initial_value: value }).map_err(|_| Failure::simple("setup", "tweener"))?;
	let volume: Value<kira::Decibels> = Value::FromModulator {
		id: tweener.id(),
		mapping: Mapping {
			input_range: (0.0, 1.0),
			output_range: (kira::Decibels(db_lo as f32), kira::Decibels(0.0)),
			easing: Easing::Linear,
		},
	};
	let delay = Duration::from_secs_f64(wait_chunks * ibs as f64 / rate as f64);
	let _ = streaming;
	let _h = mgr
		.play(StaticSoundData {
			sample_rate: rate,
			frames: (0..64).map(|_| kira::Frame::from_mono(1.0)).collect::<Vec<_>>().into(),
			settings: StaticSoundSettings::new().loop_region(..).volume(volume).start_time(kira::StartTime::Delayed(delay)),
			slice: None,
		})
		.map_err(|_| Failure::simple("setup", "play"))?;
	let want_db = db_lo + (0.0 - db_lo) * value.clamp(0.0, 1.0);
	let want = if want_db <= -60.0 { 0.0 } else { 10f64.powf(want_db / 20.0) };
	let mut audible = 0usize;
	for k in 0..(wait_chunks.ceil() as usize + 4) {
		let cb = mgr.backend_mut().callback(ibs, 2);
		if let Some(p) = &cb.guard.panic {
			return Err(Failure::panic("", p));
		}
		for i in 0..ibs {
			let (l, _) = cb.frame(i, 2);
			if l != 0.0 || audible > 0 {
				audible += 1;
				// (the first frames pass through the resampler's empty history)
				if audible > 4 {
					ensure!((l as f64 - want).abs() <= 1e-4 * want.max(1e-3), "linked-sound-parameter-follows-from-the-first-frame", "callback {k} frame {i} ({audible} frames after the sound became audible): output {l}, the linked volume maps the modulator's {value} to {want_db:.3} dB = {want}; internal buffer {ibs}, start delayed by {wait_chunks} buffers");
				}
			}
		}
	}
	Ok(())
}

/// A tweener and a sound whose volume is linked to it, created by the gameplay thread at one of the
/// moments of a callback at which a second thread's calls can land: whenever the sound is audible
/// its level is the mapping of the tweener's value - the sound never gets ahead of its modulator.
fn hand_off(ibs: usize, phase: Phase, target: Target, other_first: bool, value: f64, db_lo: f64) -> Result<(), Failure> {
	use kira::sound::static_sound::{StaticSoundData, StaticSoundSettings};
	let rate = 48000u32;
	let mut stage = Stage::new(rate, ibs, other_first)?;
	let want_db = db_lo + (0.0 - db_lo) * value.clamp(0.0, 1.0);
	let want = if want_db <= -60.0 { 0.0 } else { 10f64.powf(want_db / 20.0) };
	let mut keep = None;
	let mut audible = 0usize;
	let mut first_buffer: Option<usize> = None;
	// several internal buffers per callback: a sound that arrived a callback ahead of its
	// modulator would play all of them at the parameter's default
	let frames = ibs * 3;
	for k in 0..5 {
		let cb = if k == 0 {
			let (r, cb) = stage.callback(frames, phase, move |w: &mut World| -> Result<_, &'static str> {
				let tweener = w.mgr.add_modulator(TweenerBuilder { initial_value: value }).map_err(|_| "modulator limit")?;
				let volume: Value<kira::Decibels> = Value::FromModulator {
					id: tweener.id(),
					mapping: Mapping {
						input_range: (0.0, 1.0),
						output_range: (kira::Decibels(db_lo as f32), kira::Decibels(0.0)),
						easing: Easing::Linear,
					},
				};
				let data = StaticSoundData {
					sample_rate: rate,
					frames: (0..64).map(|_| kira::Frame::from_mono(1.0)).collect::<Vec<_>>().into(),
					settings: StaticSoundSettings::new().loop_region(..).volume(volume),
					slice: None,
				};
				let sound = match target {
					Target::Main => w.mgr.play(data),
					Target::AgentTrack => w.agent_track.play(data),
					Target::OtherTrack => w.other_track.play(data),
				}
				.map_err(|_| "sound limit")?;
				Ok((tweener, sound))
			})?;
			keep = Some(r.map_err(|e| Failure::simple("setup", e))?);
			cb
		} else {
			stage.callback(frames, Phase::Before, |_| ())?.1
		};
		for i in 0..frames {
			let (l, _) = cb.frame(i, 2);
			if l != 0.0 || audible > 0 {
				audible += 1;
				if first_buffer.is_none() {
					first_buffer = Some((k * frames + i) / ibs);
				}
				// in its first internal buffer a linked parameter moves from its default to the
				// mapped value (the parameter's previous value is the default): judged from the
				// second buffer on
				if (k * frames + i) / ibs > first_buffer.unwrap() {
					ensure!(
						(l as f64 - want).abs() <= 1e-4 * want.max(1e-3),
						"linked-sound-parameter-follows-from-the-first-frame",
						"a tweener (value {value}) and a sound whose volume is linked to it were created {phase:?} of callback 0 (sound on {target:?}); callback {k} frame {i} ({audible} frames after the sound became audible, internal buffer #{} of the run, audible since #{}): output {l}, the mapping gives {want_db:.3} dB = {want}; internal buffer {ibs}, callbacks of {frames} frames",
						(k * frames + i) / ibs,
						first_buffer.unwrap()
					);
				}
			}
		}
	}
	ensure!(audible > 0 || want == 0.0, "linked-sound-parameter-follows-from-the-first-frame", "the sound created {phase:?} of callback 0 on {target:?} never became audible in five callbacks (mapped gain {want}); internal buffer {ibs}");
	drop(keep);
	Ok(())
}

impl Property for C17 {
	fn id(&self) -> &'static str {
		"C17"
	}
	fn rule(&self) -> &'static str {
		"two kinds of cases. (1) One LFO built through LfoBuilder and driven directly: four waveforms, frequencies 0..1e5 Hz, amplitudes and offsets of either sign, starting phases in radians, and a history of update steps interleaved with set_phase / set_waveform / set_frequency / set_amplitude / set_offset (with tweens); after every update the value must lie inside offset +- |amplitude| and equal offset + amplitude x shape(frac(phase/2pi + sum f dt)) from an independent description of the documented shapes (1e-6, not tested within 1e-6 of a waveform jump). (2) Through the renderer: tweeners, LFOs (optionally with their offset linked to another modulator) and probe modulators are added and dropped while probe effects whose parameter is linked to a modulator through a generated mapping (ranges, inverted ranges, all easings) record the parameter in every internal buffer; the parameter must equal the mapping of the modulator's value of the same buffer, hold its last value once the modulator is removed (at the end of every internal buffer and, from the second buffer after the removal, over the whole buffer), and every probe modulator must be updated exactly once per internal buffer with dt = buffer / rate. One renderer case in eight also plays a DC sound whose volume is linked to a tweener and whose start is delayed by 2.5 .. 6.5 internal buffers: from its fifth audible frame on the output must be the mapped gain (1e-4), nothing ramps in from the default. Every other renderer case also creates a tweener and a DC sound whose volume is linked to it at one of six moments of a callback (before it; from on_start_processing or process of a custom sound on a sub-track or on the main track; between Renderer::on_start_processing and Renderer::process), on the main track, the agent's track or another track, with three internal buffers per callback: from the second internal buffer in which the sound is audible its level must be the mapped gain - a sound never gets ahead of the modulator created before it. Non-trivial = a non-sine waveform or a non-identity mapping, and (renderer cases) a modulator drop; distinct = distinct decoded choices. The tweener's own curve is checked in C06."
	}
	fn assumptions(&self) -> Vec<String> {
		vec![
			"the LFO reference accumulates the phase update by update like any implementation must (frequency tweens are piecewise constant per update)".into(),
			"known-finding classes excluded by construction: a modulator whose parameter is linked to a modulator created after it (it reads that one a buffer late)".into(),
		]
	}
	fn tape_len(&self, _tier: Tier) -> usize {
		500
	}
	fn cases(&self, tier: Tier) -> u64 {
		tier.pick(1_600_000, 12_000_000)
	}

	fn run(&self, tape: &[u32], ctx: &mut Ctx) -> CaseResult {
		let mut src = Src::new(tape);
		if src.bool() {
			let case = decode_lfo(&mut src, ctx);
			ctx.describe(|| format!("{case:?}"));
			let neg = lfo_direct(&case)?;
			let nonsine = case.wave != Wave::Sine || case.steps.iter().any(|s| matches!(s, LfoStep::SetWave(w) if *w != Wave::Sine));
			let mut classes = vec!["lfo-direct"];
			if neg {
				classes.push("negative-phase");
			}
			Ok(CaseInfo::new(&src, nonsine, classes))
		} else {
			let case = decode_renderer(&mut src, ctx);
			ctx.describe(|| format!("{case:?}"));
			let (dropped, nonidentity) = renderer_case(&case)?;
			let mut classes = vec!["through-renderer"];
			if src.chance(1, 8) {
				waiting_sound_follows(src.pick(&[64usize, 16, 128, 8]), src.pick(&[2.5f64, 3.0, 6.5, 4.2]), src.pick(&[0.25f64, 0.5, 0.9, 0.0]), src.pick(&[-20.0f64, -40.0, -6.0]), false)?;
				classes.push("sound-parameter-linked-while-waiting");
			}
			if src.chance(1, 2) {
				let phase = PHASES[src.index(PHASES.len())];
				hand_off(src.pick(&[64usize, 16, 128, 8]), phase, TARGETS[src.index(TARGETS.len())], src.bool(), src.pick(&[0.25f64, 0.5, 0.9, 0.0]), src.pick(&[-20.0f64, -40.0, -6.0]))?;
				if phase != Phase::Before {
					classes.push("modulator-and-sound-handed-over-inside-a-callback");
				}
			}
			if dropped {
				classes.push("modulator-dropped");
			}
			if case.ops.iter().any(|o| matches!(o, Op::AddMod(ModSpec::Lfo { offset_link: Some(_), .. }))) {
				classes.push("modulator-chain");
			}
			Ok(CaseInfo::new(&src, dropped && nonidentity, classes))
		}
	}
}
