//! C18 - decoding is faithful; streaming a file equals loading it; bad files give errors.

use crate::engine::monitor;
use crate::engine::{CaseInfo, CaseResult, Ctx, Failure, Property, Src, Tier};
use crate::ensure;
use crate::probes::streamctl;
use kira::info::MockInfoBuilder;
use kira::sound::static_sound::StaticSoundData;
use kira::sound::streaming::{StreamingSoundData, StreamingSoundHandle};
use kira::sound::{EndPosition, FromFileError, PlaybackPosition, PlaybackState, Region, Sound, SoundData};
use kira::{Frame, Tween};
use std::io::Cursor;
use std::time::Duration;

pub struct C18;

#[derive(Debug, Clone, Copy, PartialEq)]
pub enum Enc {
	U8,
	S16,
	S24,
	S32,
	F32,
	F64,
}

impl Enc {
	fn bits(self) -> u16 {
		match self {
			Enc::U8 => 8,
			Enc::S16 => 16,
			Enc::S24 => 24,
			Enc::S32 | Enc::F32 => 32,
			Enc::F64 => 64,
		}
	}
	fn float(self) -> bool {
		matches!(self, Enc::F32 | Enc::F64)
	}
}

#[derive(Debug, Clone)]
pub struct WavSpec {
	pub enc: Enc,
	pub channels: u16,
	pub rate: u32,
	pub frames: usize,
	pub extensible: bool,
	pub seed: u32,
	/// index-coded content (frame i carries i) instead of noise
	pub ramp: bool,
}

/// raw sample values (one i64 / f64 per sample, interleaved) and what they decode to
pub struct Wav {
	pub bytes: Vec<u8>,
	/// expected decoded value of every sample, interleaved
	pub expected: Vec<f32>,
	pub data_offset: usize,
}

/// An independent RIFF/WAVE writer.
pub fn encode(spec: &WavSpec) -> Wav {
	let ch = spec.channels as usize;
	let n = spec.frames * ch;
	let mut state = spec.seed as u64 | 1;
	let mut next = || {
		state ^= state >> 12;
		state ^= state << 25;
		state ^= state >> 27;
		state.wrapping_mul(0x2545F4914F6CDD1D)
	};
	let mut data = Vec::with_capacity(n * spec.enc.bits() as usize / 8);
	let mut expected = Vec::with_capacity(n);
	for i in 0..n {
		let frame = i / ch;
		let r = next();
		match spec.enc {
			Enc::U8 => {
				let v = if spec.ramp { (frame % 256) as u8 } else { (r >> 56) as u8 };
				data.push(v);
				expected.push((v as f32 - 128.0) / 128.0);
			}
			Enc::S16 => {
				let v = if spec.ramp { (frame % 32768) as i16 } else { (r >> 48) as i16 };
				data.extend_from_slice(&v.to_le_bytes());
				expected.push(v as f32 / 32768.0);
			}
			Enc::S24 => {
				let v = if spec.ramp { ((frame + 1) % (1 << 23)) as i32 } else { ((r >> 40) as i32) - (1 << 23) };
				data.extend_from_slice(&v.to_le_bytes()[..3]);
				expected.push(v as f32 / 8388608.0);
			}
			Enc::S32 => {
				let v = if spec.ramp { ((frame + 1) as i32) << 8 } else { (r >> 32) as i32 };
				data.extend_from_slice(&v.to_le_bytes());
				expected.push((v as f64 / 2147483648.0) as f32);
			}
			Enc::F32 => {
				// (float files may hold samples beyond full scale: a quarter of the noise files do, up to +-4)
				let over = if spec.seed % 4 == 1 { 4.0 } else { 1.0 };
				let v = if spec.ramp { (frame + 1) as f32 / 8388608.0 } else { (((r >> 40) as f32 / 8388608.0) - 1.0) * over };
				data.extend_from_slice(&v.to_le_bytes());
				expected.push(v);
			}
			Enc::F64 => {
				let over = if spec.seed % 4 == 1 { 4.0 } else { 1.0 };
				let v = if spec.ramp { frame as f64 / 8388608.0 } else { (((r >> 11) as f64 / (1u64 << 52) as f64) - 1.0) * over };
				data.extend_from_slice(&v.to_le_bytes());
				expected.push(v as f32);
			}
		}
	}
	let mut bytes = vec![];
	let block_align = ch as u16 * spec.enc.bits() / 8;
	let ext = spec.extensible || ch > 2;
	let fmt_len: u32 = if ext { 40 } else { 16 };
	let riff_size = 4 + 8 + fmt_len + 8 + data.len() as u32 + (data.len() as u32 & 1);
	bytes.extend_from_slice(b"RIFF");
	bytes.extend_from_slice(&riff_size.to_le_bytes());
	bytes.extend_from_slice(b"WAVE");
	bytes.extend_from_slice(b"fmt ");
	bytes.extend_from_slice(&fmt_len.to_le_bytes());
	let tag: u16 = if ext {
		0xFFFE
	} else if spec.enc.float() {
		3
	} else {
		1
	};
	bytes.extend_from_slice(&tag.to_le_bytes());
	bytes.extend_from_slice(&spec.channels.to_le_bytes());
	bytes.extend_from_slice(&spec.rate.to_le_bytes());
	bytes.extend_from_slice(&(spec.rate * block_align as u32).to_le_bytes());
	bytes.extend_from_slice(&block_align.to_le_bytes());
	bytes.extend_from_slice(&spec.enc.bits().to_le_bytes());
	if ext {
		bytes.extend_from_slice(&22u16.to_le_bytes());
		bytes.extend_from_slice(&spec.enc.bits().to_le_bytes());
		let mask: u32 = match ch {
			1 => 0x4,
			2 => 0x3,
			n => (1u32 << n) - 1,
		};
		bytes.extend_from_slice(&mask.to_le_bytes());
		let sub: u16 = if spec.enc.float() { 3 } else { 1 };
		bytes.extend_from_slice(&sub.to_le_bytes());
		bytes.extend_from_slice(&[0x00, 0x00, 0x00, 0x00, 0x10, 0x00, 0x80, 0x00, 0x00, 0xAA, 0x00, 0x38, 0x9B, 0x71]);
	}
	bytes.extend_from_slice(b"data");
	bytes.extend_from_slice(&(data.len() as u32).to_le_bytes());
	let data_offset = bytes.len();
	bytes.extend_from_slice(&data);
	if data.len() & 1 == 1 {
		bytes.push(0);
	}
	Wav { bytes, expected, data_offset }
}

fn expected_frames(w: &Wav, spec: &WavSpec) -> Vec<Frame> {
	let ch = spec.channels as usize;
	(0..spec.frames)
		.map(|i| {
			if ch == 1 {
				Frame::from_mono(w.expected[i])
			} else {
				Frame::new(w.expected[i * ch], w.expected[i * ch + 1])
			}
		})
		.collect()
}

/// Plays a streaming sound at rate 1 on a device running at the sound's rate and collects every
/// output frame until the sound stops (or `max` frames); seeks are issued at the given chunk
/// boundaries.
/// Returns the output frames, the first decoder error, and for every seek whether the decoder
/// thread had already ended when the seek was issued.
fn stream_all(data: StreamingSoundData<FromFileError>, rate: u32, max: usize, seeks: &[(usize, f64)], pre_by: &[f64]) -> Result<(Vec<Frame>, Option<String>, Vec<(bool, u64)>), Failure> {
	streamctl::install();
	streamctl::set_callback_active(false);
	let mark = streamctl::mark();
	// the decoder thread takes its first step only after the commands of chunk 0 are written
	// (otherwise where a seek "before the first callback" lands in the stream is a race)
	streamctl::set_default_budget(Some(0));
	let made = data.into_sound();
	let (mut sound, mut handle): (Box<dyn Sound>, StreamingSoundHandle<FromFileError>) = match made {
		Ok(x) => x,
		Err(e) => {
			streamctl::set_default_budget(None);
			return Ok((vec![], Some(format!("{e:?}")), vec![]));
		}
	};
	let id = handle.verif_id();
	// (the default budget applies when the thread checks in, which may be after into_sound returns)
	streamctl::adopt(id, mark);
	streamctl::set_default_budget(None);
	let info = MockInfoBuilder::new().build();
	let dt = 1.0 / rate as f64;
	let mut out = vec![];
	let chunk = 512;
	let mut k = 0;
	let mut seek_marks: Vec<(bool, u64)> = vec![];
	let mut idle = 0;
	while out.len() < max {
		for (j, (at, pos)) in seeks.iter().enumerate() {
			if *at == k {
				let st = streamctl::state(id);
				seek_marks.push((st.ended, st.pushed));
				// optionally a relative seek first: the decoder then performs two seeks in one step,
				// and the absolute one decides where playback continues
				if let Some(by) = pre_by.get(j).copied().filter(|b| *b != 0.0) {
					handle.seek_by(by);
				}
				handle.seek_to(*pos);
			}
		}
		if k == 0 {
			streamctl::set_budget(id, None);
		}
		// the decoder keeps ahead: wait until it has filled its ring, ended, or reported an error
		let before = streamctl::state(id);
		if !streamctl::wait_quiescent(&[(id, std::sync::Arc::new(crate::probes::DecoderLog::default()))], Duration::from_secs(20)) {
			let after = streamctl::state(id);
			if after.loops == before.loops && after.pushed == before.pushed {
				// the decoder thread is stuck inside one step: it neither delivers frames, nor fails, nor ends
				streamctl::abandon_all();
				return Err(Failure::new("returns-promptly", "decoder-step-never-returns", format!("the decoder thread has been inside one decoding step for 20 s after delivering {} frames: no frame, no error, no end of stream", after.pushed)));
			}
		}
		streamctl::set_callback_active(true);
		let mut buf = vec![Frame::ZERO; chunk];
		sound.on_start_processing();
		sound.process(&mut buf, dt, &info);
		streamctl::set_callback_active(false);
		let stopped = handle.state() == PlaybackState::Stopped;
		out.extend_from_slice(&buf);
		k += 1;
		if stopped {
			idle += 1;
			if idle >= 1 {
				break;
			}
		}
	}
	let err = handle.pop_error().map(|e| format!("{e:?}"));
	// end the decoder thread
	handle.stop(Tween {
		duration: Duration::ZERO,
		..Default::default()
	});
	let mut buf = vec![Frame::ZERO; 4];
	sound.on_start_processing();
	sound.process(&mut buf, dt, &info);
	streamctl::abandon_all();
	Ok((out, err, seek_marks))
}

const EXACT_RATES: [u32; 8] = [44100, 48000, 8000, 22050, 96000, 16000, 32000, 1000];

fn gen_spec(src: &mut Src, max_frames: usize) -> WavSpec {
	let enc = src.pick(&[Enc::S16, Enc::U8, Enc::S24, Enc::S32, Enc::F32, Enc::F64]);
	let channels = match src.weighted(&[4, 4, 1]) {
		0 => 2,
		1 => 1,
		_ => src.int(3, 6) as u16,
	};
	WavSpec {
		enc,
		channels,
		rate: if src.chance(1, 4) { src.int(1000, 192000) as u32 } else { src.pick(&EXACT_RATES) },
		frames: match src.weighted(&[2, 3, 3]) {
			0 => src.usize_in(0, 3),
			1 => src.usize_in(0, 1200),
			_ => src.usize_in(0, max_frames),
		},
		extensible: src.chance(1, 4),
		seed: src.raw() | 1,
		ramp: false,
	}
}

fn ulp_close(a: f32, b: f32, ulps: i32) -> bool {
	if a == b {
		return true;
	}
	let (x, y) = (a.to_bits() as i32, b.to_bits() as i32);
	(a.is_sign_negative() == b.is_sign_negative()) && (x - y).abs() <= ulps
}

fn assets_dir() -> std::path::PathBuf {
	let repo = std::env::var("KVERIF_REPO").unwrap_or_else(|_| "/repo".into());
	std::path::Path::new(&repo).join("crates/examples/assets")
}

fn asset_list() -> Vec<std::path::PathBuf> {
	let mut v = vec![];
	let mut stack = vec![assets_dir()];
	while let Some(d) = stack.pop() {
		if let Ok(rd) = std::fs::read_dir(&d) {
			for e in rd.flatten() {
				let p = e.path();
				if p.is_dir() {
					stack.push(p);
				} else if matches!(p.extension().and_then(|e| e.to_str()), Some("ogg" | "wav" | "mp3" | "flac")) {
					v.push(p);
				}
			}
		}
	}
	v.sort();
	v
}

impl Property for C18 {
	fn id(&self) -> &'static str {
		"C18"
	}
	fn rule(&self) -> &'static str {
		"four kinds of cases. (1) An independent RIFF/WAVE writer produces PCM 8/16/24/32-bit integer and 32/64-bit float files (half of the float noise files with samples beyond full scale, up to +-4), 1..6 channels (plain and extensible headers), 0..5000 frames, any sample rate; StaticSoundData::from_cursor must return exactly the encoded sample rate, frame count and samples (exact for <= 24-bit integers and f32, 1 ulp for 32-bit integers and f64), mono duplicated, more than two channels rejected with the documented error. (2) The same bytes through StreamingSoundData::from_cursor, played at rate 1 on a device at the file's rate (decoder kept ahead through hook H2), must produce exactly the frames of the static decode, from any start position; with index-coded content and a sequence of seek_to calls (two fifths of them to packet starts, half of them preceded in the same gap by a seek_by, so that the decoder seeks twice in one step) every run of output frames after a seek must continue the file contiguously from the requested frame; a third of the seek cases play inside a loop region (anywhere in the file, 1 frame to the whole file long), two thirds of their seeks aim at or past the loop end, where the target is folded back into the region: the only discontinuities allowed are the loop's own wrap and jumps to a (folded) target, and a valid file never reports a decoder error. (3) Every single-byte corruption (header-biased) and every truncation point of a valid file must give an error value, or - for truncations - a prefix of the original frames, and never more frames than the data chunk can hold; never a panic, and the watchdog catches hangs. (4) The audio files shipped under crates/examples/assets (Ogg Vorbis, WAV) are streamed and loaded and compared frame for frame, from any start position, a third of them looping over a generated region (every wrap is a seek into the middle of a compressed packet). Non-trivial = a multi-packet file (> 1152 frames), a seek, or a corruption inside the header; distinct = distinct decoded choices."
	}
	fn assumptions(&self) -> Vec<String> {
		vec![
			"integer samples are expected as x / 2^(bits-1) (8-bit: (x - 128) / 128), floats as their f32 value".into(),
			"bit-exact streaming comparison uses file rates R with R * (1/R) == 1.0 (see the known finding of C04 for other rates)".into(),
			"after a streaming seek the frames already buffered ahead (up to 16384) are still played; the check looks for the contiguous run that starts at the requested frame".into(),
		]
	}
	fn tape_len(&self, _tier: Tier) -> usize {
		64
	}
	fn cases(&self, tier: Tier) -> u64 {
		tier.pick(8_000, 200_000)
	}
	fn case_time_limit_s(&self) -> u64 {
		120
	}
	fn level(&self) -> &'static str {
		"fault_enumeration"
	}

	fn run(&self, tape: &[u32], ctx: &mut Ctx) -> CaseResult {
		let mut src = Src::new(tape);
		let kind = src.weighted(&[4, 3, 4, 1]);
		let max_frames = ctx.tier.pick(5000, 40000);
		match kind {
			0 => {
				let spec = gen_spec(&mut src, max_frames);
				ctx.describe(|| format!("static decode of {spec:?}"));
				let w = encode(&spec);
				let r = monitor::catch(|| StaticSoundData::from_cursor(Cursor::new(w.bytes.clone())));
				let r = r.map_err(|info| Failure::panic("decode-", &info))?;
				if spec.channels > 2 {
					ensure!(matches!(r, Err(FromFileError::UnsupportedChannelConfiguration)) || (spec.frames == 0 && r.is_ok()), "multichannel-rejected", "a {}-channel file gave {:?}; {spec:?}", spec.channels, r.as_ref().map(|d| d.frames.len()).map_err(|e| format!("{e:?}")));
					return Ok(CaseInfo::new(&src, spec.frames > 1152, vec!["static-decode", "multichannel"]));
				}
				let d = r.map_err(|e| Failure::simple("valid-file-loads", format!("a valid WAV file failed to load: {e:?}; {spec:?}")))?;
				ensure!(d.sample_rate == spec.rate, "sample-rate-exact", "decoded sample rate {} but the file says {}; {spec:?}", d.sample_rate, spec.rate);
				ensure!(d.frames.len() == spec.frames, "frame-count-exact", "decoded {} frames, the file holds {}; {spec:?}", d.frames.len(), spec.frames);
				let want = expected_frames(&w, &spec);
				let ulps = if matches!(spec.enc, Enc::S32 | Enc::F64) { 1 } else { 0 };
				for i in 0..spec.frames {
					let (g, e) = (d.frames[i], want[i]);
					ensure!(ulp_close(g.left, e.left, ulps) && ulp_close(g.right, e.right, ulps), "samples-exact", "frame {i}: decoded {g:?}, encoded {e:?}; {spec:?}");
				}
				Ok(CaseInfo::new(&src, spec.frames > 1152, vec!["static-decode"]))
			}
			1 => {
				let mut spec = gen_spec(&mut src, max_frames);
				spec.channels = spec.channels.min(2);
				spec.rate = src.pick(&EXACT_RATES);
				spec.frames = spec.frames.max(1);
				let with_seeks = src.chance(1, 2);
				if with_seeks {
					spec.ramp = true;
					spec.enc = src.pick(&[Enc::S24, Enc::F32, Enc::S32]);
					// a stream shorter than the 16384-frame ring has been decoded to its end before any
					// seek can arrive: such seeks are lost (known finding of C07)
					spec.frames = src.usize_in(2000, ctx.tier.pick(40000, 100000));
					if !ctx.include_known {
						spec.frames = spec.frames.max(24000);
					}
				}
				let mut start = if src.chance(1, 3) { src.usize_in(0, spec.frames - 1) } else { 0 };
				if with_seeks && !ctx.include_known {
					start = start.min(spec.frames - 20000);
				}
				let mut seeks = vec![];
				let mut pre_by: Vec<f64> = vec![];
				if with_seeks {
					// the decoder runs up to 16384 frames ahead and ends when it has decoded the last frame;
					// a seek issued after that is lost (known finding). Unless known classes are wanted,
					// every seek is issued while at least 20000 frames remain to be decoded
					let safe = !ctx.include_known;
					if safe {
						ctx.count("seek-sequences-kept-inside-the-decoders-lifetime", 1);
					}
					let mut at = 0;
					for _ in 0..src.usize_in(1, 3) {
						let (mut target, step) = if safe { (src.usize_in(0, spec.frames - 20000), src.usize_in(0, 5)) } else { (src.usize_in(0, spec.frames - 1), src.usize_in(0, 40)) };
						// packet starts (WAV is read in packets of 1152 frames) and the very beginning are
						// where a decoder's seek bookkeeping has its edge
						if src.chance(2, 5) {
							target = target / 1152 * 1152;
						}
						at += step;
						seeks.push((at, target as f64 / spec.rate as f64));
						pre_by.push(if src.chance(1, 2) { src.pick(&[1.0f64, -1.0]) * src.usize_in(1, 3000) as f64 / spec.rate as f64 } else { 0.0 });
					}
				}
				// a third of the seek cases loop over a region of the file, and most of their seeks then aim
				// at or past the loop end: the transport folds such a target back into the region while the
				// decoder was sent to the unfolded one. (Drawn last, so that older tapes decode as before.)
				let mut lp: Option<(usize, usize)> = None;
				if with_seeks && !seeks.is_empty() && src.chance(1, 3) {
					let ls = src.usize_in(0, spec.frames - 20000);
					let le = match src.weighted(&[2, 2, 1]) {
						0 => src.usize_in(ls + 1, spec.frames),
						1 => (ls + src.usize_in(1, 4000)).min(spec.frames),
						_ => spec.frames,
					};
					// playback stays in front of the loop end, so the decoder never runs out of file
					start = start.min(le - 1);
					for s in seeks.iter_mut() {
						if le < spec.frames && src.chance(2, 3) {
							let t = src.usize_in(le, spec.frames - 1);
							s.1 = t as f64 / spec.rate as f64;
						}
					}
					lp = Some((ls, le));
				}
				ctx.describe(|| format!("streaming vs static of {spec:?}, start frame {start}, seeks {seeks:?}, each preceded by seek_by {pre_by:?}{}", lp.map(|l| format!(", loop region {l:?}")).unwrap_or_default()));
				let w = encode(&spec);
				let st = StaticSoundData::from_cursor(Cursor::new(w.bytes.clone())).map_err(|e| Failure::simple("valid-file-loads", format!("{e:?}; {spec:?}")))?;
				let data = monitor::catch(|| StreamingSoundData::from_cursor(Cursor::new(w.bytes.clone()))).map_err(|info| Failure::panic("decode-", &info))?;
				let data = data.map_err(|e| Failure::simple("valid-file-streams", format!("a valid WAV file could not be opened for streaming: {e:?}; {spec:?}")))?;
				let mut data = data.start_position(PlaybackPosition::Samples(start));
				if let Some((ls, le)) = lp {
					data = data.loop_region(Region {
						start: PlaybackPosition::Samples(ls),
						end: EndPosition::Custom(PlaybackPosition::Samples(le)),
					});
				}
				let (out, err, marks) = stream_all(data, spec.rate, spec.frames * (seeks.len() + 1) + 40000, &seeks, &pre_by)?;
				ensure!(err.is_none(), "valid-file-streams", "streaming a valid file reported {err:?}; {spec:?}");
				if seeks.is_empty() {
					let want = &st.frames[start..];
					ensure!(out.len() >= want.len(), "streaming-equals-loading", "streaming produced {} frames, loading gives {} from frame {start}; {spec:?}", out.len(), want.len());
					for i in 0..want.len() {
						ensure!(out[i] == want[i], "streaming-equals-loading", "output frame {i} (file frame {}): streamed {:?}, loaded {:?}; {spec:?}", start + i, out[i], want[i]);
					}
					for (i, f) in out.iter().enumerate().skip(want.len()) {
						ensure!(*f == Frame::ZERO, "streaming-equals-loading", "output frame {i} after the end of the file = {f:?}; {spec:?}");
					}
				} else {
					// index-coded: map every output frame back to its file index
					let index_of = |f: &Frame| -> Option<usize> { st.frames.iter().position(|x| x == f).filter(|_| *f != Frame::ZERO || st.frames[0] == Frame::ZERO) };
					// (linear search is too slow for long files: decode the ramp arithmetically)
					let _ = index_of;
					let decode_index = |f: &Frame| -> Option<usize> {
						let v = f.left;
						let i = match spec.enc {
							Enc::S24 | Enc::F32 => (v as f64 * 8388608.0).round() as i64,
							_ => ((v as f64 * 2147483648.0) / 256.0).round() as i64,
						} - 1;
						if i >= 0 && (i as usize) < spec.frames && st.frames[i as usize] == *f {
							Some(i as usize)
						} else {
							None
						}
					};
					// the output is a sequence of contiguous runs of file frames; every run after a seek
					// mark must begin at a requested frame
					let raw_targets: Vec<usize> = seeks.iter().map(|(_, p)| (p * spec.rate as f64).round() as usize).collect();
					// inside a loop region a seek target is folded into the region: down by whole region
					// lengths when it lies at or past the loop end, up when it lies before the loop start
					// and behind the playhead (which of the two applies depends on where playback is when
					// the command is read, so the unfolded target is accepted too)
					let folded = |t: usize| -> Vec<usize> {
						let mut v = vec![t];
						if let Some((ls, le)) = lp {
							let (mut d, mut u) = (t, t);
							while d >= le {
								d -= le - ls;
							}
							while u < ls {
								u += le - ls;
							}
							v.push(d);
							v.push(u);
						}
						v
					};
					let targets: Vec<usize> = raw_targets.iter().flat_map(|t| folded(*t)).collect();
					let last_targets: Vec<usize> = raw_targets.last().map(|t| folded(*t)).unwrap_or_default();
					let mut prev: Option<usize> = None;
					let mut first_index: Option<usize> = None;
					let mut jumps = vec![];
					for (i, f) in out.iter().enumerate() {
						match decode_index(f) {
							Some(idx) => {
								if let Some(p) = prev {
									if idx != p + 1 {
										jumps.push((i, p, idx));
									}
								} else {
									// a seek issued before the decoder's first step replaces the start position
									ensure!(idx == start || targets.contains(&idx), "streaming-equals-loading", "first audible frame is file frame {idx}, expected {start} (or a seek target); {spec:?}");
									first_index = Some(idx);
								}
								prev = Some(idx);
							}
							None => {
								// silence is only allowed after the file's last frame
								ensure!(*f == Frame::ZERO && prev.map(|p| p + 1 == spec.frames).unwrap_or(false) || (i == 0 && *f == Frame::ZERO && spec.frames == 0), "no-invented-samples", "output frame {i} = {f:?} is not a frame of the file (previous file frame {prev:?}); {spec:?} seeks {seeks:?}");
								prev = Some(spec.frames - 1);
							}
						}
					}
					// the last seek is never superseded: playback must end up at its target
					if let Some(last_raw) = raw_targets.last() {
						// (a seek whose target happens to be the very frame the decoder would have delivered
						// next leaves no discontinuity: the ring holds `pushed` frames - one of them the
						// pre-seeded silent one - when the command is written)
						let invisible = marks.last().map(|(_, pushed)| {
							let next_out = (*pushed as usize).saturating_sub(1);
							last_targets.iter().any(|last| (next_out.saturating_sub(2)..=next_out + 2).any(|i| i > 0 && out.get(i).and_then(&decode_index) == Some(*last) && out.get(i - 1).and_then(&decode_index) == Some(last.wrapping_sub(1))))
						}).unwrap_or(false);
						let last = last_raw;
						let took_effect = jumps.iter().any(|(_, _, to)| last_targets.contains(to)) || first_index.map(|f| last_targets.contains(&f)).unwrap_or(false) || invisible;
						if !took_effect {
							let sig = if marks.last().map(|m| m.0) == Some(true) { "streaming-seek-takes-effect:decoder-already-finished" } else { "streaming-seek-takes-effect" };
							return Err(Failure::new("streaming-seek-takes-effect", sig, format!("seek_to(file frame {last}) never took effect: the only jumps in the output are {jumps:?}; {spec:?} seeks {seeks:?}")));
						}
					}
					for (i, from, to) in &jumps {
						let wrap = lp.map(|(ls, le)| *from == le - 1 && *to == ls).unwrap_or(false);
						ensure!(targets.contains(to) || wrap, "seek-lands-on-requested-frame", "at output frame {i} playback jumped from file frame {from} to {to}, which is none of the requested seek targets {targets:?} (loop region {lp:?}); {spec:?}");
					}
				}
				let mut classes = vec!["streaming-vs-static"];
				if with_seeks {
					classes.push("seeks");
					if lp.is_some() {
						classes.push("seeks-in-a-loop-region");
					}
				}
				Ok(CaseInfo::new(&src, spec.frames > 1152 || with_seeks, classes))
			}
			2 => {
				let mut spec = gen_spec(&mut src, 3000);
				spec.channels = spec.channels.min(2);
				spec.frames = spec.frames.max(1);
				let w = encode(&spec);
				let original = expected_frames(&w, &spec);
				let mut bytes = w.bytes.clone();
				let truncate = src.bool();
				let header_hit;
				if truncate {
					let cut = match src.weighted(&[2, 3]) {
						0 => src.usize_in(0, w.data_offset),
						_ => src.usize_in(w.data_offset, bytes.len()),
					};
					header_hit = cut < w.data_offset;
					bytes.truncate(cut);
					ctx.describe(|| format!("truncation of {spec:?} at byte {cut} of {}", w.bytes.len()));
				} else {
					let off = match src.weighted(&[3, 1]) {
						0 => src.usize_in(0, w.data_offset - 1),
						_ => src.usize_in(0, bytes.len() - 1),
					};
					header_hit = off < w.data_offset;
					let newv = match src.weighted(&[2, 2, 3]) {
						0 => 0x00,
						1 => 0xFF,
						_ => src.below(256) as u8,
					};
					ctx.describe(|| format!("corruption of {spec:?}: byte {off} {:#04x} -> {newv:#04x}", bytes[off]));
					bytes[off] = newv;
					// a sample rate of zero in the header makes symphonia panic (known finding)
					if bytes.len() >= 28 && bytes[24..28] == [0, 0, 0, 0] && ctx.exclude("wav-header-with-sample-rate-zero") {
						bytes[24] = 1;
					}
				}
				let data_capacity = bytes.len().saturating_sub(w.data_offset.min(bytes.len()));
				let r = monitor::catch(|| StaticSoundData::from_cursor(Cursor::new(bytes.clone()))).map_err(|info| Failure::panic("decode-", &info))?;
				if let Ok(d) = &r {
					if truncate {
						ensure!(d.frames.len() <= original.len(), "truncation-gives-a-prefix", "a truncated file decoded to {} frames, the original has {}; {spec:?}", d.frames.len(), original.len());
						if !header_hit {
							for i in 0..d.frames.len() {
								ensure!(d.frames[i] == original[i] || ulp_close(d.frames[i].left, original[i].left, 1), "truncation-gives-a-prefix", "frame {i} of the truncated file = {:?}, original {:?}; {spec:?}", d.frames[i], original[i]);
							}
						}
					} else {
						// whatever the corrupted header now claims, the samples come from the file's bytes:
						// at most one frame per byte of data
						ensure!(d.frames.len() <= data_capacity.max(bytes.len()), "no-invented-samples", "a {}-byte file decoded to {} frames; {spec:?}", bytes.len(), d.frames.len());
					}
				}
				// streaming the damaged file: open + decode must not panic either
				let s = monitor::catch(|| StreamingSoundData::from_cursor(Cursor::new(bytes.clone()))).map_err(|info| Failure::panic("decode-", &info))?;
				if let Ok(data) = s {
					let claimed = data.num_frames();
					let secs = data.duration().as_secs_f64();
					if claimed < 200_000 && claimed > 0 && secs > 0.0 {
						let rate = ((claimed as f64 / secs).round() as u32).max(1);
						let (out, _err, _) = stream_all(data, rate, claimed + 2048, &[], &[])?;
						let nonzero = out.iter().filter(|f| **f != Frame::ZERO).count();
						ensure!(nonzero <= bytes.len(), "no-invented-samples", "streaming a {}-byte damaged file produced {nonzero} non-silent frames; {spec:?}", bytes.len());
					}
				}
				Ok(CaseInfo::new(&src, header_hit, vec![if truncate { "truncation" } else { "corruption" }]))
			}
			_ => {
				let list = asset_list();
				if list.is_empty() {
					return Ok(CaseInfo::new(&src, false, vec!["no-assets"]));
				}
				let path = &list[src.index(list.len())];
				ctx.describe(|| format!("asset {}", path.display()));
				let bytes = std::fs::read(path).map_err(|e| Failure::simple("setup", format!("{e}")))?;
				let st = monitor::catch(|| StaticSoundData::from_cursor(Cursor::new(bytes.clone()))).map_err(|info| Failure::panic("decode-", &info))?;
				let st = st.map_err(|e| Failure::simple("asset-loads", format!("{}: {e:?}", path.display())))?;
				let data = StreamingSoundData::from_cursor(Cursor::new(bytes.clone())).map_err(|e| Failure::simple("asset-streams", format!("{}: {e:?}", path.display())))?;
				ensure!(exact(st.sample_rate), "setup", "asset rate {}", st.sample_rate);
				let n = st.frames.len();
				let compressed = path.extension().and_then(|e| e.to_str()) != Some("wav");
				let mut start = if src.bool() { src.usize_in(0, n.saturating_sub(1)) } else { 0 };
				// (streaming a compressed file from a non-zero start position was a finding, fixed in
				// /repo 4a3a6aa; its witness is replayed on every run)
				// a third of the cases loop over a region of the file: every wrap sends the decoder back
				// to the loop start, which for a compressed file is a seek into the middle of a packet
				let mut lp: Option<(usize, usize)> = None;
				if n > 4 && src.chance(1, 3) {
					let ls = src.usize_in(0, n - 2);
					let le = match src.weighted(&[2, 2, 1]) {
						0 => src.usize_in(ls + 1, n),
						1 => (ls + src.usize_in(1, 3000)).min(n),
						_ => n,
					};
					start = start.min(le - 1);
					lp = Some((ls, le));
				}
				ctx.describe(|| format!("asset {}, start frame {start}, loop region {lp:?}", path.display()));
				let mut data = data.start_position(PlaybackPosition::Samples(start));
				if let Some((ls, le)) = lp {
					data = data.loop_region(Region {
						start: PlaybackPosition::Samples(ls),
						end: EndPosition::Custom(PlaybackPosition::Samples(le)),
					});
				}
				let limit = ctx.tier.pick(30_000, 200_000);
				let (out, err, _) = stream_all(data, st.sample_rate, limit, &[], &[])?;
				if let Some((ls, le)) = lp {
					ensure!(err.is_none(), "asset-streams", "{}: streaming from frame {start} with loop region {lp:?} reported {err:?}", path.display());
					// what a loaded copy plays: from the start to the loop end, then the region again and again
					let mut idx = start;
					for (i, f) in out.iter().enumerate().take(limit) {
						ensure!(*f == st.frames[idx], "streaming-equals-loading", "{}: streaming from frame {start} with loop region {lp:?}: output frame {i} = {f:?}, the loaded file has {:?} at frame {idx}", path.display(), st.frames[idx]);
						idx += 1;
						if idx >= le {
							idx = ls;
						}
					}
					return Ok(CaseInfo::new(&src, true, vec!["asset", "asset-looping"]));
				}
				ensure!(err.is_none() || out.len() >= (n - start).min(limit), "asset-streams", "{}: streaming reported {err:?}", path.display());
				let m = (n - start).min(out.len()).min(limit);
				for i in 0..m {
					if out[i] != st.frames[start + i] && compressed && start != 0 {
						return Err(Failure::new("streaming-equals-loading", "streaming-equals-loading:compressed-stream-from-non-zero-start", format!("{}: streaming from frame {start}: output frame {i} = {:?}, the loaded file has {:?} there", path.display(), out[i], st.frames[start + i])));
					}
					ensure!(out[i] == st.frames[start + i], "streaming-equals-loading", "{}: output frame {i} (file frame {}): streamed {:?}, loaded {:?}", path.display(), start + i, out[i], st.frames[start + i]);
				}
				Ok(CaseInfo::new(&src, true, vec!["asset"]))
			}
		}
	}
}

fn exact(r: u32) -> bool {
	r as f64 * (1.0 / r as f64) == 1.0
}
