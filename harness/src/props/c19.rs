//! C19 - unit conversions and clock-time arithmetic.

use crate::engine::{CaseInfo, CaseResult, Ctx, Failure, Property, Src, SweepResult, Tier};
use crate::ensure;
use kira::clock::{ClockSpeed, ClockTime};
use kira::info::MockInfoBuilder;
use kira::{Decibels, Easing, Frame, Mapping, Panning, PlaybackRate, Semitones};

pub struct C19;

/// relative tolerance of `as_amplitude` against 10^(dB/20) in f64: 1e-6 plus the error that the
/// f32 rounding of dB/20 alone induces for large |dB| (ln(10)/20 * 2^-24 * |dB| = 6.9e-9*|dB|).
fn db_tol(db: f32) -> f64 {
	1e-6 + 2e-8 * db.abs() as f64
}

fn check_db(db: f32) -> Result<(), Failure> {
	let a = Decibels(db).as_amplitude();
	if db == 0.0 {
		ensure!(a == 1.0, "db-zero-is-unity", "Decibels({db:?}).as_amplitude() = {a:?}, expected 1.0");
		return Ok(());
	}
	if db <= -60.0 {
		ensure!(a == 0.0, "db-silence", "Decibels({db:?}).as_amplitude() = {a:?}, expected 0.0");
		return Ok(());
	}
	let want = 10f64.powf(db as f64 / 20.0);
	if want > f32::MAX as f64 * (1.0 - 1e-5) {
		ensure!(a.is_infinite() || a as f64 >= f32::MAX as f64 * (1.0 - 1e-4), "db-law", "Decibels({db:?}).as_amplitude() = {a:?}, expected overflow (10^(dB/20) = {want:e})");
		return Ok(());
	}
	let rel = ((a as f64) - want).abs() / want;
	ensure!(a.is_finite() && rel <= db_tol(db), "db-law", "Decibels({db:?}).as_amplitude() = {a:?}, 10^(dB/20) = {want:?}, relative error {rel:e} > {:e}", db_tol(db));
	Ok(())
}

fn check_pan(p: f32) -> Result<(), Failure> {
	// a centred signal of level x
	for x in [1.0f32, 0.25, -0.5] {
		let f = Frame::from_mono(x).panned(Panning(p));
		let power = (f.left as f64).powi(2) + (f.right as f64).powi(2);
		let want = 2.0 * (x as f64).powi(2);
		ensure!((power - want).abs() <= 1e-6 * want.max(1.0), "pan-power", "Frame::from_mono({x}).panned({p:?}) = {f:?}: l^2+r^2 = {power}, expected {want}");
		if p == 0.0 {
			ensure!(f.left == x && f.right == x, "pan-centre", "centre panning changed the frame: {f:?}");
		}
		if p >= 1.0 {
			let g = Frame::from_mono(x).panned(Panning(1.0));
			ensure!(f == g, "pan-clamp", "panned({p:?}) = {f:?} differs from panned(1.0) = {g:?}");
			ensure!(f.left == 0.0, "pan-clamp", "hard right leaves signal in the left channel: {f:?}");
		}
		if p <= -1.0 {
			let g = Frame::from_mono(x).panned(Panning(-1.0));
			ensure!(f == g, "pan-clamp", "panned({p:?}) = {f:?} differs from panned(-1.0) = {g:?}");
			ensure!(f.right == 0.0, "pan-clamp", "hard left leaves signal in the right channel: {f:?}");
		}
	}
	// stereo: each channel only ever scaled by a gain in [0, sqrt(2)]
	let f = Frame::new(0.5, -0.25).panned(Panning(p));
	ensure!(f.left >= 0.0 && f.left <= 0.5 * 1.4142137 && f.right <= 0.0 && f.right >= -0.25 * 1.4142137, "pan-range", "panned({p:?}) of (0.5,-0.25) = {f:?}");
	Ok(())
}

/// order-preserving map from an index in 0..2^32 to f32 bit patterns: index ascending ==
/// value ascending over all non-NaN floats (-inf .. -0, +0 .. +inf).
fn ordered_f32(i: u32) -> f32 {
	let bits = if i < 0x8000_0000 { !i } else { i & 0x7fff_ffff };
	// i in 0..2^31: negative floats from most negative: !i has the sign bit set
	f32::from_bits(bits)
}

fn clock_total(t: ClockTime) -> (u64, f64) {
	(t.ticks, t.fraction)
}

fn diff(a: ClockTime, b: ClockTime) -> f64 {
	(a.ticks as i128 - b.ticks as i128) as f64 + (a.fraction - b.fraction)
}

fn gen_ticks(src: &mut Src) -> u64 {
	match src.weighted(&[3, 3, 2, 2]) {
		0 => src.int(0, 4) as u64,
		1 => src.int(0, 100_000) as u64,
		2 => (1u64 << src.int(10, 53)) - src.int(0, 2) as u64,
		_ => src.below(1u64 << 53),
	}
}

fn gen_fraction(src: &mut Src) -> f64 {
	match src.weighted(&[2, 2, 2, 4]) {
		0 => 0.0,
		1 => src.pick(&[1e-16, 1e-17, 5e-324, 2.220446049250313e-16, 1e-9]),
		2 => 1.0 - src.pick(&[1.1102230246251565e-16, 2.220446049250313e-16, 1e-15, 1e-9]),
		_ => src.f64_uniform(0.0, 1.0).min(1.0 - 1.1102230246251565e-16),
	}
}

fn gen_amount(src: &mut Src) -> f64 {
	match src.weighted(&[2, 3, 3, 2, 1]) {
		0 => src.pick(&[0.0, 1.0, 0.5, 2.0, 1e-17, 1e-16, 1e-9]),
		1 => src.f64_uniform(0.0, 4.0),
		2 => src.f64_uniform(0.0, 1e6),
		3 => src.int(0, 1 << 20) as f64 + src.pick(&[0.0, 0.5, 0.25, 1.0 - 2.220446049250313e-16]),
		_ => src.f64_log(1.0, 9.0e15),
	}
}

fn gen_easing(src: &mut Src) -> Easing {
	let k = src.below(7);
	let pi = src.int(1, 8) as i32;
	let pf = match src.weighted(&[2, 5, 2]) {
		0 => src.pick(&[1.0, 0.5, 2.0, 8.0, 0.01]),
		1 => src.f64_uniform(0.01, 8.0),
		_ => src.f64_log(1e-3, 8.0),
	};
	match k {
		0 => Easing::Linear,
		1 => Easing::InPowi(pi),
		2 => Easing::OutPowi(pi),
		3 => Easing::InOutPowi(pi),
		4 => Easing::InPowf(pf),
		5 => Easing::OutPowf(pf),
		_ => Easing::InOutPowf(pf),
	}
}

/// `Easing::apply` is crate-private; a mapping from [0,1] to [0.0,1.0] exposes it exactly
/// (`interpolate(0.0, 1.0, e) = 0.0 + 1.0 * e`).
fn ease(e: Easing, x: f64) -> f64 {
	Mapping {
		input_range: (0.0, 1.0),
		output_range: (0.0f64, 1.0f64),
		easing: e,
	}
	.map(x)
}

impl Property for C19 {
	fn id(&self) -> &'static str {
		"C19"
	}
	fn rule(&self) -> &'static str {
		"random cases: one of {decibels, panning, semitones, clock-speed units, clock-time add/sub/order, easing grid, mapping clamp} with boundary-biased inputs from the tape; sweeps: Decibels::as_amplitude and Frame::panned over f32 bit patterns in value order (quick: every 1021st pattern plus boundaries, thorough: all 2^32). A random case is non-trivial when at least one of its inputs is not a value from the repository's unit-test tables (0, 1, +-3, +-12, -60 dB; semitones 0,+-1,+-2; speeds 0.5/2/120); distinct = distinct decoded choices."
	}
	fn assumptions(&self) -> Vec<String> {
		vec![
			"reference 10^(dB/20) computed in f64; tolerance 1e-6 + 2e-8*|dB| relative (the second term is the error induced by rounding dB/20 to f32)".into(),
			"NaN bit patterns are outside 'ordered finite inputs' and are skipped".into(),
			"Easing::apply is observed through Mapping{(0,1)->(0.0,1.0)}.map, which adds 0.0 + 1.0*e (exact)".into(),
			"ClockTime comparisons use (ticks difference as integer) + (fraction difference) so ticks up to 2^53 lose nothing".into(),
		]
	}
	fn tape_len(&self, _tier: Tier) -> usize {
		24
	}
	fn cases(&self, tier: Tier) -> u64 {
		tier.pick(8_000_000, 60_000_000)
	}

	fn run(&self, tape: &[u32], ctx: &mut Ctx) -> CaseResult {
		let mut src = Src::new(tape);
		let kind = src.below(8);
		let mut nontrivial = true;
		let class: &'static str;
		match kind {
			0 => {
				class = "decibels";
				let db = match src.weighted(&[2, 4, 2, 2]) {
					0 => {
						nontrivial = false;
						src.pick(&[0.0f32, -60.0, 3.0, 12.0, -3.0, -12.0])
					}
					1 => src.f64_uniform(-70.0, 30.0) as f32,
					2 => src.f64_uniform(-1000.0, 1000.0) as f32,
					_ => f32::from_bits(src.pick(&[(-60.0f32).to_bits() - 1, (-60.0f32).to_bits() + 1, 0x0000_0001, 0x8000_0001, 0x8000_0000])),
				};
				ctx.describe(|| format!("Decibels({db:?}).as_amplitude()"));
				check_db(db)?;
				// monotone against a nearby larger value
				let db2 = db + src.f64_uniform(0.0, 5.0) as f32;
				let (a, b) = (Decibels(db).as_amplitude(), Decibels(db2).as_amplitude());
				ensure!(a <= b, "db-monotone", "Decibels({db:?}) -> {a:?} > Decibels({db2:?}) -> {b:?}");
			}
			1 => {
				class = "panning";
				let p = match src.weighted(&[2, 5, 2]) {
					0 => src.pick(&[0.0f32, -1.0, 1.0, 0.5, -0.5]),
					1 => src.f64_uniform(-1.0, 1.0) as f32,
					_ => src.f64_uniform(-100.0, 100.0) as f32,
				};
				ctx.describe(|| format!("Frame::panned(Panning({p:?}))"));
				check_pan(p)?;
			}
			2 => {
				class = "semitones";
				let s = match src.weighted(&[2, 5, 2]) {
					0 => {
						nontrivial = false;
						src.pick(&[0.0, 1.0, 2.0, -1.0, -2.0])
					}
					1 => src.f64_uniform(-48.0, 48.0),
					_ => src.f64_uniform(-240.0, 240.0),
				};
				ctx.describe(|| format!("Semitones({s:?}) vs Semitones({s:?} + 12)"));
				let r1 = PlaybackRate::from(Semitones(s)).0;
				let r2 = PlaybackRate::from(Semitones(s) + Semitones(12.0)).0;
				let rel = (r2 - 2.0 * r1).abs() / (2.0 * r1);
				ensure!(rel <= 1e-12, "semitones-octave", "Semitones({s}) -> {r1}, Semitones({s}+12) -> {r2}: relative error {rel:e}");
				if s == 0.0 {
					ensure!(r1 == 1.0, "semitones-octave", "Semitones(0) -> {r1}");
				}
				let want = 2f64.powf(s / 12.0);
				ensure!((r1 - want).abs() <= 1e-12 * want, "semitones-law", "Semitones({s}) -> {r1}, expected {want}");
			}
			3 => {
				class = "clock-speed";
				let v = match src.weighted(&[2, 5, 2]) {
					0 => {
						nontrivial = false;
						src.pick(&[0.5, 2.0, 120.0])
					}
					1 => src.f64_log(1e-6, 1e6),
					_ => src.f64_uniform(0.01, 1000.0),
				};
				ctx.describe(|| format!("ClockSpeed units for value {v:?}"));
				for (name, s) in [("SecondsPerTick", ClockSpeed::SecondsPerTick(v)), ("TicksPerSecond", ClockSpeed::TicksPerSecond(v)), ("TicksPerMinute", ClockSpeed::TicksPerMinute(v))] {
					let spt = s.as_seconds_per_tick();
					let tps = s.as_ticks_per_second();
					let tpm = s.as_ticks_per_minute();
					ensure!((spt * tps - 1.0).abs() <= 1e-12, "clock-speed-units", "{name}({v}): seconds/tick {spt} * ticks/second {tps} != 1");
					ensure!((tpm - 60.0 * tps).abs() <= 1e-12 * tpm.abs(), "clock-speed-units", "{name}({v}): ticks/minute {tpm} != 60 * ticks/second {tps}");
					ensure!(spt > 0.0 && tps > 0.0 && tpm > 0.0, "clock-speed-units", "{name}({v}) gave a non-positive conversion");
				}
				ensure!(ClockSpeed::SecondsPerTick(v).as_seconds_per_tick() == v && ClockSpeed::TicksPerSecond(v).as_ticks_per_second() == v && ClockSpeed::TicksPerMinute(v).as_ticks_per_minute() == v, "clock-speed-units", "identity conversion changed {v}");
			}
			4 | 5 => {
				class = "clock-time";
				let mut mb = MockInfoBuilder::new();
				let clock = mb.add_clock(true, 0, 0.0);
				let other = mb.add_clock(true, 0, 0.0);
				let t = ClockTime {
					clock,
					ticks: gen_ticks(&mut src),
					fraction: gen_fraction(&mut src),
				};
				let x = gen_amount(&mut src);
				let use_u64 = src.chance(1, 4);
				ctx.describe(|| format!("t = (ticks {}, fraction {:e}); x = {:e}; integer ops = {}", t.ticks, t.fraction, x, use_u64));
				let frac_ok = |c: ClockTime| c.fraction >= 0.0 && c.fraction < 1.0;
				if use_u64 {
					let n = x.min(9.0e15) as u64;
					let a = t + n;
					ensure!(a.ticks == t.ticks + n && a.fraction == t.fraction, "clocktime-u64", "{t:?} + {n} = {a:?}");
					let b = a - n;
					ensure!(clock_total(b) == clock_total(t), "clocktime-roundtrip", "({t:?} + {n}) - {n} = {b:?}");
					// subtraction never wraps below zero
					let big = t.ticks + 1 + n;
					let c = t - big;
					ensure!(c.ticks == 0, "clocktime-sub-saturates", "{t:?} - {big}u64 = {c:?} (expected saturation at zero ticks)");
					let mut d = t;
					d -= big;
					ensure!(d.ticks == 0, "clocktime-sub-saturates", "{t:?} -= {big}u64 gives {d:?}");
				} else {
					let a = t + x;
					ensure!(frac_ok(a), "clocktime-fraction-range", "{t:?} + {x:e} = {a:?}");
					let err = (diff(a, t) - x).abs();
					ensure!(err <= 1e-9 * x.max(1.0), "clocktime-add", "{t:?} + {x:e} = {a:?}: moved by {:e}", diff(a, t));
					let b = a - x;
					ensure!(frac_ok(b), "clocktime-fraction-range", "({t:?} + {x:e}) - {x:e} = {b:?}");
					let e = diff(b, t).abs();
					ensure!(e <= 1e-9 * x.max(1.0), "clocktime-roundtrip", "({t:?} + {x:e}) - {x:e} = {b:?}: off by {e:e}");
					// plain subtraction: moves back by x, saturating at zero, fraction stays in range
					let c = t - x;
					ensure!(frac_ok(c), "clocktime-fraction-range", "{t:?} - {x:e} = {c:?}");
					let total = t.ticks as f64 + t.fraction;
					let tol = 1e-9 * x.max(1.0);
					if x > total * (1.0 + 1e-9) + 1e-9 {
						ensure!(c.ticks == 0 && c.fraction.abs() <= tol, "clocktime-sub-saturates", "{t:?} - {x:e} = {c:?} (expected saturation at zero)");
					} else {
						let moved = diff(t, c);
						ensure!((moved - x.min(total)).abs() <= tol, "clocktime-sub", "{t:?} - {x:e} = {c:?}: moved back by {moved:e}");
					}
					// negative amounts are the other operation
					let d = t + (-x);
					ensure!(clock_total(d) == clock_total(c), "clocktime-neg", "{t:?} + (-{x:e}) = {d:?} but {t:?} - {x:e} = {c:?}");
				}
				// ordering agrees with (ticks, fraction); different clocks are unordered
				let u = ClockTime {
					clock,
					ticks: if src.bool() { t.ticks } else { gen_ticks(&mut src) },
					fraction: gen_fraction(&mut src),
				};
				let want = (t.ticks, t.fraction).partial_cmp(&(u.ticks, u.fraction));
				ensure!(t.partial_cmp(&u) == want, "clocktime-order", "{t:?} vs {u:?}: {:?}, expected {want:?}", t.partial_cmp(&u));
				let real = diff(t, u);
				if real > 0.0 {
					ensure!(t > u, "clocktime-order", "{t:?} should be after {u:?}");
				} else if real < 0.0 {
					ensure!(t < u, "clocktime-order", "{t:?} should be before {u:?}");
				}
				let foreign = ClockTime { clock: other, ..u };
				ensure!(t.partial_cmp(&foreign).is_none(), "clocktime-order", "times of different clocks compared as {:?}", t.partial_cmp(&foreign));
			}
			6 => {
				class = "easing";
				let e = gen_easing(&mut src);
				ctx.describe(|| format!("{e:?} on the 4097-point grid"));
				let v0 = ease(e, 0.0);
				let v1 = ease(e, 1.0);
				ensure!(v0 == 0.0, "easing-endpoints", "{e:?}.apply(0) = {v0:e}");
				ensure!(v1 == 1.0, "easing-endpoints", "{e:?}.apply(1) = {v1:e}");
				let mut prev = v0;
				for i in 1..=4096 {
					let x = i as f64 / 4096.0;
					let v = ease(e, x);
					ensure!(v.is_finite() && v >= -1e-15 && v <= 1.0 + 1e-15, "easing-range", "{e:?}.apply({x}) = {v:e}");
					ensure!(v >= prev - 1e-15, "easing-monotone", "{e:?}: apply({}) = {prev:e} > apply({x}) = {v:e}", (i - 1) as f64 / 4096.0);
					prev = v;
				}
			}
			_ => {
				class = "mapping";
				let a = src.f64_in(-100.0, 100.0);
				let mut b = src.f64_in(-100.0, 100.0);
				if a == b {
					// empty input range: division by zero, a known-finding class of C01 (NaN
					// parameter); not part of "clamps its input to the input range"
					b = a + 1.0;
				}
				let (o0, o1) = (src.f64_in(-1000.0, 1000.0), src.f64_in(-1000.0, 1000.0));
				let easing = gen_easing(&mut src);
				let m = Mapping {
					input_range: (a, b),
					output_range: (o0, o1),
					easing,
				};
				let input = match src.weighted(&[2, 2, 4]) {
					0 => a.min(b) - src.f64_log(1e-9, 1e9),
					1 => a.max(b) + src.f64_log(1e-9, 1e9),
					_ => src.f64_in(a.min(b), a.max(b)),
				};
				ctx.describe(|| format!("{m:?}.map({input:e})"));
				let out = m.map(input);
				let (lo, hi) = (o0.min(o1), o0.max(o1));
				let slack = 1e-9 * (hi - lo).max(1.0);
				ensure!(out.is_finite() && out >= lo - slack && out <= hi + slack, "mapping-clamp", "{m:?}.map({input}) = {out} leaves the output range");
				// clamped: an input beyond an end of the input range maps like that end
				let t = (input - a) / (b - a);
				if t <= 0.0 {
					ensure!(out == m.map(a) && (out - o0).abs() <= slack, "mapping-clamp", "{m:?}.map({input}) = {out}, input-range start maps to {}", m.map(a));
				} else if t >= 1.0 {
					ensure!(out == m.map(b) && (out - o1).abs() <= slack, "mapping-clamp", "{m:?}.map({input}) = {out}, input-range end maps to {}", m.map(b));
				}
				// f32-typed outputs (Decibels) clamp the same way
				let md = Mapping {
					input_range: (a, b),
					output_range: (Decibels(o0 as f32 / 10.0), Decibels(o1 as f32 / 10.0)),
					easing,
				};
				let od = md.map(input).0;
				let (lo, hi) = ((o0 as f32 / 10.0).min(o1 as f32 / 10.0), (o0 as f32 / 10.0).max(o1 as f32 / 10.0));
				ensure!(od >= lo - 1e-3 && od <= hi + 1e-3, "mapping-clamp", "{md:?}.map({input}) = {od}");
			}
		}
		Ok(CaseInfo::new(&src, nontrivial, vec![class]))
	}

	fn sweep(&self, tier: Tier, shard: usize, nshards: usize, _ctx: &mut Ctx) -> SweepResult {
		let mut r = SweepResult::default();
		let step: u64 = tier.pick(1021, 1);
		let total: u64 = 1 << 32;
		let lo = total * shard as u64 / nshards as u64;
		let hi = total * (shard as u64 + 1) / nshards as u64;
		// one index before the range so monotonicity is checked across shard boundaries
		let mut prev: Option<(f32, f32)> = None;
		let mut i = lo.saturating_sub(step);
		while i < hi {
			let x = ordered_f32(i as u32);
			if !x.is_nan() {
				r.evaluations += 1;
				if let Err(f) = check_db(x) {
					r.failures.push((vec![], f));
					break;
				}
				let a = Decibels(x).as_amplitude();
				if let Some((px, pa)) = prev {
					if !(pa <= a) {
						r.failures.push((vec![], Failure::simple("db-monotone", format!("Decibels({px:?}) -> {pa:?} but Decibels({x:?}) -> {a:?}"))));
						break;
					}
				}
				prev = Some((x, a));
				if x.is_finite() {
					if let Err(f) = check_pan(x) {
						r.failures.push((vec![], f));
						break;
					}
				}
				if x != 0.0 && x != -60.0 {
					r.nontrivial += 1;
				}
			}
			i += step;
		}
		// boundaries (every shard checks them; cheap)
		for b in [0.0f32, -0.0, -60.0, f32::from_bits((-60.0f32).to_bits() - 1), f32::from_bits((-60.0f32).to_bits() + 1), f32::MIN_POSITIVE, -f32::MIN_POSITIVE, f32::MAX, f32::MIN, f32::INFINITY, f32::NEG_INFINITY, 1.0, -1.0] {
			r.evaluations += 1;
			if let Err(f) = check_db(b) {
				r.failures.push((vec![], f));
			}
			if b.is_finite() {
				if let Err(f) = check_pan(b) {
					r.failures.push((vec![], f));
				}
			}
		}
		r.exhaustive = step == 1;
		r.note = format!("Decibels::as_amplitude (law, monotone in value order) and Frame::panned (power, centre, clamp) over f32 bit patterns, stride {step}");
		r
	}
}
