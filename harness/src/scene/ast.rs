//! The program AST: a configuration plus a sequence of manager / handle operations and device
//! callbacks. Decoded from the tape by `gen`, executed against a real `AudioManager` by `exec`.

use super::fx::FxSpec;
use kira::Easing;

#[derive(Debug, Clone, Copy, PartialEq)]
pub enum Link {
	Fixed,
	/// linked to the modulator in slot i (may be dropped: a stale id)
	Mod(usize),
	ListenerDistance,
}

/// A `Value<T>` over a scalar domain: `x` is the fixed value (or the first output of the mapping).
#[derive(Debug, Clone, Copy, PartialEq)]
pub struct VSpec {
	pub link: Link,
	pub x: f64,
	pub y: f64,
	pub in0: f64,
	pub in1: f64,
	pub easing: Easing,
}

impl VSpec {
	pub fn fixed(x: f64) -> Self {
		Self {
			link: Link::Fixed,
			x,
			y: x,
			in0: 0.0,
			in1: 1.0,
			easing: Easing::Linear,
		}
	}
	pub fn is_fixed(&self) -> bool {
		self.link == Link::Fixed
	}
}

#[derive(Debug, Clone, Copy, PartialEq)]
pub enum StartSpec {
	Immediate,
	Delayed(f64),
	/// clock slot, ticks, fraction
	Clock(usize, u64, f64),
}

#[derive(Debug, Clone, Copy, PartialEq)]
pub struct TweenSpec {
	pub start: StartSpec,
	pub dur_s: f64,
	pub easing: Easing,
}

impl TweenSpec {
	pub const INSTANT: TweenSpec = TweenSpec {
		start: StartSpec::Immediate,
		dur_s: 0.0,
		easing: Easing::Linear,
	};
}

#[derive(Debug, Clone, Copy, PartialEq)]
pub enum SpeedUnit {
	SecondsPerTick,
	TicksPerSecond,
	TicksPerMinute,
}

#[derive(Debug, Clone, Copy, PartialEq)]
pub struct SpeedSpec {
	pub unit: SpeedUnit,
	pub v: VSpec,
}

#[derive(Debug, Clone, Copy, PartialEq)]
pub enum Content {
	Noise(u32),
	/// frame i = (i+1)/len
	Ramp,
	Dc(f32, f32),
	Sine(f64),
}

#[derive(Debug, Clone, Copy, PartialEq)]
pub enum Pos {
	Seconds(f64),
	Samples(usize),
}

#[derive(Debug, Clone, Copy, PartialEq)]
pub struct RegionSpec {
	pub start: Pos,
	/// None = end of audio
	pub end: Option<Pos>,
}

#[derive(Debug, Clone, PartialEq)]
pub struct SoundSettings {
	pub start_time: StartSpec,
	pub start_position: Pos,
	pub loop_region: Option<RegionSpec>,
	pub reverse: bool,
	pub volume: VSpec,
	pub rate: VSpec,
	pub panning: VSpec,
	pub fade_in: Option<TweenSpec>,
}

#[derive(Debug, Clone, PartialEq)]
pub struct StaticSpec {
	pub len: usize,
	pub sample_rate: u32,
	pub content: Content,
	pub slice: Option<(usize, usize)>,
	pub settings: SoundSettings,
}

#[derive(Debug, Clone, PartialEq)]
pub struct StreamSpec {
	pub len: usize,
	pub sample_rate: u32,
	pub content: Content,
	pub slice: Option<(usize, usize)>,
	pub packets: Vec<usize>,
	pub seek_granularity: usize,
	pub settings: SoundSettings,
}

#[derive(Debug, Clone, Copy, PartialEq)]
pub enum Where {
	Main,
	Track(usize),
}

#[derive(Debug, Clone, PartialEq)]
pub struct SpatialSpec {
	pub listener: usize,
	pub position: [f32; 3],
	pub distances: (f32, f32),
	pub attenuation: Option<Easing>,
	pub strength: VSpec,
}

#[derive(Debug, Clone, PartialEq)]
pub struct TrackSpec {
	pub parent: Where,
	pub spatial: Option<SpatialSpec>,
	pub volume: VSpec,
	pub effects: Vec<FxSpec>,
	pub sends: Vec<(usize, VSpec)>,
	pub persist: bool,
	pub sound_capacity: usize,
	pub sub_track_capacity: usize,
}

#[derive(Debug, Clone, Copy, PartialEq)]
pub enum WaveSpec {
	Sine,
	Triangle,
	Saw,
	Pulse(f64),
}

#[derive(Debug, Clone, PartialEq)]
pub struct LfoSpec {
	pub waveform: WaveSpec,
	pub frequency: VSpec,
	pub amplitude: VSpec,
	pub offset: VSpec,
	pub phase: f64,
}

#[derive(Debug, Clone, PartialEq)]
pub enum ClockCmd {
	Start,
	Pause,
	Stop,
	SetSpeed(SpeedSpec, TweenSpec),
}

#[derive(Debug, Clone, PartialEq)]
pub enum LfoCmd {
	Waveform(WaveSpec),
	Frequency(VSpec, TweenSpec),
	Amplitude(VSpec, TweenSpec),
	Offset(VSpec, TweenSpec),
	Phase(f64),
}

#[derive(Debug, Clone, PartialEq)]
pub enum TrackCmd {
	Volume(VSpec, TweenSpec),
	Pause(TweenSpec),
	Resume(TweenSpec),
	ResumeAt(StartSpec, TweenSpec),
	Send(usize, VSpec, TweenSpec),
	Position([f32; 3], TweenSpec),
	Strength(VSpec, TweenSpec),
}

#[derive(Debug, Clone, PartialEq)]
pub enum SoundCmd {
	Volume(VSpec, TweenSpec),
	Rate(VSpec, TweenSpec),
	Panning(VSpec, TweenSpec),
	LoopRegion(Option<RegionSpec>),
	Pause(TweenSpec),
	Resume(TweenSpec),
	ResumeAt(StartSpec, TweenSpec),
	Stop(TweenSpec),
	SeekTo(f64),
	SeekBy(f64),
}

#[derive(Debug, Clone, Copy, PartialEq, Eq)]
pub enum Kind {
	Clock,
	Modulator,
	Listener,
	Send,
	Track,
	Sound,
}

/// setter on the k-th effect handle created so far: parameter index and value
#[derive(Debug, Clone, PartialEq)]
pub struct FxCmd {
	pub fx: usize,
	pub param: usize,
	pub v: VSpec,
	pub tween: TweenSpec,
	/// for mode / kind setters
	pub variant: usize,
}

#[derive(Debug, Clone, PartialEq)]
pub enum Op {
	AddClock(SpeedSpec),
	Clock(usize, ClockCmd),
	AddLfo(LfoSpec),
	Lfo(usize, LfoCmd),
	AddTweener(f64),
	TweenerSet(usize, f64, TweenSpec),
	AddListener([f32; 3], [f32; 4]),
	ListenerPos(usize, [f32; 3], TweenSpec),
	ListenerOrient(usize, [f32; 4], TweenSpec),
	AddSend { volume: VSpec, effects: Vec<FxSpec> },
	SendVolume(usize, VSpec, TweenSpec),
	AddTrack(TrackSpec),
	Track(usize, TrackCmd),
	PlayStatic(Where, StaticSpec),
	PlayStream(Where, StreamSpec),
	Sound(usize, SoundCmd),
	Fx(FxCmd),
	MainVolume(VSpec, TweenSpec),
	Drop(Kind, usize),
	ChangeSampleRate(u32),
	Callback(usize),
}

#[derive(Debug, Clone, PartialEq)]
pub struct Config {
	pub sample_rate: u32,
	pub internal_buffer_size: usize,
	pub channels: u16,
	pub sub_track_capacity: usize,
	pub send_track_capacity: usize,
	pub clock_capacity: usize,
	pub modulator_capacity: usize,
	pub listener_capacity: usize,
	pub main_sound_capacity: usize,
	pub main_volume: VSpec,
	pub main_effects: Vec<FxSpec>,
}

#[derive(Debug, Clone, PartialEq)]
pub struct Program {
	pub config: Config,
	pub ops: Vec<Op>,
}
