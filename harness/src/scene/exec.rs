//! Program interpreter: executes the AST against a real `AudioManager<VBackend>`.

use super::ast::*;
use super::fx::{Built, FxHandle, FxSpec};
use crate::probes::{manager, streamctl, Callback, DecoderLog, Mgr, ScriptDecoder, ScriptError};
use glam::{Quat, Vec3};
use kira::clock::{ClockHandle, ClockId, ClockSpeed, ClockTime};
use kira::effect::distortion::DistortionKind;
use kira::effect::eq_filter::EqFilterKind;
use kira::effect::filter::FilterMode;
use kira::listener::{ListenerHandle, ListenerId};
use kira::modulator::lfo::{LfoBuilder, LfoHandle, Waveform};
use kira::modulator::tweener::{TweenerBuilder, TweenerHandle};
use kira::modulator::ModulatorId;
use kira::sound::static_sound::{StaticSoundData, StaticSoundHandle, StaticSoundSettings};
use kira::sound::streaming::{StreamingSoundData, StreamingSoundHandle, StreamingSoundSettings};
use kira::sound::{EndPosition, PlaybackPosition, Region};
use kira::track::{MainTrackBuilder, SendTrackBuilder, SendTrackHandle, SendTrackId, SpatialTrackBuilder, SpatialTrackHandle, TrackBuilder, TrackHandle};
use kira::{Capacities, Decibels, Frame, Mapping, Mix, Panning, PlaybackRate, StartTime, Tween, Value};
use std::sync::Arc;
use std::time::Duration;

pub enum ModH {
	Lfo(LfoHandle),
	Tweener(TweenerHandle),
}

pub enum TrackH {
	Plain(TrackHandle),
	Spatial(SpatialTrackHandle),
}

pub enum SoundH {
	Static(StaticSoundHandle),
	Stream(StreamingSoundHandle<ScriptError>, Arc<DecoderLog>),
}

pub struct World {
	pub mgr: Mgr,
	pub channels: u16,
	pub clocks: Vec<Option<ClockHandle>>,
	pub clock_ids: Vec<Option<ClockId>>,
	pub mods: Vec<Option<ModH>>,
	pub mod_ids: Vec<Option<ModulatorId>>,
	pub listeners: Vec<Option<ListenerHandle>>,
	pub listener_ids: Vec<Option<ListenerId>>,
	pub sends: Vec<Option<SendTrackHandle>>,
	pub send_ids: Vec<Option<SendTrackId>>,
	pub tracks: Vec<Option<TrackH>>,
	pub sounds: Vec<Option<SoundH>>,
	pub fx: Vec<FxHandle>,
	/// (hook id, decoder log) of every streaming sound that was accepted
	pub streams: Vec<(usize, Arc<DecoderLog>)>,
	pub quiescence_timeouts: usize,
	/// creations refused with the documented limit error
	pub refused: usize,
}

pub fn content_frames(content: Content, len: usize) -> Arc<[Frame]> {
	let mut v = Vec::with_capacity(len);
	let mut state = match content {
		Content::Noise(s) => s as u64 | 1,
		_ => 1,
	};
	for i in 0..len {
		let f = match content {
			Content::Noise(_) => {
				let mut next = || {
					state ^= state >> 12;
					state ^= state << 25;
					state ^= state >> 27;
					let r = state.wrapping_mul(0x2545F4914F6CDD1D);
					((r >> 40) as f32 / (1u64 << 24) as f32) * 2.0 - 1.0
				};
				Frame::new(next(), next())
			}
			Content::Ramp => Frame::from_mono((i + 1) as f32 / len as f32),
			Content::Dc(l, r) => Frame::new(l, r),
			Content::Sine(f) => Frame::from_mono((std::f64::consts::TAU * f * i as f64).sin() as f32),
		};
		v.push(f);
	}
	v.into()
}

fn pos(p: Pos) -> PlaybackPosition {
	match p {
		Pos::Seconds(s) => PlaybackPosition::Seconds(s),
		Pos::Samples(s) => PlaybackPosition::Samples(s),
	}
}

fn region(r: Option<RegionSpec>) -> Option<Region> {
	r.map(|r| Region {
		start: pos(r.start),
		end: match r.end {
			None => EndPosition::EndOfAudio,
			Some(p) => EndPosition::Custom(pos(p)),
		},
	})
}

impl World {
	pub fn new(cfg: &Config, channels: u16, internal_buffer_size: usize) -> Self {
		streamctl::install();
		streamctl::set_callback_active(false);
		let mut main = MainTrackBuilder::new().sound_capacity(cfg.main_sound_capacity);
		let mut fx = vec![];
		for e in &cfg.main_effects {
			let h = main.add_effect(Built(e.clone()));
			push_handles(h, &mut fx);
		}
		// the main volume of the builder is always a fixed value here
		main = main.volume(Decibels(cfg.main_volume.x as f32));
		let mgr = manager(
			cfg.sample_rate,
			internal_buffer_size,
			Capacities {
				sub_track_capacity: cfg.sub_track_capacity,
				send_track_capacity: cfg.send_track_capacity,
				clock_capacity: cfg.clock_capacity,
				modulator_capacity: cfg.modulator_capacity,
				listener_capacity: cfg.listener_capacity,
			},
			main,
		);
		Self {
			mgr,
			channels,
			clocks: vec![],
			clock_ids: vec![],
			mods: vec![],
			mod_ids: vec![],
			listeners: vec![],
			listener_ids: vec![],
			sends: vec![],
			send_ids: vec![],
			tracks: vec![],
			sounds: vec![],
			fx,
			streams: vec![],
			quiescence_timeouts: 0,
			refused: 0,
		}
	}

	fn mod_id(&self, slot: usize) -> Option<ModulatorId> {
		self.mod_ids.get(slot).copied().flatten()
	}

	pub fn value<T: Copy>(&self, v: &VSpec, conv: impl Fn(f64) -> T) -> Value<T> {
		let mapping = || Mapping {
			input_range: (v.in0, v.in1),
			output_range: (conv(v.x), conv(v.y)),
			easing: v.easing,
		};
		match v.link {
			Link::Fixed => Value::Fixed(conv(v.x)),
			Link::Mod(slot) => match self.mod_id(slot) {
				Some(id) => Value::FromModulator { id, mapping: mapping() },
				None => Value::Fixed(conv(v.x)),
			},
			Link::ListenerDistance => Value::FromListenerDistance(mapping()),
		}
	}

	pub fn start(&self, s: StartSpec) -> StartTime {
		match s {
			StartSpec::Immediate => StartTime::Immediate,
			StartSpec::Delayed(d) => StartTime::Delayed(Duration::from_secs_f64(d)),
			StartSpec::Clock(slot, ticks, fraction) => match self.clock_ids.get(slot).copied().flatten() {
				Some(clock) => StartTime::ClockTime(ClockTime { clock, ticks, fraction }),
				None => StartTime::Immediate,
			},
		}
	}

	pub fn tween(&self, t: TweenSpec) -> Tween {
		Tween {
			start_time: self.start(t.start),
			duration: Duration::from_secs_f64(t.dur_s),
			easing: t.easing,
		}
	}

	fn speed(&self, s: &SpeedSpec) -> Value<ClockSpeed> {
		match s.unit {
			SpeedUnit::SecondsPerTick => self.value(&s.v, ClockSpeed::SecondsPerTick),
			SpeedUnit::TicksPerSecond => self.value(&s.v, ClockSpeed::TicksPerSecond),
			SpeedUnit::TicksPerMinute => self.value(&s.v, ClockSpeed::TicksPerMinute),
		}
	}

	fn static_settings(&self, s: &SoundSettings) -> StaticSoundSettings {
		StaticSoundSettings {
			start_time: self.start(s.start_time),
			start_position: pos(s.start_position),
			loop_region: region(s.loop_region),
			reverse: s.reverse,
			volume: self.value(&s.volume, |x| Decibels(x as f32)),
			playback_rate: self.value(&s.rate, PlaybackRate),
			panning: self.value(&s.panning, |x| Panning(x as f32)),
			fade_in_tween: s.fade_in.map(|t| self.tween(t)),
		}
	}

	fn stream_settings(&self, s: &SoundSettings) -> StreamingSoundSettings {
		StreamingSoundSettings {
			start_time: self.start(s.start_time),
			start_position: pos(s.start_position),
			loop_region: region(s.loop_region),
			volume: self.value(&s.volume, |x| Decibels(x as f32)),
			playback_rate: self.value(&s.rate, PlaybackRate),
			panning: self.value(&s.panning, |x| Panning(x as f32)),
			fade_in_tween: s.fade_in.map(|t| self.tween(t)),
		}
	}

	pub fn callback(&mut self, frames: usize) -> Callback {
		if !self.streams.is_empty() {
			// decoder threads run between callbacks only (see probes::streamctl)
			if !streamctl::wait_quiescent_or_flag(&self.streams, Duration::from_secs(20)) {
				self.quiescence_timeouts += 1;
			}
			streamctl::set_callback_active(true);
		}
		let cb = self.mgr.backend_mut().callback(frames, self.channels);
		streamctl::set_callback_active(false);
		cb
	}

	/// Executes one op; `Callback` ops return the callback result.
	pub fn exec(&mut self, op: &Op) -> Option<Callback> {
		match op {
			Op::Callback(n) => return Some(self.callback(*n)),
			Op::ChangeSampleRate(sr) => self.mgr.backend_mut().change_sample_rate(*sr),
			Op::AddClock(s) => {
				let v = self.speed(s);
				match self.mgr.add_clock(v) {
					Ok(h) => {
						self.clock_ids.push(Some(h.id()));
						self.clocks.push(Some(h));
					}
					Err(_) => {
						self.refused += 1;
						self.clock_ids.push(None);
						self.clocks.push(None);
					}
				}
			}
			Op::Clock(i, cmd) => {
				let v = match cmd {
					ClockCmd::SetSpeed(s, t) => Some((self.speed(s), self.tween(*t))),
					_ => None,
				};
				if let Some(Some(h)) = self.clocks.get_mut(*i) {
					match cmd {
						ClockCmd::Start => h.start(),
						ClockCmd::Pause => h.pause(),
						ClockCmd::Stop => h.stop(),
						ClockCmd::SetSpeed(..) => {
							let (s, t) = v.unwrap();
							h.set_speed(s, t)
						}
					}
				}
			}
			Op::AddLfo(l) => {
				let b = LfoBuilder {
					waveform: wave(l.waveform),
					frequency: self.value(&l.frequency, |x| x),
					amplitude: self.value(&l.amplitude, |x| x),
					offset: self.value(&l.offset, |x| x),
					starting_phase: l.phase,
				};
				match self.mgr.add_modulator(b) {
					Ok(h) => {
						self.mod_ids.push(Some(h.id()));
						self.mods.push(Some(ModH::Lfo(h)));
					}
					Err(_) => {
						self.refused += 1;
						self.mod_ids.push(None);
						self.mods.push(None);
					}
				}
			}
			Op::Lfo(i, cmd) => {
				let (v, t) = match cmd {
					LfoCmd::Frequency(v, t) | LfoCmd::Amplitude(v, t) | LfoCmd::Offset(v, t) => (Some(self.value(v, |x| x)), Some(self.tween(*t))),
					_ => (None, None),
				};
				if let Some(Some(ModH::Lfo(h))) = self.mods.get_mut(*i) {
					match cmd {
						LfoCmd::Waveform(w) => h.set_waveform(wave(*w)),
						LfoCmd::Frequency(..) => h.set_frequency(v.unwrap(), t.unwrap()),
						LfoCmd::Amplitude(..) => h.set_amplitude(v.unwrap(), t.unwrap()),
						LfoCmd::Offset(..) => h.set_offset(v.unwrap(), t.unwrap()),
						LfoCmd::Phase(p) => h.set_phase(*p),
					}
				}
			}
			Op::AddTweener(init) => match self.mgr.add_modulator(TweenerBuilder { initial_value: *init }) {
				Ok(h) => {
					self.mod_ids.push(Some(h.id()));
					self.mods.push(Some(ModH::Tweener(h)));
				}
				Err(_) => {
					self.refused += 1;
					self.mod_ids.push(None);
					self.mods.push(None);
				}
			},
			Op::TweenerSet(i, target, t) => {
				let t = self.tween(*t);
				if let Some(Some(ModH::Tweener(h))) = self.mods.get_mut(*i) {
					h.set(*target, t);
				}
			}
			Op::AddListener(p, q) => match self.mgr.add_listener(Vec3::from_array(*p), Quat::from_array(*q)) {
				Ok(h) => {
					self.listener_ids.push(Some(h.id()));
					self.listeners.push(Some(h));
				}
				Err(_) => {
					self.refused += 1;
					self.listener_ids.push(None);
					self.listeners.push(None);
				}
			},
			Op::ListenerPos(i, p, t) => {
				let t = self.tween(*t);
				if let Some(Some(h)) = self.listeners.get_mut(*i) {
					h.set_position(Vec3::from_array(*p), t);
				}
			}
			Op::ListenerOrient(i, q, t) => {
				let t = self.tween(*t);
				if let Some(Some(h)) = self.listeners.get_mut(*i) {
					h.set_orientation(Quat::from_array(*q), t);
				}
			}
			Op::AddSend { volume, effects } => {
				let mut b = SendTrackBuilder::new().volume(self.value(volume, |x| Decibels(x as f32)));
				let mut hs = vec![];
				for e in effects {
					hs.push(b.add_effect(Built(e.clone())));
				}
				match self.mgr.add_send_track(b) {
					Ok(h) => {
						self.send_ids.push(Some(h.id()));
						self.sends.push(Some(h));
					}
					Err(_) => {
						self.refused += 1;
						self.send_ids.push(None);
						self.sends.push(None);
					}
				}
				// handles are numbered even when the track was refused (the generator counts them)
				for h in hs {
					push_handles(h, &mut self.fx);
				}
			}
			Op::SendVolume(i, v, t) => {
				let (v, t) = (self.value(v, |x| Decibels(x as f32)), self.tween(*t));
				if let Some(Some(h)) = self.sends.get_mut(*i) {
					h.set_volume(v, t);
				}
			}
			Op::AddTrack(spec) => self.add_track(spec),
			Op::Track(i, cmd) => self.track_cmd(*i, cmd),
			Op::PlayStatic(wh, spec) => {
				let data = StaticSoundData {
					sample_rate: spec.sample_rate,
					frames: content_frames(spec.content, spec.len),
					settings: self.static_settings(&spec.settings),
					slice: spec.slice,
				};
				let r = match wh {
					Where::Main => Some(self.mgr.play(data).ok()),
					Where::Track(t) => match self.tracks.get_mut(*t) {
						Some(Some(TrackH::Plain(h))) => Some(h.play(data).ok()),
						Some(Some(TrackH::Spatial(h))) => Some(h.play(data).ok()),
						_ => None,
					},
				};
				match r {
					Some(Some(h)) => self.sounds.push(Some(SoundH::Static(h))),
					Some(None) => {
						self.refused += 1;
						self.sounds.push(None)
					}
					None => self.sounds.push(None),
				}
			}
			Op::PlayStream(wh, spec) => {
				let stream_mark = streamctl::mark();
				let (mut dec, log) = ScriptDecoder::new(content_frames(spec.content, spec.len), spec.sample_rate);
				dec.packets = spec.packets.clone();
				dec.seek_granularity = spec.seek_granularity;
				let mut data = StreamingSoundData::from_decoder(dec).with_settings(self.stream_settings(&spec.settings));
				data.slice = spec.slice;
				let r = match wh {
					Where::Main => Some(self.mgr.play(data).ok()),
					Where::Track(t) => match self.tracks.get_mut(*t) {
						Some(Some(TrackH::Plain(h))) => Some(h.play(data).ok()),
						Some(Some(TrackH::Spatial(h))) => Some(h.play(data).ok()),
						_ => None,
					},
				};
				match r {
					Some(Some(h)) => {
						streamctl::adopt(h.verif_id(), stream_mark);
		
						self.sounds.push(Some(SoundH::Stream(h, log)))
					}
					Some(None) => {
						self.refused += 1;
						self.sounds.push(None)
					}
					None => self.sounds.push(None),
				}
			}
			Op::Sound(i, cmd) => self.sound_cmd(*i, cmd),
			Op::Fx(cmd) => self.fx_cmd(cmd),
			Op::MainVolume(v, t) => {
				let (v, t) = (self.value(v, |x| Decibels(x as f32)), self.tween(*t));
				self.mgr.main_track().set_volume(v, t);
			}
			Op::Drop(kind, i) => match kind {
				Kind::Clock => {
					if let Some(s) = self.clocks.get_mut(*i) {
						*s = None;
					}
				}
				Kind::Modulator => {
					if let Some(s) = self.mods.get_mut(*i) {
						*s = None;
					}
				}
				Kind::Listener => {
					if let Some(s) = self.listeners.get_mut(*i) {
						*s = None;
					}
				}
				Kind::Send => {
					if let Some(s) = self.sends.get_mut(*i) {
						*s = None;
					}
				}
				Kind::Track => {
					if let Some(s) = self.tracks.get_mut(*i) {
						*s = None;
					}
				}
				Kind::Sound => {
					if let Some(s) = self.sounds.get_mut(*i) {
						*s = None;
					}
				}
			},
		}
		None
	}

	fn add_track(&mut self, spec: &TrackSpec) {
		let volume = self.value(&spec.volume, |x| Decibels(x as f32));
		let sends: Vec<(SendTrackId, Value<Decibels>)> = spec.sends.iter().filter_map(|(s, v)| self.send_ids.get(*s).copied().flatten().map(|id| (id, self.value(v, |x| Decibels(x as f32))))).collect();
		let mut hs = vec![];
		let result: Option<Option<TrackH>> = if let Some(sp) = &spec.spatial {
			let mut b = SpatialTrackBuilder::new()
				.volume(volume)
				.sound_capacity(spec.sound_capacity)
				.sub_track_capacity(spec.sub_track_capacity)
				.persist_until_sounds_finish(spec.persist)
				.distances(sp.distances)
				.attenuation_function(sp.attenuation)
				.spatialization_strength(self.value(&sp.strength, |x| x as f32));
			for (id, v) in sends {
				b = b.with_send(id, v);
			}
			for e in &spec.effects {
				hs.push(b.add_effect(Built(e.clone())));
			}
			let position = Vec3::from_array(sp.position);
			match self.listener_ids.get(sp.listener).copied().flatten() {
				None => None,
				Some(listener) => match spec.parent {
					Where::Main => Some(self.mgr.add_spatial_sub_track(listener, position, b).ok().map(TrackH::Spatial)),
					Where::Track(p) => match self.tracks.get_mut(p) {
						Some(Some(TrackH::Plain(h))) => Some(h.add_spatial_sub_track(listener, position, b).ok().map(TrackH::Spatial)),
						Some(Some(TrackH::Spatial(h))) => Some(h.add_spatial_sub_track(listener, position, b).ok().map(TrackH::Spatial)),
						_ => None,
					},
				},
			}
		} else {
			let mut b = TrackBuilder::new().volume(volume).sound_capacity(spec.sound_capacity).sub_track_capacity(spec.sub_track_capacity).persist_until_sounds_finish(spec.persist);
			for (id, v) in sends {
				b = b.with_send(id, v);
			}
			for e in &spec.effects {
				hs.push(b.add_effect(Built(e.clone())));
			}
			match spec.parent {
				Where::Main => Some(self.mgr.add_sub_track(b).ok().map(TrackH::Plain)),
				Where::Track(p) => match self.tracks.get_mut(p) {
					Some(Some(TrackH::Plain(h))) => Some(h.add_sub_track(b).ok().map(TrackH::Plain)),
					Some(Some(TrackH::Spatial(h))) => Some(h.add_sub_track(b).ok().map(TrackH::Plain)),
					_ => None,
				},
			}
		};
		match result {
			Some(Some(h)) => self.tracks.push(Some(h)),
			Some(None) => {
				self.refused += 1;
				self.tracks.push(None)
			}
			None => self.tracks.push(None),
		}
		for h in hs {
			push_handles(h, &mut self.fx);
		}
	}

	fn track_cmd(&mut self, i: usize, cmd: &TrackCmd) {
		enum C {
			Volume(Value<Decibels>, Tween),
			Pause(Tween),
			ResumeAt(StartTime, Tween),
			Send(Option<SendTrackId>, Value<Decibels>, Tween),
			Position(Vec3, Tween),
			Strength(Value<f32>, Tween),
		}
		let c = match cmd {
			TrackCmd::Volume(v, t) => C::Volume(self.value(v, |x| Decibels(x as f32)), self.tween(*t)),
			TrackCmd::Pause(t) => C::Pause(self.tween(*t)),
			TrackCmd::Resume(t) => C::ResumeAt(StartTime::Immediate, self.tween(*t)),
			TrackCmd::ResumeAt(s, t) => C::ResumeAt(self.start(*s), self.tween(*t)),
			TrackCmd::Send(s, v, t) => C::Send(self.send_ids.get(*s).copied().flatten(), self.value(v, |x| Decibels(x as f32)), self.tween(*t)),
			TrackCmd::Position(p, t) => C::Position(Vec3::from_array(*p), self.tween(*t)),
			TrackCmd::Strength(v, t) => C::Strength(self.value(v, |x| x as f32), self.tween(*t)),
		};
		match self.tracks.get_mut(i) {
			Some(Some(TrackH::Plain(h))) => match c {
				C::Volume(v, t) => h.set_volume(v, t),
				C::Pause(t) => h.pause(t),
				C::ResumeAt(s, t) => h.resume_at(s, t),
				C::Send(Some(id), v, t) => {
					let _ = h.set_send(id, v, t);
				}
				_ => {}
			},
			Some(Some(TrackH::Spatial(h))) => match c {
				C::Volume(v, t) => h.set_volume(v, t),
				C::Pause(t) => h.pause(t),
				C::ResumeAt(s, t) => h.resume_at(s, t),
				C::Send(Some(id), v, t) => {
					let _ = h.set_send(id, v, t);
				}
				C::Position(p, t) => h.set_position(p, t),
				C::Strength(v, t) => h.set_spatialization_strength(v, t),
				_ => {}
			},
			_ => {}
		}
	}

	fn sound_cmd(&mut self, i: usize, cmd: &SoundCmd) {
		macro_rules! apply {
			($h:expr) => {
				match cmd {
					SoundCmd::Volume(v, t) => {
						let (v, t) = (self.value(v, |x| Decibels(x as f32)), self.tween(*t));
						$h.set_volume(v, t)
					}
					SoundCmd::Rate(v, t) => {
						let (v, t) = (self.value(v, PlaybackRate), self.tween(*t));
						$h.set_playback_rate(v, t)
					}
					SoundCmd::Panning(v, t) => {
						let (v, t) = (self.value(v, |x| Panning(x as f32)), self.tween(*t));
						$h.set_panning(v, t)
					}
					SoundCmd::LoopRegion(r) => $h.set_loop_region(region(*r)),
					SoundCmd::Pause(t) => {
						let t = self.tween(*t);
						$h.pause(t)
					}
					SoundCmd::Resume(t) => {
						let t = self.tween(*t);
						$h.resume(t)
					}
					SoundCmd::ResumeAt(s, t) => {
						let (s, t) = (self.start(*s), self.tween(*t));
						$h.resume_at(s, t)
					}
					SoundCmd::Stop(t) => {
						let t = self.tween(*t);
						$h.stop(t)
					}
					SoundCmd::SeekTo(p) => $h.seek_to(*p),
					SoundCmd::SeekBy(p) => $h.seek_by(*p),
				}
			};
		}
		// take the handle out so `self` can be borrowed for value conversion
		let Some(slot) = self.sounds.get_mut(i) else { return };
		let Some(mut h) = slot.take() else { return };
		match &mut h {
			SoundH::Static(s) => apply!(s),
			SoundH::Stream(s, _) => {
				let rate_cmd_negative = matches!(cmd, SoundCmd::Rate(v, _) if v.x < 0.0 || v.y < 0.0);
				if !rate_cmd_negative {
					apply!(s)
				}
			}
		}
		self.sounds[i] = Some(h);
	}

	fn fx_cmd(&mut self, c: &FxCmd) {
		if c.fx >= self.fx.len() {
			return;
		}
		let t = self.tween(c.tween);
		let f64v = self.value(&c.v, |x| x);
		let dbv = self.value(&c.v, |x| Decibels(x as f32));
		let mixv = self.value(&c.v, |x| Mix(x as f32));
		let panv = self.value(&c.v, |x| Panning(x as f32));
		let durv = self.value(&c.v, |x| Duration::from_secs_f64(x.max(0.0)));
		match &mut self.fx[c.fx] {
			FxHandle::Filter(h) => match c.param % 4 {
				0 => h.set_cutoff(f64v, t),
				1 => h.set_resonance(f64v, t),
				2 => h.set_mix(mixv, t),
				_ => h.set_mode([FilterMode::LowPass, FilterMode::BandPass, FilterMode::HighPass, FilterMode::Notch][c.variant % 4]),
			},
			FxHandle::Eq(h) => match c.param % 4 {
				0 => h.set_frequency(f64v, t),
				1 => h.set_gain(dbv, t),
				2 => h.set_q(f64v, t),
				_ => h.set_kind([EqFilterKind::Bell, EqFilterKind::LowShelf, EqFilterKind::HighShelf][c.variant % 3]),
			},
			FxHandle::Delay(h, _) => match c.param % 2 {
				0 => h.set_feedback(dbv, t),
				_ => h.set_mix(mixv, t),
			},
			FxHandle::Reverb(h) => match c.param % 4 {
				0 => h.set_feedback(f64v, t),
				1 => h.set_damping(f64v, t),
				2 => h.set_stereo_width(f64v, t),
				_ => h.set_mix(mixv, t),
			},
			FxHandle::Compressor(h) => match c.param % 6 {
				0 => h.set_threshold(f64v, t),
				1 => h.set_ratio(f64v, t),
				2 => h.set_attack_duration(durv, t),
				3 => h.set_release_duration(durv, t),
				4 => h.set_makeup_gain(dbv, t),
				_ => h.set_mix(mixv, t),
			},
			FxHandle::Distortion(h) => match c.param % 3 {
				0 => h.set_drive(dbv, t),
				1 => h.set_mix(mixv, t),
				_ => h.set_kind([DistortionKind::HardClip, DistortionKind::SoftClip][c.variant % 2]),
			},
			FxHandle::Volume(h) => h.set_volume(dbv, t),
			FxHandle::Panning(h) => h.set_panning(panv, t),
		}
	}
}

fn wave(w: WaveSpec) -> Waveform {
	match w {
		WaveSpec::Sine => Waveform::Sine,
		WaveSpec::Triangle => Waveform::Triangle,
		WaveSpec::Saw => Waveform::Saw,
		WaveSpec::Pulse(width) => Waveform::Pulse { width },
	}
}

/// flattens a handle tree in the order the generator numbers effect handles
pub fn push_handles(h: FxHandle, out: &mut Vec<FxHandle>) {
	match h {
		FxHandle::Delay(d, inner) => {
			out.push(FxHandle::Delay(d, vec![]));
			for i in inner {
				push_handles(i, out);
			}
		}
		other => out.push(other),
	}
}

pub fn uses_streaming(p: &Program) -> bool {
	p.ops.iter().any(|o| matches!(o, Op::PlayStream(..)))
}

#[allow(unused)]
fn _unused(_: &FxSpec) {}

impl Drop for World {
	fn drop(&mut self) {
		streamctl::set_callback_active(false);
		streamctl::abandon_all();
	}
}
