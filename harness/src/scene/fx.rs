//! Effect specifications (an AST that can be printed, re-built and fed to reference models),
//! their generator, and the builder that turns a spec into a kira effect.

use crate::engine::{Ctx, Src};
use kira::effect::compressor::{CompressorBuilder, CompressorHandle};
use kira::effect::delay::{DelayBuilder, DelayHandle};
use kira::effect::distortion::{DistortionBuilder, DistortionHandle, DistortionKind};
use kira::effect::eq_filter::{EqFilterBuilder, EqFilterHandle, EqFilterKind};
use kira::effect::filter::{FilterBuilder, FilterHandle, FilterMode};
use kira::effect::panning_control::{PanningControlBuilder, PanningControlHandle};
use kira::effect::reverb::{ReverbBuilder, ReverbHandle};
use kira::effect::volume_control::{VolumeControlBuilder, VolumeControlHandle};
use kira::effect::{Effect, EffectBuilder};
use kira::{Decibels, Mix, Panning, Value};
use std::time::Duration;

#[derive(Debug, Clone, PartialEq)]
pub enum FxSpec {
	Filter { mode: FilterMode, cutoff: f64, resonance: f64, mix: f32 },
	Eq { kind: EqFilterKind, frequency: f64, gain_db: f32, q: f64 },
	Delay { time_s: f64, feedback_db: f32, mix: f32, inner: Vec<FxSpec> },
	Reverb { feedback: f64, damping: f64, stereo_width: f64, mix: f32 },
	Compressor { threshold: f64, ratio: f64, attack_s: f64, release_s: f64, makeup_db: f32, mix: f32 },
	Distortion { kind: DistortionKind, drive_db: f32, mix: f32 },
	Volume { db: f32 },
	Panning { pan: f32 },
}

impl FxSpec {
	pub fn name(&self) -> &'static str {
		match self {
			FxSpec::Filter { .. } => "filter",
			FxSpec::Eq { .. } => "eq",
			FxSpec::Delay { .. } => "delay",
			FxSpec::Reverb { .. } => "reverb",
			FxSpec::Compressor { .. } => "compressor",
			FxSpec::Distortion { .. } => "distortion",
			FxSpec::Volume { .. } => "volume",
			FxSpec::Panning { .. } => "panning",
		}
	}
	/// the effect keeps state between frames (delay lines, integrators, envelope followers)
	pub fn recursive(&self) -> bool {
		matches!(self, FxSpec::Filter { .. } | FxSpec::Eq { .. } | FxSpec::Delay { .. } | FxSpec::Reverb { .. } | FxSpec::Compressor { .. })
	}
	/// obeys superposition and scaling for fixed parameters
	pub fn linear(&self) -> bool {
		match self {
			FxSpec::Filter { .. } | FxSpec::Eq { .. } | FxSpec::Reverb { .. } | FxSpec::Volume { .. } | FxSpec::Panning { .. } => true,
			FxSpec::Delay { inner, .. } => inner.iter().all(|f| f.linear()),
			FxSpec::Compressor { .. } | FxSpec::Distortion { .. } => false,
		}
	}
}

/// Conservative upper bound of the gain an effect can apply to any signal (infinite when no
/// useful bound is known). Used only to keep generated delay feedback loops stable: a loop whose
/// gain can exceed 1 diverges by design, which is not a defect.
pub fn max_gain(spec: &FxSpec) -> f64 {
	let amp = |db: f32| 10f64.powf(db as f64 / 20.0);
	let mixed = |wet: f64, mix: f32| {
		let m = mix.clamp(0.0, 1.0) as f64;
		m.sqrt() * wet + (1.0 - m).sqrt()
	};
	match spec {
		FxSpec::Volume { db } => {
			if *db <= -60.0 {
				0.0
			} else {
				amp(*db)
			}
		}
		FxSpec::Panning { pan } => {
			if *pan == 0.0 {
				1.0
			} else {
				std::f64::consts::SQRT_2
			}
		}
		FxSpec::Filter { resonance, mix, .. } => {
			let k = 2.0 - 1.9 * resonance.clamp(0.0, 1.0);
			mixed(1.0 + 2.0 / k, *mix)
		}
		FxSpec::Eq { gain_db, q, .. } => {
			// shelves and bells resonate for high q; bound generously
			amp(gain_db.abs()) * q.max(1.0) * 2.0
		}
		FxSpec::Distortion { mix, .. } => mixed(1.0, *mix),
		FxSpec::Compressor { ratio, makeup_db, mix, .. } => {
			if *ratio < 1.0 {
				f64::INFINITY
			} else {
				mixed(amp(*makeup_db), *mix)
			}
		}
		FxSpec::Reverb { .. } => f64::INFINITY,
		FxSpec::Delay { feedback_db, mix, inner, .. } => {
			let g: f64 = inner.iter().map(max_gain).product::<f64>() * if *feedback_db <= -60.0 { 0.0 } else { amp(*feedback_db) };
			if g < 0.99 {
				mixed(1.0 / (1.0 - g), *mix)
			} else {
				f64::INFINITY
			}
		}
	}
}

/// number of frames of delay kira will allocate for `time_s` at `sample_rate`
pub fn delay_frames(time_s: f64, sample_rate: u32) -> usize {
	(Duration::from_secs_f64(time_s).as_secs_f64() * sample_rate as f64) as usize
}

pub enum FxHandle {
	Filter(FilterHandle),
	Eq(EqFilterHandle),
	Delay(DelayHandle, Vec<FxHandle>),
	Reverb(ReverbHandle),
	Compressor(CompressorHandle),
	Distortion(DistortionHandle),
	Volume(VolumeControlHandle),
	Panning(PanningControlHandle),
}

pub fn build(spec: &FxSpec) -> (Box<dyn Effect>, FxHandle) {
	match spec {
		FxSpec::Filter { mode, cutoff, resonance, mix } => {
			let (e, h) = FilterBuilder::new().mode(*mode).cutoff(*cutoff).resonance(*resonance).mix(Mix(*mix)).build();
			(e, FxHandle::Filter(h))
		}
		FxSpec::Eq { kind, frequency, gain_db, q } => {
			let (e, h) = EqFilterBuilder::new(*kind, *frequency, Decibels(*gain_db), *q).build();
			(e, FxHandle::Eq(h))
		}
		FxSpec::Delay { time_s, feedback_db, mix, inner } => {
			let mut b = DelayBuilder::new().delay_time(Duration::from_secs_f64(*time_s)).feedback(Decibels(*feedback_db)).mix(Mix(*mix));
			let mut hs = vec![];
			for i in inner {
				hs.push(b.add_feedback_effect(Built(i.clone())));
			}
			let (e, h) = b.build();
			(e, FxHandle::Delay(h, hs))
		}
		FxSpec::Reverb { feedback, damping, stereo_width, mix } => {
			let (e, h) = ReverbBuilder::new().feedback(*feedback).damping(*damping).stereo_width(*stereo_width).mix(Mix(*mix)).build();
			(e, FxHandle::Reverb(h))
		}
		FxSpec::Compressor { threshold, ratio, attack_s, release_s, makeup_db, mix } => {
			let (e, h) = CompressorBuilder::new()
				.threshold(*threshold)
				.ratio(*ratio)
				.attack_duration(Duration::from_secs_f64(*attack_s))
				.release_duration(Duration::from_secs_f64(*release_s))
				.makeup_gain(Decibels(*makeup_db))
				.mix(Mix(*mix))
				.build();
			(e, FxHandle::Compressor(h))
		}
		FxSpec::Distortion { kind, drive_db, mix } => {
			let (e, h) = DistortionBuilder::new().kind(*kind).drive(Decibels(*drive_db)).mix(Mix(*mix)).build();
			(e, FxHandle::Distortion(h))
		}
		FxSpec::Volume { db } => {
			let (e, h) = VolumeControlBuilder::new(Decibels(*db)).build();
			(e, FxHandle::Volume(h))
		}
		FxSpec::Panning { pan } => {
			let (e, h) = PanningControlBuilder(Value::Fixed(Panning(*pan))).build();
			(e, FxHandle::Panning(h))
		}
	}
}

/// `EffectBuilder` adapter so a spec can be passed to `with_effect` / `add_feedback_effect`.
pub struct Built(pub FxSpec);

impl EffectBuilder for Built {
	type Handle = FxHandle;
	fn build(self) -> (Box<dyn Effect>, FxHandle) {
		build(&self.0)
	}
}

/// Parameter domain of the generator.
#[derive(Debug, Clone, Copy, PartialEq, Eq)]
pub enum Domain {
	/// inside the documented ranges, edges included
	Documented,
	/// also slightly outside [0,1] for mix/resonance/strength (the code clamps them), wider dB
	Wide,
}

fn gen_mix(src: &mut Src, d: Domain) -> f32 {
	match d {
		Domain::Documented => src.f32_in(0.0, 1.0),
		Domain::Wide => src.f32_in(-0.5, 1.5),
	}
}

pub fn gen_fx(src: &mut Src, ctx: &mut Ctx, d: Domain, sample_rate: u32, depth: usize) -> FxSpec {
	// kinds ordered so that an exhausted tape gives the simplest effect
	let kind = src.weighted(&[2, 2, 3, 3, 3, 2, 2, if depth < 2 { 3 } else { 0 }]);
	gen_fx_kind(src, ctx, d, sample_rate, depth, kind)
}

pub fn gen_fx_kind(src: &mut Src, ctx: &mut Ctx, d: Domain, sample_rate: u32, depth: usize, kind: usize) -> FxSpec {
	let sr = sample_rate as f64;
	match kind {
		0 => FxSpec::Volume {
			db: match src.weighted(&[3, 5, 1]) {
				0 => src.pick(&[0.0f32, -60.0, -6.0, 6.0, -3.0]),
				1 => src.f32_in(-70.0, 12.0),
				_ => src.f32_in(-200.0, 40.0),
			},
		},
		1 => FxSpec::Panning {
			pan: match d {
				Domain::Documented => src.f32_in(-1.0, 1.0),
				Domain::Wide => src.f32_in(-2.0, 2.0),
			},
		},
		2 => FxSpec::Filter {
			mode: src.pick(&[FilterMode::LowPass, FilterMode::BandPass, FilterMode::HighPass, FilterMode::Notch]),
			cutoff: match src.weighted(&[2, 5, 2]) {
				0 => src.pick(&[1000.0, 0.0, sr / 2.0, sr, 20.0]),
				1 => src.f64_log(10.0, sr / 2.0),
				_ => src.f64_uniform(0.0, sr),
			},
			resonance: match d {
				Domain::Documented => src.f64_in(0.0, 1.0),
				Domain::Wide => src.f64_in(-0.5, 1.5),
			},
			mix: gen_mix(src, d),
		},
		3 => FxSpec::Eq {
			kind: src.pick(&[EqFilterKind::Bell, EqFilterKind::LowShelf, EqFilterKind::HighShelf]),
			frequency: match src.weighted(&[2, 5, 2]) {
				0 => src.pick(&[500.0, 0.0, sr / 2.0, 20.0]),
				1 => src.f64_log(10.0, sr / 2.0),
				_ => src.f64_uniform(0.0, sr),
			},
			// (any Decibels value is accepted; -60 dB is the type's "silence" edge)
			gain_db: match src.weighted(&[2, 5, 1]) {
				0 => src.pick(&[0.0f32, 6.0, -6.0, 24.0, -24.0, -60.0]),
				1 => src.f32_in(-30.0, 30.0),
				_ => src.f32_in(-90.0, 40.0),
			},
			q: match src.weighted(&[2, 5, 1]) {
				0 => src.pick(&[1.0, 0.7071, 0.01, 10.0]),
				1 => src.f64_log(0.05, 20.0),
				_ => src.f64_log(1e-4, 100.0),
			},
		},
		4 => FxSpec::Distortion {
			kind: src.pick(&[DistortionKind::HardClip, DistortionKind::SoftClip]),
			drive_db: match src.weighted(&[3, 5]) {
				0 => src.pick(&[0.0f32, 12.0, -60.0, -12.0, 40.0]),
				_ => src.f32_in(-70.0, 60.0),
			},
			mix: gen_mix(src, d),
		},
		5 => FxSpec::Compressor {
			threshold: match src.weighted(&[2, 5]) {
				0 => src.pick(&[0.0, -12.0, -24.0, -60.0]),
				_ => src.f64_uniform(-60.0, 6.0),
			},
			ratio: {
				// ratios between 0 and 1 are documented to expand; close to 0 the expansion overflows
				// f32 (a known finding, excluded by construction unless asked for)
				let r = match src.weighted(&[2, 5, 1]) {
					0 => src.pick(&[1.0, 2.0, 4.0, 100.0, 0.5]),
					1 => src.f64_log(1.0, 50.0),
					_ => src.f64_log(0.01, 1000.0),
				};
				if r < 0.1 && ctx.exclude("compressor-expansion-ratio-below-0.1") {
					0.1
				} else {
					r
				}
			},
			attack_s: src.dur(0.5).as_secs_f64(),
			release_s: src.dur(1.0).as_secs_f64(),
			makeup_db: src.f32_in(-12.0, 12.0),
			mix: gen_mix(src, d),
		},
		6 => FxSpec::Reverb {
			feedback: match d {
				Domain::Documented => src.f64_in(0.0, 1.0),
				Domain::Wide => src.f64_in(0.0, 1.0),
			},
			damping: src.f64_in(0.0, 1.0),
			stereo_width: src.f64_in(0.0, 1.0),
			mix: gen_mix(src, d),
		},
		_ => {
			let time_s = match src.weighted(&[2, 4, 3]) {
				0 => src.pick(&[0.5, 0.0, 0.001, 1.0 / sr, 0.5 / sr]),
				1 => src.f64_log(1.5 / sr, 0.05),
				_ => src.int(1, 300) as f64 / sr + 0.25 / sr,
			};
			let n_inner = if depth < 2 { src.weighted(&[5, 3, 1]) } else { 0 };
			let mut inner = vec![];
			for _ in 0..n_inner {
				let fx = gen_fx(src, ctx, d, sample_rate, depth + 1);
				// a feedback loop is only stable when its loop gain stays below 1: effects
				// without a finite gain bound are not placed inside the loop
				if max_gain(&fx).is_finite() {
					inner.push(fx);
				} else {
					ctx.count("unbounded-gain-effect-dropped-from-feedback-loop", 1);
				}
			}
			let mut feedback_db = match src.weighted(&[3, 5]) {
				0 => src.pick(&[-6.0f32, -60.0, 0.0, -1.0]),
				_ => src.f32_in(-70.0, 0.0),
			};
			if !inner.is_empty() {
				let g_inner: f64 = inner.iter().map(max_gain).product();
				let limit_db = (20.0 * (0.95 / g_inner).log10()) as f32;
				if feedback_db > limit_db {
					ctx.count("feedback-lowered-for-loop-stability", 1);
					feedback_db = limit_db;
				}
			}
			FxSpec::Delay {
				time_s,
				feedback_db,
				mix: gen_mix(src, d),
				inner,
			}
		}
	}
}
