//! Tape -> Program.

use super::ast::*;
use super::fx::{delay_frames, gen_fx, Domain, FxSpec};
use crate::engine::{Ctx, Src};
use kira::Easing;

pub const STD_RATES: [u32; 11] = [44100, 48000, 8000, 11025, 16000, 22050, 32000, 88200, 96000, 176400, 192000];

#[derive(Debug, Clone)]
pub struct GenOpts {
	pub max_ops: usize,
	pub streaming: bool,
	pub rate_changes: bool,
	pub links: bool,
	pub max_channels: u16,
	pub max_ibs: usize,
	pub max_sound_len: usize,
}

impl Default for GenOpts {
	fn default() -> Self {
		Self {
			max_ops: 60,
			streaming: true,
			rate_changes: true,
			links: true,
			max_channels: 8,
			max_ibs: 512,
			max_sound_len: 2000,
		}
	}
}

/// bookkeeping while generating: how many slots of each kind exist so far
#[derive(Default)]
struct Counts {
	clocks: usize,
	mods: usize,
	listeners: usize,
	sends: usize,
	tracks: usize,
	spatial_tracks: Vec<usize>,
	sounds: usize,
	/// (spec, inside a delay feedback loop)
	fx: Vec<(FxSpec, bool)>,
}

pub fn gen_easing(src: &mut Src) -> Easing {
	match src.weighted(&[6, 1, 1, 1, 1, 1, 1]) {
		0 => Easing::Linear,
		1 => Easing::InPowi(src.int(1, 5) as i32),
		2 => Easing::OutPowi(src.int(1, 5) as i32),
		3 => Easing::InOutPowi(src.int(1, 5) as i32),
		4 => Easing::InPowf(src.f64_log(0.1, 8.0)),
		5 => Easing::OutPowf(src.f64_log(0.1, 8.0)),
		_ => Easing::InOutPowf(src.f64_log(0.1, 8.0)),
	}
}

fn gen_start(src: &mut Src, c: &Counts) -> StartSpec {
	match src.weighted(&[6, 2, if c.clocks > 0 { 2 } else { 0 }]) {
		0 => StartSpec::Immediate,
		1 => StartSpec::Delayed(match src.weighted(&[2, 3, 1]) {
			0 => 0.0,
			1 => src.f64_log(1e-5, 0.05),
			_ => src.f64_uniform(0.0, 100.0),
		}),
		_ => StartSpec::Clock(src.index(c.clocks), src.int(0, 6) as u64, src.pick(&[0.0, 0.5, 0.25, 0.999])),
	}
}

pub fn gen_tween(src: &mut Src, c_clocks: usize) -> TweenSpec {
	let c = Counts {
		clocks: c_clocks,
		..Default::default()
	};
	gen_tween_c(src, &c)
}

fn gen_tween_c(src: &mut Src, c: &Counts) -> TweenSpec {
	TweenSpec {
		start: gen_start(src, c),
		dur_s: match src.weighted(&[3, 3, 3, 1]) {
			0 => 0.0,
			1 => src.f64_log(1e-6, 2e-3),
			2 => src.f64_log(2e-3, 0.3),
			_ => src.f64_uniform(0.3, 1e4),
		},
		easing: gen_easing(src),
	}
}

/// scalar value spec; `fixed` draws the fixed value / mapping outputs
fn gen_v(src: &mut Src, _ctx: &mut Ctx, c: &Counts, opts: &GenOpts, spatial: bool, mut fixed: impl FnMut(&mut Src) -> f64) -> VSpec {
	let link = if !opts.links {
		0
	} else {
		src.weighted(&[8, if c.mods > 0 { 2 } else { 0 }, if spatial { 1 } else { 0 }])
	};
	let x = fixed(src);
	if link == 0 {
		return VSpec::fixed(x);
	}
	let y = fixed(src);
	let in0 = src.f64_in(-2.0, 2.0);
	let in1 = if link == 2 { src.f64_in(0.0, 200.0) } else { src.f64_in(-2.0, 2.0) };
	VSpec {
		link: if link == 1 { Link::Mod(src.index(c.mods)) } else { Link::ListenerDistance },
		x,
		y,
		in0,
		in1,
		easing: gen_easing(src),
	}
}

pub fn gen_db(src: &mut Src) -> f64 {
	match src.weighted(&[4, 4, 1]) {
		0 => src.pick(&[0.0, -6.0, -60.0, -3.0, 6.0, -12.0]),
		1 => src.f64_uniform(-70.0, 12.0),
		_ => src.f64_uniform(-200.0, 40.0),
	}
}

fn gen_rate(src: &mut Src) -> f64 {
	match src.weighted(&[4, 3, 2, 1]) {
		0 => src.pick(&[1.0, 0.5, 2.0, -1.0, 0.0, 0.25]),
		1 => src.f64_uniform(0.0, 4.0),
		2 => src.f64_uniform(-8.0, 8.0),
		_ => src.f64_uniform(-64.0, 64.0),
	}
}

fn gen_pan(src: &mut Src) -> f64 {
	match src.weighted(&[3, 4, 1]) {
		0 => src.pick(&[0.0, -1.0, 1.0, 0.5]),
		1 => src.f64_uniform(-1.0, 1.0),
		_ => src.f64_uniform(-3.0, 3.0),
	}
}

fn gen_speed(src: &mut Src, ctx: &mut Ctx, c: &Counts, opts: &GenOpts) -> SpeedSpec {
	let unit = src.pick(&[SpeedUnit::TicksPerSecond, SpeedUnit::TicksPerMinute, SpeedUnit::SecondsPerTick]);
	let mut excluded = false;
	let mut draw = |src: &mut Src, ctx: &mut Ctx| -> f64 {
		let v = match unit {
			SpeedUnit::TicksPerSecond => match src.weighted(&[3, 4, 1]) {
				0 => src.pick(&[1.0, 2.0, 0.0, 100.0, 44100.0]),
				1 => src.f64_log(0.01, 1000.0),
				_ => src.f64_log(1000.0, 1e5),
			},
			SpeedUnit::TicksPerMinute => match src.weighted(&[3, 4]) {
				0 => src.pick(&[120.0, 60.0, 0.0, 6000.0]),
				_ => src.f64_log(0.1, 6e6),
			},
			SpeedUnit::SecondsPerTick => match src.weighted(&[3, 4]) {
				0 => src.pick(&[0.5, 1.0, 0.0, 1e-5, 0.001]),
				_ => src.f64_log(1e-5, 100.0),
			},
		};
		if unit == SpeedUnit::SecondsPerTick && v == 0.0 && ctx.exclude("clock-speed-zero-seconds-per-tick") {
			excluded = true;
			return 0.5;
		}
		v
	};
	// the closure borrows ctx mutably, so links are decided here by hand
	let link = if opts.links && c.mods > 0 && src.chance(1, 6) { Some(src.index(c.mods)) } else { None };
	let x = draw(src, ctx);
	let v = match link {
		None => VSpec::fixed(x),
		Some(m) => {
			let y = draw(src, ctx);
			VSpec {
				link: Link::Mod(m),
				x,
				y,
				in0: -1.0,
				in1: 1.0,
				easing: Easing::Linear,
			}
		}
	};
	let _ = excluded;
	SpeedSpec { unit, v }
}

fn gen_pos3(src: &mut Src) -> [f32; 3] {
	let mut p = [0.0f32; 3];
	let mode = src.weighted(&[2, 4, 2, 1]);
	for v in p.iter_mut() {
		*v = match mode {
			0 => src.pick(&[0.0f32, 1.0, -1.0, 10.0]),
			1 => src.f64_uniform(-20.0, 20.0) as f32,
			2 => src.f64_uniform(-200.0, 200.0) as f32,
			_ => src.f64_uniform(-1e6, 1e6) as f32,
		};
	}
	p
}

pub fn gen_quat(src: &mut Src) -> [f32; 4] {
	match src.weighted(&[3, 3, 4]) {
		0 => [0.0, 0.0, 0.0, 1.0],
		1 => {
			// rotation about one axis
			let a = src.f64_uniform(-3.14159, 3.14159) as f32;
			let (s, c) = ((a / 2.0).sin(), (a / 2.0).cos());
			match src.index(3) {
				0 => [s, 0.0, 0.0, c],
				1 => [0.0, s, 0.0, c],
				_ => [0.0, 0.0, s, c],
			}
		}
		_ => {
			let mut q = [0.0f32; 4];
			loop {
				let mut n = 0.0f32;
				for v in q.iter_mut() {
					*v = src.f64_uniform(-1.0, 1.0) as f32;
					n += *v * *v;
				}
				if n > 1e-3 {
					let n = n.sqrt();
					for v in q.iter_mut() {
						*v /= n;
					}
					break;
				}
				q = [0.0, 0.0, 0.0, 1.0];
				break;
			}
			q
		}
	}
}

fn gen_content(src: &mut Src) -> Content {
	match src.weighted(&[3, 3, 2, 2]) {
		0 => Content::Noise(src.raw() | 1),
		1 => Content::Ramp,
		2 => Content::Dc(src.f32_in(-1.0, 1.0), src.f32_in(-1.0, 1.0)),
		_ => Content::Sine(src.f64_log(1e-3, 0.5)),
	}
}

fn gen_len(src: &mut Src, max: usize) -> usize {
	match src.weighted(&[2, 3, 3]) {
		0 => src.pick(&[0usize, 1, 2, 3, 4, 5]),
		1 => src.usize_in(0, 64),
		_ => src.usize_in(0, max),
	}
}

fn gen_pos(src: &mut Src, len: usize, sr: u32) -> Pos {
	let frame = match src.weighted(&[4, 4, 1]) {
		0 => 0,
		1 => src.usize_in(0, len),
		_ => src.usize_in(0, len + 8),
	};
	if src.bool() {
		Pos::Samples(frame)
	} else {
		Pos::Seconds(frame as f64 / sr as f64)
	}
}

pub fn pos_frames(p: Pos, sr: u32) -> usize {
	match p {
		Pos::Samples(s) => s,
		Pos::Seconds(s) => (s * sr as f64).round() as usize,
	}
}

fn gen_region(src: &mut Src, _ctx: &mut Ctx, len: usize, sr: u32) -> Option<RegionSpec> {
	if !src.chance(1, 3) {
		return None;
	}
	let start = gen_pos(src, len, sr);
	let end = if src.chance(1, 3) { None } else { Some(gen_pos(src, len, sr)) };
	Some(RegionSpec { start, end })
}

fn gen_settings(src: &mut Src, ctx: &mut Ctx, c: &Counts, opts: &GenOpts, len: usize, sr: u32, spatial: bool, streaming: bool) -> SoundSettings {
	let start_time = gen_start(src, c);
	let start_position = gen_pos(src, len, sr);
	let loop_region = gen_region(src, ctx, len, sr);
	let reverse = !streaming && src.chance(1, 5);
	SoundSettings {
		start_time,
		start_position,
		loop_region,
		reverse,
		volume: gen_v(src, ctx, c, opts, spatial, gen_db),
		rate: gen_v(src, ctx, c, opts, spatial, |s| if streaming { gen_rate(s).abs() } else { gen_rate(s) }),
		panning: gen_v(src, ctx, c, opts, spatial, gen_pan),
		fade_in: if src.chance(1, 4) { Some(gen_tween_c(src, c)) } else { None },
	}
}

fn gen_slice(src: &mut Src, _ctx: &mut Ctx, len: usize) -> Option<(usize, usize)> {
	if !src.chance(1, 4) {
		return None;
	}
	let a = src.usize_in(0, len + 2);
	let b = src.usize_in(0, len + 2);
	Some((a, b))
}

fn effective_len(len: usize, slice: Option<(usize, usize)>) -> usize {
	match slice {
		Some((a, b)) => b.min(len).saturating_sub(a),
		None => len,
	}
}

fn gen_where(src: &mut Src, c: &Counts) -> Where {
	if c.tracks > 0 && src.chance(2, 3) {
		Where::Track(src.index(c.tracks))
	} else {
		Where::Main
	}
}

fn gen_effects(src: &mut Src, ctx: &mut Ctx, sr: u32, c: &mut Counts) -> Vec<FxSpec> {
	let n = src.weighted(&[5, 3, 2, 1]);
	let mut v = vec![];
	for _ in 0..n {
		let fx = gen_fx(src, ctx, Domain::Wide, sr, 0);
		push_fx_handles(&fx, c, false);
		v.push(fx);
	}
	v
}

/// effect handles are numbered in build order: the effect itself, then (for a delay) its
/// feedback effects recursively
fn push_fx_handles(fx: &FxSpec, c: &mut Counts, in_loop: bool) {
	c.fx.push((fx.clone(), in_loop));
	if let FxSpec::Delay { inner, .. } = fx {
		for i in inner {
			push_fx_handles(i, c, true);
		}
	}
}

fn gen_track(src: &mut Src, ctx: &mut Ctx, c: &mut Counts, opts: &GenOpts, sr: u32) -> TrackSpec {
	let parent = gen_where(src, c);
	let spatial = if c.listeners > 0 && src.chance(1, 3) {
		let distances = match src.weighted(&[3, 4]) {
			0 => (1.0f32, 100.0f32),
			_ => (src.f64_uniform(0.0, 50.0) as f32, src.f64_uniform(0.0, 200.0) as f32),
		};
		Some(SpatialSpec {
			listener: src.index(c.listeners),
			position: gen_pos3(src),
			distances,
			attenuation: if src.chance(1, 4) { None } else { Some(gen_easing(src)) },
			strength: gen_v(src, ctx, c, opts, true, |s| s.f64_in(-0.5, 1.5)),
		})
	} else {
		None
	};
	let is_spatial = spatial.is_some();
	let volume = gen_v(src, ctx, c, opts, is_spatial, gen_db);
	let effects = gen_effects(src, ctx, sr, c);
	let mut sends = vec![];
	if c.sends > 0 {
		for _ in 0..src.weighted(&[4, 3, 1]) {
			let s = src.index(c.sends);
			if !sends.iter().any(|(i, _)| *i == s) {
				sends.push((s, gen_v(src, ctx, c, opts, is_spatial, gen_db)));
			}
		}
	}
	TrackSpec {
		parent,
		spatial,
		volume,
		effects,
		sends,
		persist: src.chance(1, 4),
		sound_capacity: src.pick(&[128usize, 1, 2, 4]),
		sub_track_capacity: src.pick(&[128usize, 1, 2]),
	}
}

fn min_rate(cfg_rate: u32, rates: &[u32]) -> u32 {
	rates.iter().copied().chain(std::iter::once(cfg_rate)).min().unwrap()
}

pub fn gen_program(src: &mut Src, ctx: &mut Ctx, opts: &GenOpts) -> Program {
	let sample_rate = if src.chance(1, 5) { src.int(8000, 192000) as u32 } else { src.pick(&STD_RATES) };
	let internal_buffer_size = match src.weighted(&[3, 3, 2]) {
		0 => src.pick(&[128usize, 1, 2, 3, 64]),
		1 => src.usize_in(1, 64),
		_ => src.usize_in(1, opts.max_ibs),
	};
	let channels = match src.weighted(&[5, 2, 2]) {
		0 => 2u16,
		1 => 1,
		_ => src.int(3, opts.max_channels.max(3) as i64) as u16,
	}
	.min(opts.max_channels);
	let mut c = Counts::default();
	let cap = |src: &mut Src, default: usize| -> usize {
		match src.weighted(&[5, 3]) {
			0 => default,
			_ => src.usize_in(1, 4),
		}
	};
	let mut config = Config {
		sample_rate,
		internal_buffer_size,
		channels,
		sub_track_capacity: cap(src, 128),
		send_track_capacity: cap(src, 16),
		clock_capacity: cap(src, 8),
		modulator_capacity: cap(src, 16),
		listener_capacity: cap(src, 8),
		main_sound_capacity: cap(src, 128),
		main_volume: VSpec::fixed(gen_db(src)),
		main_effects: vec![],
	};
	config.main_effects = gen_effects(src, ctx, sample_rate, &mut c);
	let _ = min_rate;
	let _ = delay_frames;

	let n_ops = src.usize_in(1, opts.max_ops);
	let mut ops = vec![];
	let mut cur_rate = sample_rate;
	for _ in 0..n_ops {
		// weights: simplest first (callback), creation ops, commands, drops, rate change
		let w = [
			12,                                       // 0 callback
			6,                                        // 1 play static
			if opts.streaming { 2 } else { 0 },       // 2 play stream
			4,                                        // 3 add track
			2,                                        // 4 add send
			2,                                        // 5 add clock
			if opts.links { 2 } else { 0 },           // 6 add lfo
			if opts.links { 2 } else { 0 },           // 7 add tweener
			2,                                        // 8 add listener
			if c.sounds > 0 { 8 } else { 0 },         // 9 sound cmd
			if c.tracks > 0 { 5 } else { 0 },         // 10 track cmd
			if c.clocks > 0 { 4 } else { 0 },         // 11 clock cmd
			if c.mods > 0 { 3 } else { 0 },           // 12 modulator cmd
			if c.listeners > 0 { 2 } else { 0 },      // 13 listener cmd
			if c.sends > 0 { 1 } else { 0 },          // 14 send volume
			if !c.fx.is_empty() { 4 } else { 0 },     // 15 fx cmd
			1,                                        // 16 main volume
			3,                                        // 17 drop
			if opts.rate_changes { 1 } else { 0 },    // 18 change rate
		];
		let op = match src.weighted(&w) {
			0 => {
				let ibs = internal_buffer_size;
				let n = match src.weighted(&[3, 3, 2, 2]) {
					0 => ibs,
					1 => src.usize_in(1, ibs * 3),
					2 => 1,
					_ => ibs * src.usize_in(1, 3),
				};
				Op::Callback(n.min(4096))
			}
			1 => {
				let wh = gen_where(src, &c);
				let spatial = matches!(wh, Where::Track(t) if c.spatial_tracks.contains(&t));
				let sr = if src.chance(1, 2) { cur_rate } else { src.pick(&[44100u32, 48000, 8000, 22050, 1000, 96000]) };
				let len = gen_len(src, opts.max_sound_len);
				let slice = gen_slice(src, ctx, len);
				let eff = effective_len(len, slice);
				let settings = gen_settings(src, ctx, &c, opts, eff, sr, spatial, false);
				c.sounds += 1;
				Op::PlayStatic(
					wh,
					StaticSpec {
						len,
						sample_rate: sr,
						content: gen_content(src),
						slice,
						settings,
					},
				)
			}
			2 => {
				let wh = gen_where(src, &c);
				let spatial = matches!(wh, Where::Track(t) if c.spatial_tracks.contains(&t));
				let sr = if src.chance(1, 2) { cur_rate } else { src.pick(&[44100u32, 48000, 8000, 22050, 1000]) };
				let len = gen_len(src, opts.max_sound_len).max(1);
				let slice = gen_slice(src, ctx, len);
				let eff = effective_len(len, slice);
				let settings = gen_settings(src, ctx, &c, opts, eff, sr, spatial, true);
				let mut packets = vec![];
				for _ in 0..src.usize_in(1, 3) {
					packets.push(match src.weighted(&[2, 3, 2]) {
						0 => 1,
						1 => src.usize_in(1, 64),
						_ => src.usize_in(64, 2048),
					});
				}
				c.sounds += 1;
				Op::PlayStream(
					wh,
					StreamSpec {
						len,
						sample_rate: sr,
						content: gen_content(src),
						slice,
						packets,
						seek_granularity: src.pick(&[1usize, 3, 64, 1152]),
						settings,
					},
				)
			}
			3 => {
				let t = gen_track(src, ctx, &mut c, opts, cur_rate);
				if t.spatial.is_some() {
					c.spatial_tracks.push(c.tracks);
				} else if let Where::Track(p) = t.parent {
					// descendants of spatial tracks inherit the listener
					if c.spatial_tracks.contains(&p) {
						c.spatial_tracks.push(c.tracks);
					}
				}
				c.tracks += 1;
				Op::AddTrack(t)
			}
			4 => {
				let volume = gen_v(src, ctx, &c, opts, false, gen_db);
				let effects = gen_effects(src, ctx, cur_rate, &mut c);
				c.sends += 1;
				Op::AddSend { volume, effects }
			}
			5 => {
				let s = gen_speed(src, ctx, &c, opts);
				c.clocks += 1;
				Op::AddClock(s)
			}
			6 => {
				let l = LfoSpec {
					waveform: gen_wave(src),
					frequency: gen_v(src, ctx, &c, opts, false, |s| match s.weighted(&[3, 4, 1]) {
						0 => s.pick(&[2.0, 0.0, 1.0, 100.0]),
						1 => s.f64_log(0.01, 1000.0),
						_ => s.f64_log(1000.0, 1e6),
					}),
					amplitude: gen_v(src, ctx, &c, opts, false, |s| s.f64_in(-4.0, 4.0)),
					offset: gen_v(src, ctx, &c, opts, false, |s| s.f64_in(-4.0, 4.0)),
					phase: gen_phase(src, ctx),
				};
				c.mods += 1;
				Op::AddLfo(l)
			}
			7 => {
				c.mods += 1;
				Op::AddTweener(src.f64_in(-4.0, 4.0))
			}
			8 => {
				c.listeners += 1;
				Op::AddListener(gen_pos3(src), gen_quat(src))
			}
			9 => {
				let i = src.index(c.sounds);
				let cmd = match src.weighted(&[3, 3, 2, 2, 3, 3, 2, 3, 2, 2]) {
					0 => SoundCmd::Volume(gen_v(src, ctx, &c, opts, true, gen_db), gen_tween_c(src, &c)),
					1 => SoundCmd::Rate(gen_v(src, ctx, &c, opts, true, gen_rate), gen_tween_c(src, &c)),
					2 => SoundCmd::Panning(gen_v(src, ctx, &c, opts, true, gen_pan), gen_tween_c(src, &c)),
					3 => SoundCmd::LoopRegion(gen_region(src, ctx, 64, cur_rate)),
					4 => SoundCmd::Pause(gen_tween_c(src, &c)),
					5 => SoundCmd::Resume(gen_tween_c(src, &c)),
					6 => SoundCmd::ResumeAt(gen_start(src, &c), gen_tween_c(src, &c)),
					7 => SoundCmd::Stop(gen_tween_c(src, &c)),
					8 => SoundCmd::SeekTo(gen_seek(src)),
					_ => SoundCmd::SeekBy(gen_seek(src) * src.pick(&[1.0, -1.0])),
				};
				Op::Sound(i, cmd)
			}
			10 => {
				let i = src.index(c.tracks);
				let cmd = match src.weighted(&[3, 3, 3, 2, if c.sends > 0 { 2 } else { 0 }, 2, 1]) {
					0 => TrackCmd::Volume(gen_v(src, ctx, &c, opts, true, gen_db), gen_tween_c(src, &c)),
					1 => TrackCmd::Pause(gen_tween_c(src, &c)),
					2 => TrackCmd::Resume(gen_tween_c(src, &c)),
					3 => TrackCmd::ResumeAt(gen_start(src, &c), gen_tween_c(src, &c)),
					4 => TrackCmd::Send(src.index(c.sends), gen_v(src, ctx, &c, opts, true, gen_db), gen_tween_c(src, &c)),
					5 => TrackCmd::Position(gen_pos3(src), gen_tween_c(src, &c)),
					_ => TrackCmd::Strength(gen_v(src, ctx, &c, opts, true, |s| s.f64_in(-0.5, 1.5)), gen_tween_c(src, &c)),
				};
				Op::Track(i, cmd)
			}
			11 => {
				let i = src.index(c.clocks);
				let cmd = match src.weighted(&[4, 2, 2, 2]) {
					0 => ClockCmd::Start,
					1 => ClockCmd::Pause,
					2 => ClockCmd::Stop,
					_ => ClockCmd::SetSpeed(gen_speed(src, ctx, &c, opts), gen_tween_c(src, &c)),
				};
				Op::Clock(i, cmd)
			}
			12 => {
				let i = src.index(c.mods);
				if src.bool() {
					Op::TweenerSet(i, src.f64_in(-4.0, 4.0), gen_tween_c(src, &c))
				} else {
					let cmd = match src.weighted(&[2, 2, 2, 2, 2]) {
						0 => LfoCmd::Waveform(gen_wave(src)),
						1 => LfoCmd::Frequency(gen_v(src, ctx, &c, opts, false, |s| s.f64_log(0.01, 1e4)), gen_tween_c(src, &c)),
						2 => LfoCmd::Amplitude(gen_v(src, ctx, &c, opts, false, |s| s.f64_in(-4.0, 4.0)), gen_tween_c(src, &c)),
						3 => LfoCmd::Offset(gen_v(src, ctx, &c, opts, false, |s| s.f64_in(-4.0, 4.0)), gen_tween_c(src, &c)),
						_ => LfoCmd::Phase(gen_phase(src, ctx)),
					};
					Op::Lfo(i, cmd)
				}
			}
			13 => {
				let i = src.index(c.listeners);
				if src.bool() {
					Op::ListenerPos(i, gen_pos3(src), gen_tween_c(src, &c))
				} else {
					Op::ListenerOrient(i, gen_quat(src), gen_tween_c(src, &c))
				}
			}
			14 => Op::SendVolume(src.index(c.sends), gen_v(src, ctx, &c, opts, false, gen_db), gen_tween_c(src, &c)),
			15 => {
				let fx = src.index(c.fx.len());
				let param = src.index(6);
				let variant = src.index(4);
				let (spec, in_loop) = c.fx[fx].clone();
				let v = gen_v(src, ctx, &c, opts, true, |s| gen_fx_param(s, &spec, param, cur_rate));
				let tween = gen_tween_c(src, &c);
				if in_loop {
					// parameters of effects inside a feedback loop are left alone: raising
					// their gain could push the loop gain above 1 (divergence by design)
					ctx.count("fx-command-on-feedback-loop-effect-skipped", 1);
					Op::Callback(internal_buffer_size)
				} else {
					Op::Fx(FxCmd {
						fx,
						param,
						v,
						tween,
						variant,
					})
				}
			}
			16 => Op::MainVolume(gen_v(src, ctx, &c, opts, false, gen_db), gen_tween_c(src, &c)),
			17 => {
				let kinds = [(Kind::Sound, c.sounds), (Kind::Track, c.tracks), (Kind::Clock, c.clocks), (Kind::Modulator, c.mods), (Kind::Listener, c.listeners), (Kind::Send, c.sends)];
				let avail: Vec<(Kind, usize)> = kinds.iter().copied().filter(|(_, n)| *n > 0).collect();
				if avail.is_empty() {
					Op::Callback(internal_buffer_size)
				} else {
					let (k, n) = avail[src.index(avail.len())];
					Op::Drop(k, src.index(n))
				}
			}
			_ => {
				cur_rate = if src.chance(1, 4) { src.int(8000, 192000) as u32 } else { src.pick(&STD_RATES) };
				Op::ChangeSampleRate(cur_rate)
			}
		};
		ops.push(op);
	}
	// always end with some audio
	for _ in 0..src.usize_in(1, 3) {
		ops.push(Op::Callback(src.usize_in(1, internal_buffer_size * 2).min(4096)));
	}
	// one program in 150 ends with a loud sound through two expanding compressors in a row (ratios
	// between 0 and 1 are documented to expand the signal): the place where f32 arithmetic overflows
	if src.chance(1, 150) {
		let expander = |mix: f32| FxSpec::Compressor {
			threshold: -60.0,
			ratio: 0.1,
			attack_s: 0.0,
			release_s: 0.0,
			makeup_db: 12.0,
			mix,
		};
		ops.push(Op::AddTrack(TrackSpec {
			parent: Where::Main,
			spatial: None,
			volume: VSpec::fixed(0.0),
			effects: vec![expander(1.0), expander(src.pick(&[0.0f32, 0.5, 1.0]))],
			sends: vec![],
			persist: false,
			sound_capacity: 8,
			sub_track_capacity: 8,
		}));
		ops.push(Op::PlayStatic(
			Where::Track(c.tracks),
			StaticSpec {
				len: 64,
				sample_rate: cur_rate,
				content: Content::Dc(0.9, -0.9),
				slice: None,
				settings: SoundSettings {
					start_time: StartSpec::Immediate,
					start_position: Pos::Samples(0),
					loop_region: Some(RegionSpec { start: Pos::Samples(0), end: None }),
					reverse: false,
					volume: VSpec::fixed(0.0),
					rate: VSpec::fixed(1.0),
					panning: VSpec::fixed(0.0),
					fade_in: None,
				},
			},
		));
		ops.push(Op::Callback(internal_buffer_size.min(256) * 2));
	}
	Program { config, ops }
}

fn gen_wave(src: &mut Src) -> WaveSpec {
	match src.index(4) {
		0 => WaveSpec::Sine,
		1 => WaveSpec::Triangle,
		2 => WaveSpec::Saw,
		_ => WaveSpec::Pulse(src.f64_in(0.0, 1.0)),
	}
}

fn gen_phase(src: &mut Src, _ctx: &mut Ctx) -> f64 {
	match src.weighted(&[3, 3, 2]) {
		0 => src.pick(&[0.0, 1.5707963, 3.1415926, -1.5707963]),
		1 => src.f64_uniform(0.0, 6.2831853),
		_ => src.f64_uniform(-50.0, 50.0),
	}
}

fn gen_seek(src: &mut Src) -> f64 {
	match src.weighted(&[3, 4, 2]) {
		0 => src.pick(&[0.0, 0.001, 0.01, 1.0]),
		1 => src.f64_log(1e-5, 0.1),
		_ => src.f64_uniform(0.0, 100.0),
	}
}

/// a value for the `param`-th settable parameter of an effect (same domains as the builders)
pub fn gen_fx_param(src: &mut Src, spec: &FxSpec, param: usize, sr: u32) -> f64 {
	let srf = sr as f64;
	match spec {
		FxSpec::Filter { .. } => match param % 3 {
			0 => src.f64_log(10.0, srf),
			1 => src.f64_in(-0.5, 1.5),
			_ => src.f64_in(-0.5, 1.5),
		},
		FxSpec::Eq { .. } => match param % 3 {
			0 => src.f64_log(10.0, srf),
			1 => src.f64_in(-30.0, 30.0),
			_ => src.f64_log(1e-3, 50.0),
		},
		FxSpec::Delay { feedback_db, .. } => match param % 2 {
			// feedback is kept at or below the value the loop was built with (loop stability)
			0 => src.f64_in(-80.0, (*feedback_db as f64).max(-80.0)),
			_ => src.f64_in(-0.5, 1.5),
		},
		FxSpec::Reverb { .. } => match param % 4 {
			0 => src.f64_in(0.0, 1.0),
			1 => src.f64_in(0.0, 1.0),
			2 => src.f64_in(0.0, 1.0),
			_ => src.f64_in(-0.5, 1.5),
		},
		FxSpec::Compressor { .. } => match param % 6 {
			0 => src.f64_uniform(-60.0, 6.0),
			1 => src.f64_log(0.1, 1000.0),
			2 => src.dur(0.5).as_secs_f64(),
			3 => src.dur(1.0).as_secs_f64(),
			4 => src.f64_in(-12.0, 12.0),
			_ => src.f64_in(-0.5, 1.5),
		},
		FxSpec::Distortion { .. } => match param % 2 {
			0 => src.f64_in(-70.0, 60.0),
			_ => src.f64_in(-0.5, 1.5),
		},
		FxSpec::Volume { .. } => gen_db(src),
		FxSpec::Panning { .. } => gen_pan(src),
	}
}
