pub mod fx;
pub mod signal;
pub mod ast;
pub mod exec;
pub mod gen;
