pub mod fx;
pub mod signal;
