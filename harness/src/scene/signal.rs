//! Deterministic test signals decoded from the tape.

use crate::engine::Src;
use kira::Frame;

#[derive(Debug, Clone, Copy, PartialEq)]
pub enum SigKind {
	Silence,
	Impulse,
	Step,
	Dc,
	Noise,
	FullScaleSquare,
	Denormal,
	Sine,
	Sparse,
}

#[derive(Debug, Clone, Copy, PartialEq)]
pub struct SigSpec {
	pub kind: SigKind,
	pub amp: f32,
	pub seed: u32,
	/// for Sine: cycles per frame
	pub freq: f64,
	pub stereo_skew: f32,
}

pub fn gen_sig(src: &mut Src, allow_silence: bool) -> SigSpec {
	let kinds = [SigKind::Impulse, SigKind::Noise, SigKind::Step, SigKind::Dc, SigKind::Sine, SigKind::FullScaleSquare, SigKind::Sparse, SigKind::Denormal, SigKind::Silence];
	let n = if allow_silence { kinds.len() } else { kinds.len() - 1 };
	let kind = kinds[src.index(n)];
	SigSpec {
		kind,
		amp: match src.weighted(&[3, 4, 1]) {
			0 => src.pick(&[1.0f32, 0.5, 0.1, 0.999]),
			1 => src.f32_in(0.001, 1.0),
			_ => src.f32_in(1.0, 4.0),
		},
		seed: src.raw() | 1,
		freq: src.f64_log(1e-4, 0.5),
		stereo_skew: src.pick(&[1.0f32, 0.0, -1.0, 0.5]),
	}
}

pub fn render_sig(spec: &SigSpec, n: usize) -> Vec<Frame> {
	let mut out = Vec::with_capacity(n);
	let mut state = spec.seed as u64 | 1;
	let mut next = || {
		// xorshift64*
		state ^= state >> 12;
		state ^= state << 25;
		state ^= state >> 27;
		let r = state.wrapping_mul(0x2545F4914F6CDD1D);
		((r >> 40) as f32 / (1u64 << 24) as f32) * 2.0 - 1.0
	};
	for i in 0..n {
		let (l, r) = match spec.kind {
			SigKind::Silence => (0.0, 0.0),
			SigKind::Impulse => {
				if i == 0 {
					(spec.amp, spec.amp * spec.stereo_skew)
				} else {
					(0.0, 0.0)
				}
			}
			SigKind::Step => {
				if i >= n / 4 {
					(spec.amp, spec.amp * spec.stereo_skew)
				} else {
					(0.0, 0.0)
				}
			}
			SigKind::Dc => (spec.amp, spec.amp * spec.stereo_skew),
			SigKind::Noise => {
				let a = next() * spec.amp;
				let b = next() * spec.amp;
				(a, b)
			}
			SigKind::FullScaleSquare => {
				let s = if (i / 7) % 2 == 0 { 1.0 } else { -1.0 };
				(s, s * spec.stereo_skew)
			}
			SigKind::Denormal => {
				let v = f32::from_bits(1 + (next().abs() * 1000.0) as u32);
				(v, -v)
			}
			SigKind::Sine => {
				let v = (std::f64::consts::TAU * spec.freq * i as f64).sin() as f32 * spec.amp;
				(v, v * spec.stereo_skew)
			}
			SigKind::Sparse => {
				let a = next();
				if a > 0.9 {
					(next() * spec.amp, next() * spec.amp)
				} else {
					(0.0, 0.0)
				}
			}
		};
		out.push(Frame::new(l, r));
	}
	out
}

/// Partition of `n` frames into slices of 1..=max_len frames.
pub fn gen_partition(src: &mut Src, n: usize, max_len: usize) -> Vec<usize> {
	let mode = src.weighted(&[3, 2, 2, 3]);
	let mut parts = vec![];
	let mut left = n;
	let fixed = src.usize_in(1, max_len);
	while left > 0 {
		let want = match mode {
			0 => max_len,
			1 => 1,
			2 => fixed,
			_ => src.usize_in(1, max_len),
		};
		let k = want.min(left);
		parts.push(k);
		left -= k;
	}
	parts
}
