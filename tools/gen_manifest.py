#!/usr/bin/env python3
"""Regenerates /verif/MANIFEST.json from the table below (kept in one place so it stays valid)."""
import json, os, subprocess

ROOT = os.path.dirname(os.path.dirname(os.path.abspath(__file__)))

def repo_commits(prefix):
    out = subprocess.run(["git", "-C", "/repo", "log", "--format=%h %s"], capture_output=True, text=True).stdout
    return [l.split()[0] for l in out.splitlines() if l.split(" ", 1)[1].startswith(prefix)]

CLAIMS = {
    "C18": dict(
        level="fault_enumeration",
        technique="round-trip and differential property-based testing with an independent RIFF/WAVE encoder (static decode vs encoder values, streaming vs static, seek sequences on index-coded files), generated single-byte corruptions and truncations of valid files, and the repository's compressed assets",
        text="Generated WAV files in every PCM encoding / channel count / length / rate are encoded by an independent writer and must load to exactly the encoded values; the same bytes streamed at rate 1 must yield exactly the loaded frames from any start position, and seek sequences on index-coded files must continue contiguously from the requested frame; every generated single-byte corruption (header-biased) and truncation point must give an error or a prefix, never a panic, a hang (watchdog) or more frames than bytes; the shipped ogg/wav assets are streamed and loaded and compared frame for frame. Random enumeration of fault positions with shrinking.",
        note="Decoder threads are real and kept ahead through hook H2. Compressed assets are compared from any start position and across loop wraps (the non-zero start was a finding, fixed in /repo 4a3a6aa); the thorough tier adds a libFuzzer stage (fuzz/c18_decode, 250 000 runs, oracle inside the target, artifacts confirmed by a strict replay before they count).",
        design="5/C18",
    ),
    "C14": dict(
        level="exploration",
        technique="differential property-based testing against independent reference implementations: analytic magnitude responses of the cited state-variable designs vs measured sine gains, f64 re-implementations (SVF, delay line with feedback effects, Freeverb network) compared sample by sample, closed-form compressor / distortion / decibel / equal-power laws",
        text="Each case builds one effect through its public builder with generated parameters and sample rate and checks it against a reference written from the cited papers and sources: measured sine gain vs the analytic response (filter, EQ) with corner / centre / shelf landmarks, sample-by-sample agreement (filter on noise, delay impulse trains incl. non-linear feedback effects, reverb vs an f64 Freeverb network, decaying tail), compressor steady-state reduction, attack and release time constants per channel (signal on both, left only, right only), filter / EQ responses also on an instance that lived through a device-rate change, distortion curves and small-signal transparency, volume and panning laws. Search with shrinking. Added in the last session: an EQ band that rested at exactly 0 dB and is sent to another gain must agree frame by frame with the same band started 0.001 dB away (the filter state follows the input while the band is flat).",
        note="The filter's resonance-to-damping mapping (k = 2 - 1.9 r) is taken from the implementation it cites. Tolerances (0.1 dB widened for corners far below the sample rate, 1e-5 .. 2e-4 per sample) are stated in the rule.",
        design="5/C14",
    ),
    "C16": dict(
        level="exploration",
        technique="stateful property-based testing with probe effects recording init / on_change_sample_rate / dt through generated add-track / change-rate / callback histories, plus metamorphic checks of seconds and hertz across a mid-stream rate change",
        text="Histories of adding tracks (nested, send, main), dropping them, changing the device rate (8k..192k) and running callbacks in any order are audited through probe effects: at every process call dt and the last announced rate must be the rate in force. With a rate change at a generated callback, an index-coded sound must keep pitch (1.5 frames) and duration (one callback), a clock its speed (1e-9), a volume tween its duration (one callback), a delay its time (exact frame), a low-pass its corner gain (0.2 dB). Any built-in effect (feedback effects nested in delays included) that has only processed silence at one rate and is then told another must match a fresh instance at the new rate. Search with shrinking. Added in the last session: an impulse in flight in a delay line when the rate changes may be dropped, but any echo of it must come out at a multiple of the delay time in seconds of audio.",
        note="The schedule 'rate read, rate changes, track enqueued' inside add_sub_track is represented by its sequential form (track queued, then change), which is the known finding excluded by construction; no H4 hook was needed.",
        design="5/C16",
    ),
    "C15": dict(
        level="exploration",
        technique="property-based testing with a reference formula plus metamorphic relations between renders (monotonicity along a ray, mirroring, rigid motion, strength 0, listener drop / slot reuse, tween end state, nesting) through the real manager",
        text="Generated listener / emitter geometries (coincident, axis-aligned, in range, up to 1e5 units away), distance ranges, attenuation curves, strengths and stereo inputs are rendered through the manager; the steady-state frame must match the documented level = attenuation(distance) x ear-gain model (f64) and satisfy one of twelve relations between independent renders (monotone along a ray, mirroring, rigid motion, strength 0, dropped listener / slot reuse, listener-distance parameters on the track, a plain child and a plain grandchild, tweens ending at the static result, a move commanded before the first callback being complete from the second one on, nesting). Search with shrinking. Added in the last session: tracks moved while they are still empty and played on afterwards; a NaN that the renderer had to replace by silence (hook kira::verif::nan_scrubbed) counts as non-finite spatial output.",
        note="Tolerances scale with coordinate magnitude (f32 positions), the steepness of the attenuation curve and the jump of the decibel scale at -60 dB; all stated in the evidence.",
        design="5/C15",
    ),
    "C17": dict(
        level="exploration",
        technique="model-based property testing: LFO driven directly against an independent waveform/phase model over generated set_*/update histories, and modulator -> parameter chains through the real renderer with probe modulators and probe effects recording per-internal-buffer values",
        text="LFOs (four waveforms, frequencies to 1e5 Hz, signed amplitudes/offsets/phases, tweens, set_phase/set_waveform) must stay within offset +- |amplitude| and on the documented curve after every update; through the renderer, probe-effect parameters linked to tweeners, LFOs and probe modulators via generated mappings (inverted ranges, all easings) must equal the mapping of the modulator's value of the same internal buffer, hold after the modulator is dropped, and probe modulators must be updated exactly once per buffer with the right dt; a sound whose volume is linked to a modulator and whose start is delayed must come in at the mapped gain. Search with shrinking. Added in the last session: once a modulator is removed the linked parameter holds its value over the whole internal buffer (both ends are recorded), not only at its end.",
        note="The tweener's curve is C06's. The order-dependent one-buffer lag of a modulator linked to a later-created modulator is a known finding excluded by construction.",
        design="5/C17",
    ),
    "C05": dict(
        level="exploration",
        technique="model-based stateful property testing of real clocks through the renderer (clock integrator model, event-buffer prediction) plus schedule enumeration of ClockHandle::time() against the audio thread's stores through hook points H1 (baton-passing between two real threads)",
        text="Part A: histories of up to four clocks (three speed units, speed tweens incl. ones scheduled on other clocks, start / pause / stop / drop) with sound starts, parameter tweens and resumes scheduled for whole and fractional clock times are rendered with generated buffer sizes and callback partitions; time()/ticking() must equal speed x elapsed audio time (1e-9) and every event must begin in exactly the internal buffer in which the model clock reaches its time (or be cancelled when the clock is gone). Part B: for every (callback, time() read) pair the harness fixes the order of the reader's two loads and the audio thread's two stores (all six orders; the two straddling orders are a known finding and are excluded from the search but replayed as witnesses); every read must be a published clock value and reads must not go backwards. Search with shrinking; part B enumerates all orders per pair but not all pair sequences.",
        note="Part B owns the schedule only at the four hook points (sequentially consistent atomics, so these are the only observable orders of one read against one publication). Speed tweens are linear.",
        design="5/C05",
    ),
    "C08": dict(
        level="exploration",
        technique="model-based stateful property testing: accounting model of every resource pool run alongside a real AudioManager over generated create / drop / finish / callback histories, probe destructors recording where resources die, plus slot-reuse scenarios for stale ids, plus schedule enumeration of the create path against the audio thread's remove-and-add step through hook points H3 (baton-passing between two real threads, all ten orders)",
        text="Histories over every resource kind and every capacity in {0,1,2,3,5} are executed against the real manager; the model predicts every creation result (success iff below capacity, otherwise the documented error, never a panic), every count and capacity accessor after every step, and the callback at which each marked resource leaves (next callback if picked up, one later otherwise; tracks only when no live descendant needs them). Probe sounds/effects record the place of their destruction (never inside a callback; callbacks free no memory). Capacity-1 slots of clocks, modulators, listeners and send tracks are reused 1..4 times and the old id must keep behaving as missing. Search with shrinking.",
        note="Schedules are controlled at the five H3 hook points (reserve, drain, push; removal pass, refill): all scenarios up to capacity 2 (thorough 3) for modulators, main-track sounds, clocks and sub-tracks are enumerated in all ten orders, larger ones are random. Interleavings inside the lock-free rings / arena of the external crates are not controlled; see DESIGN.md section 7.",
        design="5/C08",
    ),
    "C12": dict(
        level="exploration",
        technique="model-based stateful property testing: reference track-tree model (five-state machine per track, freeze propagation, removal / persistence rules) evaluated in f64 alongside a real AudioManager over generated pause / resume / resume_at / drop histories with index-coded sounds",
        text="Track trees with index-coded probe sounds and DC static sounds (start delays, fade-ins) are driven through pause / resume / resume_at (delayed, clock) histories with timed fades on any node, clock adds/drops and handle drops in any order with persistence on or off; every output frame is compared with the reference model (so a frozen subtree must be exactly silent and must continue from exactly the frozen frame, delays and fades included), TrackHandle::state() is called on every live handle after every callback and must return one of the five states within one callback of the reference, and the sub-track / sound counts must match the removal rules. Search with shrinking.",
        note="Linear fades with immediate start; the clock is a real kira clock modelled as speed x audio time. The known finding (resume_at on a dropped clock) is excluded by construction and replayed as a witness.",
        design="5/C12",
    ),
    "C02": dict(
        level="exploration",
        technique="model-based stateful property testing: independent f64 signal-flow evaluator for the whole mixer run alongside a real AudioManager over generated build/drop/pause/volume histories, plus audit of probe sound/effect call logs",
        text="Generated track trees (depth <= 4), send tracks with route tables, probe sounds and non-commuting probe effects on every node are rendered through the real renderer while histories of adding/removing tracks and sounds, pausing, dropping handles and changing volumes (zero-length to multi-callback tweens) unfold; every output frame is compared with a reference evaluation of the documented signal flow (1e-5, exact zero where nothing is routed), and every probe's call log is audited for 'each frame exactly once, in order, slices <= internal buffer, dt = 1/rate'. Search with shrinking.",
        note="Summation order is not modelled (tolerance 1e-5); pause/resume are instantaneous here (timed track fades: C12); tween laws themselves: C06.",
        design="5/C02",
    ),
    "C11": dict(
        level="exploration",
        technique="metamorphic property-based testing: the same generated scene rendered from fresh managers under two (internal buffer size, callback partition) configurations and compared frame by frame",
        text="Scenes with fixed parameters (static sounds at any rate/loop/pan/reverse/sample rate, track trees, sends, optional spatial tracks, all eight built-in effects incl. nested delay feedback) are rendered twice with independent buffer sizes 1..4096 and callback partitions (one-frame callbacks, non-multiples, buffers larger than the render); outputs must be bit-identical for scenes without recursive effects and spatial tracks, within 1e-6 with recursive effects (1e-5 with spatial tracks). Search with shrinking. The bound for scenes with spatial tracks also carries distortion drives and volumes above 0 dB (they amplify the spatial tracks' ulp noise).",
        note="Both renders come from the implementation itself (a metamorphic relation, no reference model). Spatial tracks get a tolerance because their per-frame listener interpolation is not bit-stable by 1-2 ulp; that is stated in the evidence.",
        design="5/C11",
    ),
    "C03": dict(
        level="exploration",
        technique="model-based stateful property testing: reference life-cycle state machine (from the handle documentation) run alongside static and streaming Box<dyn Sound> over generated command histories; bounded-exhaustive enumeration of all short command sequences",
        text="Command histories (pause / resume / resume_at / stop / seek / set_*) with generated tweens and start times, issued at arbitrary callback boundaries relative to the sound's own start time, running fades and natural end, are executed against both sound types next to a reference state machine; reported states must stay within one callback of it, silence and frozen position are exact while not advancing, Stopped is final, the DC gain envelope follows the reference fade, is monotone and ends exactly at silence / unity. All sequences up to depth 3 (thorough: 4) over a 10-letter alphabet x 3 spacings are enumerated exhaustively, longer ones are random. Unloading and slot reuse are checked through a real manager.",
        note="Sounds are driven directly with MockInfoBuilder (mock clock at end-of-chunk time); the unload sub-check uses AudioManager with the custom backend. Exhaustive only within the stated depth and alphabet.",
        design="5/C03",
    ),
    "C10": dict(
        level="fault_enumeration",
        technique="fault-injection property-based testing with a scripted decoder (k-th decode / seek call fails once or forever) and real decoder threads paced through hook H2, over generated scenarios (natural end, stop, refused by a full track, track / manager dropped, paused parent) and decoder paces; bounded-exhaustive enumeration of every fault position of short streams",
        text="Every case plays one streaming sound over a scripted decoder through the real manager. The decoder object's Drop is the observation that the decoding thread has ended: it must be seen within 4 s of the sound finishing, being stopped, failing, being refused by a full track or being discarded with its manager; the decode loop must not run without sleeping while it delivers nothing; after a scripted fault the sound must be Stopped after the next processed callback (after resume for a paused parent), unloaded one callback later, silent, and pop_error() must return the first fault; with a starving or stalled decoder the audible frames must be a strictly increasing subsequence of the index-coded source with at most one frame skipped per gap. All fault positions for stream lengths 1..24 (thorough 1..64) x packet sizes 1..4 (1..8) x once/forever x main/sub-track are enumerated; longer streams, scenarios and paces are random. Added in the last session: playback rates 1, 2 and 4 under starvation, sliced streams whose slice reaches past the audio with start positions up to the nominal end, no decoder error without a scripted fault, and a sound left to play with a decoder that keeps ahead must report Stopped once its audio is used up.",
        note="'Bounded time' is fixed at 4 s and the idle-spin bound at 2w+50 iterations per w ms. The track-handle-dropped scenario is a known finding (excluded by construction, replayed as a witness). The harness owns the schedule at decoder-step granularity, not inside a step.",
        design="5/C10",
    ),
    "C07": dict(
        level="exploration",
        technique="model-based stateful and metamorphic property testing of command delivery through the real manager (setter-vs-built steady-state relation for every setter; reference that applies the last command of each kind once at the start of the next callback: volume paths, token probes built on kira::command, seek jumps, decoder delivery log through hook H2, clock and tweener models) plus randomised real-thread races on the command primitive and on handles with monotone self-checking payloads",
        text="Seven generated scenario families: a metamorphic relation over 43 setters of every handle type (scene built with A, setter called with B alone or as last of a burst, before the first or a later callback, instantly or tweened, must reach the steady state of a scene built with B, and A and B must be told apart by the same measure); volume setters with tweens on four resources of one signal path compared frame by frame with the reference; probe Sound / Effect / Modulator objects that read a token reader once per on_start_processing (reads must be exactly the last token of each burst, once, in the following callback, including tokens written before the probe is added or before its first callback); seek bursts on a static sound (exactly one audible jump, in the next callback, by the last command) and seek / loop-region bursts on a streaming sound whose decoder gets 0..130 steps per gap (delivered indices must equal a reference transport that applies the last command at the decoder's next step); clock start / pause / stop / set_speed and tweener set() bursts against reference models; a writer thread racing a reader on one CommandWriter / CommandReader pair (untorn, strictly newer, last write read); a gameplay thread playing a sound and raising volumes while callbacks run (output never decreases, ends at the last value). Search with shrinking. Added in the last session: token probes on tracks nested under other tracks, sounds that receive commands while waiting for a delayed start, tweens written with a delay of zero, and a persisting track whose handle is dropped in the gap of its last command.",
        note="No yield-point hook (H3) was added: the triple buffer is an external crate, so whole-operation orders are exactly the generated histories, and orders inside a write/read are only reached by the two real-thread families, whose schedule belongs to the operating system (a torn or stale read there is detected when it happens, but cannot be forced).",
        design="5/C07",
    ),
    "C09": dict(
        level="exploration",
        technique="differential property-based testing: the same generated audio, settings and command history played as a static sound and as two streaming sounds over scripted decoders (different packet splits / seek behaviour), compared bit-for-bit in lock-step",
        text="Each case runs three implementations side by side on identical process() calls and compares output frames bit-for-bit, playback states after every chunk and reported positions within one frame; the second streaming sound differs only in packet sizes and seek granularity, which must not change a single sample. The decoder threads are real; the harness owns their schedule at decoder-step / callback granularity through hook H2 so that 'the decoder keeps ahead' holds deterministically. Random search with shrinking, including streams longer than the 16384-frame ring, fades that outlast what the ring holds, and start positions at or past the end. Added in the last session: half of the long cases at speed 1 put a callback boundary where the stream's 16384-slot frame ring wraps (reported position and output must not depend on it).",
        note="Sounds are driven directly with MockInfoBuilder. No seeks (as the property says). Playback speed x chunk size is kept below the ring size, otherwise no decoder can keep ahead.",
        design="5/C09",
    ),
    "C06": dict(
        level="exploration",
        technique="stateful property-based testing of kira::Parameter<T> and the tweener modulator against an independent tween model (own easing curves, exact start localisation) over generated set()/update() histories",
        text="Histories of overlapping set() calls and update steps (zero / sub-update / long durations, all easings, immediate / delayed / clock starts, ten tweenable types plus the tweener modulator) are checked after every update: exact hold before the start, value on the model curve within float tolerance, exactly the target after the end, never outside [start, target], continuity of previous/interpolated values. The timing allowance of the property (one update for delayed and clock starts) is encoded in where the model lets the tween start. One case in six tweens a live volume (main track, sub-track, sound, volume-control effect) of a DC signal path through the real manager with callback sizes that are not multiples of the internal buffer and checks the output against the curve in elapsed audio time. Random search with shrinking. Added in the last session: volume tweens on a sub-track that is empty while the tween runs (the sound arrives later).",
        note="Parameters are driven directly with MockInfoBuilder (the mock clock shows end-of-update time, as the renderer does). The start value of a retarget is read from the parameter itself.",
        design="5/C06",
    ),
    "C01": dict(
        level="exploration",
        technique="stateful property-based testing: generated manager/handle operation programs interleaved with device callbacks, invariant monitors (counting allocator, panic capture, watchdog, output scan) after every callback, differential 1/2/k-channel rendering",
        text="Random programs over the whole public API (every resource kind, every built-in effect incl. nested delay feedback, every handle setter with generated tweens, drops, sample-rate changes, streaming sounds with hook-controlled decoder threads) are executed against a real AudioManager whose backend owns the Renderer; every callback is monitored for panics, heap allocation/free, unwritten / non-finite / out-of-range samples, non-silent extra channels, and a watchdog catches callbacks that never return; deterministic programs are re-rendered with 1 and k channels and compared bit-for-bit. A search with shrinking over a very large space, not a proof of absence.",
        note="The callback contract of the cpal backend is reproduced by a custom Backend (on_start_processing + process on one thread). Arguments are finite and inside a stated magnitude box; known-finding input classes are excluded by construction and counted.",
        design="5/C01",
    ),
    "C04": dict(
        level="exploration",
        technique="model-based property testing: independent f64 reference player (transport + 4-point Hermite) run side by side with Box<dyn Sound>, bit-exact comparison at rate +-1, bounded-exhaustive enumeration of all small cases",
        text="Every case is compared frame by frame with a reference player written from the documented transport semantics: bit-for-bit (including first frame, loop wraps, reverse, slice edges, exact silence after the end, Stopped timing) when rate is +-1 at equal sample rates, within 1e-5 otherwise; seeks, loop-region changes and rate changes at arbitrary chunk boundaries; reported position and seek landing within one frame. All small cases (length <= 6 quick, <= 9 thorough) are enumerated exhaustively; larger ones are random. Added in the last session: position() is also read before the first callback.",
        note="The sound is driven directly (SoundData::into_sound + MockInfoBuilder), as the property's observe_at says. Device rates with R*(1/R) != 1.0 in f64 are a known finding and excluded from the bit-exact mode.",
        design="5/C04",
    ),
    "C13": dict(
        level="exploration",
        technique="property-based testing: metamorphic relations (dry identity, zero-in/zero-out, superposition, re-partitioning) on Box<dyn Effect> over generated parameters, rates, signals and slice partitions",
        text="Every built-in effect (and delays with nested feedback effects) is built through its public builder and driven with generated parameters from the documented ranges and their edges, sample rates 8k..192k, eight signal families and two independent partitions into process() slices; five oracles per case. Search over a large generated space with shrinking, not a proof.",
        note="Effects are driven outside the mixer with a MockInfoBuilder Info; feedback loops are restricted to provable loop gain <= 0.95 (divergence above 1 is by design). Tolerances in the evidence assumptions.",
        design="5/C13",
    ),
    "C19": dict(
        level="exploration",
        technique="property-based testing (proptest choice tape) + exhaustive f32 bit-pattern sweep against f64 reference laws",
        text="Random boundary-biased cases for every conversion / ClockTime operation / easing / mapping named in the property, each against an independent law (f64 reference, algebraic round trip, order agreement, 4097-point monotonicity grid); Decibels::as_amplitude and Frame::panned are swept over f32 bit patterns in value order (thorough: all 2^32, i.e. exhaustive for those two functions). Search, not proof, for the f64-valued parts.",
        note="Trusts f64 powf/libm as the reference; tolerances are stated in the evidence assumptions. NaN inputs are outside the property's 'ordered finite inputs'.",
        design="5/C19",
    ),
}

# properties whose cases run in-process without process-wide state (harness/src/fuzzing.rs::TAPE_FUZZABLE)
TAPE_FUZZABLE = ["C02", "C04", "C06", "C11", "C12", "C13", "C14", "C15", "C16", "C17", "C19"]

PENDING_REASON = "check not built yet in this session (work in progress; see DESIGN.md section 5 for the planned generated-input check)"

def main():
    props = [json.loads(l) for l in open(os.path.join(ROOT, "properties.jsonl"))]
    checks, na = [], []
    for p in props:
        pid = p["id"]
        c = CLAIMS.get(pid)
        if not c:
            na.append({"property_id": pid, "reason": PENDING_REASON})
            continue
        note, technique = c["note"], c["technique"]
        if pid in TAPE_FUZZABLE:
            note += " The thorough tier ends with a coverage-guided stage: the libFuzzer target fuzz/tape_prop mutates the choice tape itself (16 processes x 60 000 runs, own seeds and corpora, seed corpus of random full-length tapes), the same generator and oracle run inside the target, and an artifact counts only after the strict replay (kverif bytes) has confirmed it; it is then shrunk and saved as an ordinary replay file."
            technique += "; thorough tier: plus coverage-guided fuzzing (libFuzzer) of the same choice tape with the same oracle in the target"
        checks.append({
            "property_id": pid,
            "quick_cmd": f"./check {pid} quick",
            "thorough_cmd": f"./check {pid} thorough",
            "evidence_file": f"/verif/evidence/{pid}.json",
            "replay_cmd_template": f"./check {pid} --replay {{path}}",
            "engine": "kverif",
            "level_claimed": {"category": c["level"], "text": c["text"], "design_ref": c["design"]},
            "level_note": note,
            "technique": technique,
        })
    manifest = {
        "version": 1,
        "setup_cmd": "./check --build",
        "hooks": {
            "guard": "--cfg kira_verif",
            "enable": "harness/.cargo/config.toml sets rustflags = [\"--cfg\", \"kira_verif\"]; the harness depends on /repo/crates/kira by path, so every check rebuilds kira from /repo's working tree with the hooks compiled in",
            "baseline_off_cmd": "cd /repo && cargo test --workspace --no-fail-fast --offline",
            "source_commits": repo_commits("verif hooks"),
            "add_only": True,
        },
        "engines": [{
            "name": "kverif",
            "path": "/verif/harness",
            "serves_properties": [c["property_id"] for c in checks],
            "kind_free_text": "Rust crate: proptest-driven choice tape (Vec<u32>) decoded into cases, per-property oracle, in-house tape shrinker, 16 worker processes, replay files, evidence writer; two libFuzzer targets under /verif/fuzz (c18_decode: raw file bytes; tape_prop: the choice tape of 11 properties) run as the last stage of the thorough tiers",
        }],
        "checks": checks,
        "not_applicable": na,
        "notes": "Exit codes: 0 held, 1 violation (VIOLATION line + replay file), 2 inconclusive (build failure / watchdog where a hang is not the property). Known findings and fixed findings: /verif/KNOWN_FINDINGS.txt. fix commits in /repo: " + ", ".join(repo_commits("fix:")),
    }
    json.dump(manifest, open(os.path.join(ROOT, "MANIFEST.json"), "w"), indent=1)
    print("claimed:", [c["property_id"] for c in checks])

main()
