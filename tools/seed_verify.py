#!/usr/bin/env python3
"""Confirms a seeded change and runs checks against it.

usage: seed_verify.py <out-dir> <k> <name> <broken-property> [check-id ...]

<out-dir> holds change<k>.patch, demo<k>.rs, notes<k>.md (written by a sub-agent).
Steps (all in a scratch worktree of /repo under /tmp/mut, removed afterwards):
  1. demo passes on the unchanged tree
  2. patch applies; kira's own suite still passes with it
  3. demo fails with it
  4. each listed check (default: the broken property) is run with KVERIF_REPO pointing at the
     scratch tree; exit code 1 + VIOLATION == detected
Result: /verif/seeded/<name>/{patch.diff, demo.rs, notes.md, meta.json}
"""
import json, os, re, shutil, subprocess, sys, time

def sh(cmd, cwd=None, env=None, timeout=3600):
    e = dict(os.environ)
    e["CARGO_NET_OFFLINE"] = "true"
    if env:
        e.update(env)
    p = subprocess.run(cmd, shell=True, cwd=cwd, env=e, capture_output=True, text=True, timeout=timeout)
    return p.returncode, p.stdout + p.stderr

SNAP = os.environ.get("KVERIF_RERUN_SNAP", "/verif")  # frozen copy of /verif to run the checks from (see seeded_rerun.py)

def main():
    out_dir, k, name, broken = sys.argv[1:5]
    checks = [broken] + [c for c in sys.argv[5:] if c != broken]
    wt = f"/tmp/mut/{name}"
    tgt = f"/tmp/mut/{name}-target"
    os.makedirs("/tmp/mut", exist_ok=True)
    sh(f"git -C /repo worktree remove --force {wt}")
    shutil.rmtree(wt, ignore_errors=True)
    rc, o = sh(f"git -C /repo worktree add -q --detach {wt} HEAD")
    assert rc == 0, o
    meta = {"name": name, "breaks": broken, "source": f"sub-agent ({out_dir}, change {k})", "repo_head": sh("git -C /repo rev-parse --short HEAD")[1].strip(), "ran": []}
    try:
        patch = os.path.join(out_dir, f"change{k}.patch")
        demo = os.path.join(out_dir, f"demo{k}.rs")
        shutil.copy(demo, f"{wt}/crates/kira/tests/seed_demo.rs")
        env = {"CARGO_TARGET_DIR": tgt}
        # 1. demo passes without the change
        rc, o = sh("cargo test -p kira --offline --test seed_demo 2>&1 | tail -15", cwd=wt, env=env)
        ok_without = "test result: ok" in o
        meta["ran"].append({"cmd": "cargo test -p kira --offline --test seed_demo (unchanged tree)", "demo_passes": ok_without})
        # 2. patch applies, suite passes
        rc, o = sh(f"git apply {patch}", cwd=wt)
        if rc != 0:
            # context moved by later fix commits: retry with fuzz
            rc, o2 = sh(f"patch -p1 --fuzz=3 --no-backup-if-mismatch < {patch}", cwd=wt)
            o += o2
            meta["applied_with_fuzz"] = rc == 0
        meta["patch_applies"] = rc == 0
        if rc != 0:
            meta["error"] = o[-2000:]
            raise SystemExit
        rc, o = sh("cargo test -p kira --offline --no-fail-fast 2>&1", cwd=wt, env=env)
        # every test binary except seed_demo must be ok
        results = re.findall(r"Running (?:unittests )?(\S+).*?\n(?:.*\n)*?test result: (\w+)\. (\d+) passed; (\d+) failed", o)
        suite_ok = True
        demo_failed = False
        per = []
        for m in re.finditer(r"(Running [^\n]*|Doc-tests [^\n]*)\n(?:(?!Running |Doc-tests )[^\n]*\n)*?test result: (\w+)\. (\d+) passed; (\d+) failed", o):
            head, res, passed, failed = m.group(1), m.group(2), int(m.group(3)), int(m.group(4))
            per.append((head.strip()[:80], res, passed, failed))
            if "seed_demo" in head:
                demo_failed = failed > 0
            elif failed > 0:
                suite_ok = False
        meta["ran"].append({"cmd": "cargo test -p kira --offline --no-fail-fast (with the change)", "existing_suite_passes": suite_ok, "demo_fails": demo_failed, "binaries": per})
        meta["confirmed"] = bool(ok_without and suite_ok and demo_failed)
        # 4. checks
        os.remove(f"{wt}/crates/kira/tests/seed_demo.rs")
        det = {}
        for cid in checks:
            t0 = time.time()
            env2 = {"KVERIF_REPO": wt, "CARGO_TARGET_DIR": f"/tmp/mut/{name}-htarget", "KVERIF_ROOT": f"/tmp/mut/{name}-root"}
            os.makedirs(f"/tmp/mut/{name}-root", exist_ok=True)
            if not os.path.exists(f"/tmp/mut/{name}-root/KNOWN_FINDINGS.txt"):
                shutil.copy(f"{SNAP}/KNOWN_FINDINGS.txt", f"/tmp/mut/{name}-root/KNOWN_FINDINGS.txt")
                shutil.copytree(f"{SNAP}/replays/known", f"/tmp/mut/{name}-root/replays/known", dirs_exist_ok=True)
            rc, o = sh(f"{SNAP}/check {cid} quick", cwd=SNAP, env=env2)
            viol = [l for l in o.splitlines() if l.startswith("VIOLATION") or l.startswith("NOTE")]
            det[cid] = {"exit": rc, "detected": rc == 1, "wall_s": round(time.time() - t0, 1), "lines": viol[:4]}
        meta["checks"] = det
    except SystemExit:
        pass
    finally:
        sh(f"git -C /repo worktree remove --force {wt}")
        shutil.rmtree(wt, ignore_errors=True)
        shutil.rmtree(tgt, ignore_errors=True)
        shutil.rmtree(f"/tmp/mut/{name}-htarget", ignore_errors=True)
        shutil.rmtree(f"/tmp/mut/{name}-root", ignore_errors=True)
        import hashlib
        shutil.rmtree("/tmp/kverif-harness-" + hashlib.md5((wt + "\n").encode()).hexdigest()[:12], ignore_errors=True)
    dest = f"/verif/seeded/{name}"
    os.makedirs(dest, exist_ok=True)
    shutil.copy(os.path.join(out_dir, f"change{k}.patch"), f"{dest}/patch.diff")
    shutil.copy(os.path.join(out_dir, f"demo{k}.rs"), f"{dest}/demo.rs")
    notes = os.path.join(out_dir, f"notes{k}.md")
    if os.path.exists(notes):
        shutil.copy(notes, f"{dest}/notes.md")
        meta["needs"] = open(notes).read()[:1500]
    json.dump(meta, open(f"{dest}/meta.json", "w"), indent=1)
    print(name, "confirmed" if meta.get("confirmed") else "NOT-CONFIRMED", {c: d["detected"] for c, d in meta.get("checks", {}).items()})

main()
