#!/usr/bin/env python3
"""Re-runs the checks against every kept seeded change on /repo's current HEAD.

usage: seeded_rerun.py [name ...]        (default: every directory under /verif/seeded)

One scratch worktree (/tmp/mut/rerun) is reused for all changes so the harness builds
incrementally; it is removed, with its build output, at the end. For each change:
patch applies to HEAD? -> run `./check <id> quick` for the broken property and every check
recorded earlier, with KVERIF_REPO pointing at the scratch tree and a private KVERIF_ROOT.
Results go to seeded/<name>/meta.json under "at_head".
"""
import glob, hashlib, json, os, shutil, subprocess, sys, time

# KVERIF_RERUN_SNAP: a frozen copy of /verif (check, harness, KNOWN_FINDINGS.txt, replays) to run from, so that
# edits made to /verif/harness while a long re-run is going do not reach it half-way
SNAP = os.environ.get("KVERIF_RERUN_SNAP", "/verif")
TAG = os.environ.get("KVERIF_RERUN_TAG", "")  # several re-runs side by side: one tag each
WT = "/tmp/mut/rerun" + TAG
TGT = "/tmp/mut/rerun-htarget" + TAG
ROOT = "/tmp/mut/rerun-root" + TAG

def sh(cmd, cwd=None, env=None, timeout=7200):
    e = dict(os.environ)
    e["CARGO_NET_OFFLINE"] = "true"
    if env:
        e.update(env)
    p = subprocess.run(cmd, shell=True, cwd=cwd, env=e, capture_output=True, text=True, timeout=timeout)
    return p.returncode, p.stdout + p.stderr

def main():
    names = sys.argv[1:] or sorted(os.path.basename(d) for d in glob.glob("/verif/seeded/*") if os.path.isdir(d))
    os.makedirs("/tmp/mut", exist_ok=True)
    sh(f"git -C /repo worktree remove --force {WT}")
    shutil.rmtree(WT, ignore_errors=True)
    rc, o = sh(f"git -C /repo worktree add -q --detach {WT} HEAD")
    assert rc == 0, o
    head = sh("git -C /repo rev-parse --short HEAD")[1].strip()
    try:
        for name in names:
            d = f"/verif/seeded/{name}"
            meta = json.load(open(f"{d}/meta.json"))
            sh("git checkout -q -- . && git clean -fdq", cwd=WT)
            rc, o = sh(f"git apply {d}/patch.diff", cwd=WT)
            fuzz = False
            if rc != 0:
                rc, o2 = sh(f"patch -p1 --fuzz=3 --no-backup-if-mismatch < {d}/patch.diff", cwd=WT)
                fuzz = rc == 0
            at = {"head": head, "patch_applies": rc == 0, "applied_with_fuzz": fuzz, "checks": {}}
            if rc == 0:
                ids = [meta["breaks"]] + [c for c in (meta.get("checks") or {}) if c != meta["breaks"]] + [c for c in meta.get("also_run", []) if c != meta["breaks"]]
                seen = []
                for cid in ids:
                    if cid in seen:
                        continue
                    seen.append(cid)
                    shutil.rmtree(ROOT, ignore_errors=True)
                    os.makedirs(ROOT)
                    shutil.copy(f"{SNAP}/KNOWN_FINDINGS.txt", f"{ROOT}/KNOWN_FINDINGS.txt")
                    shutil.copytree(f"{SNAP}/replays/known", f"{ROOT}/replays/known")
                    t0 = time.time()
                    rc2, o = sh(f"{SNAP}/check {cid} quick", cwd=SNAP, env={"KVERIF_REPO": WT, "CARGO_TARGET_DIR": TGT, "KVERIF_ROOT": ROOT})
                    lines = [l[:400] for l in o.splitlines() if l.startswith("VIOLATION") or l.startswith("NOTE")]
                    at["checks"][cid] = {"exit": rc2, "detected": rc2 == 1, "wall_s": round(time.time() - t0, 1), "lines": lines[:3]}
            if at["patch_applies"]:
                meta["at_head"] = at
                meta.pop("no_longer_applies_at", None)
            else:
                # the code it edits was rewritten by a later commit: keep the last results, note where it stopped applying
                meta["no_longer_applies_at"] = {"head": head}
            json.dump(meta, open(f"{d}/meta.json", "w"), indent=1)
            print(name, "applies" if at["patch_applies"] else "DOES-NOT-APPLY", {c: v["detected"] for c, v in at["checks"].items()}, flush=True)
    finally:
        sh(f"git -C /repo worktree remove --force {WT}")
        shutil.rmtree(WT, ignore_errors=True)
        shutil.rmtree(TGT, ignore_errors=True)
        shutil.rmtree(ROOT, ignore_errors=True)
        shutil.rmtree("/tmp/kverif-harness-" + hashlib.md5((WT + "\n").encode()).hexdigest()[:12], ignore_errors=True)

main()
