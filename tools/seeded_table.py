#!/usr/bin/env python3
"""Rewrites the table of seeded changes in DESIGN.md (between the SEEDED-TABLE markers) from seeded/*/meta.json."""
import glob, json, os, re
ROOT = os.path.dirname(os.path.dirname(os.path.abspath(__file__)))
rows = []
for d in sorted(glob.glob(f"{ROOT}/seeded/*")):
    mp = f"{d}/meta.json"
    if not os.path.exists(mp):
        continue
    m = json.load(open(mp))
    at = m.get("at_head") or {}
    checks = at.get("checks") or m.get("checks") or {}
    head = at.get("head") or m.get("repo_head", "?")
    if m.get("no_longer_applies_at"):
        head = f"{head} (does not apply at {m['no_longer_applies_at'].get('head')}: the edited code was rewritten by a fix)"
    notes = ""
    np_ = f"{d}/notes.md"
    if os.path.exists(np_):
        first = open(np_).read().strip().splitlines()[0]
        notes = re.sub(r"^#+\s*", "", first)
        notes = re.sub(r"^(C\d+\s+)?[Cc]hange\s*\d+\s*[-:]\s*", "", notes)
    det = ", ".join(f"{c}" for c, v in checks.items() if v.get("detected"))
    miss = ", ".join(f"{c}" for c, v in checks.items() if not v.get("detected"))
    if m.get("neutralised_at"):
        det = (det if det != "" else "-") + f" (harmless since fix {m['neutralised_at']['head']}: its own demonstration passes there)"
    rows.append((os.path.basename(d), m.get("breaks", "?"), "yes" if m.get("confirmed") else "no", notes[:110], det or "-", miss or "-", head))
lines = ["| seeded change (directory under `seeded/`) | breaks | confirmed (demo fails, suite passes) | what it is | caught by (quick tier) | also run, silent | checked at `/repo` |", "|---|---|---|---|---|---|---|"]
for r in rows:
    lines.append("| " + " | ".join(r) + " |")
table = "\n".join(lines)
p = f"{ROOT}/DESIGN.md"
s = open(p).read()
a, b = "<!-- SEEDED-TABLE-BEGIN -->", "<!-- SEEDED-TABLE-END -->"
if a in s:
    s = s[: s.index(a) + len(a)] + "\n" + table + "\n" + s[s.index(b):]
else:
    s += f"""
### 10.6 Seeded changes and the checks that catch them

Every change below was produced by a fresh sub-agent that saw only the text of one property and
its own scratch worktree, was confirmed here in another scratch worktree (its demo passes on
the unchanged tree and fails with the change; kira's own suite still passes), and is kept as
`seeded/<name>/{{patch.diff, demo.rs, notes.md, meta.json}}`. `tools/seeded_rerun.py` re-applies
each one to a scratch worktree of the current `/repo` HEAD and runs the quick tier of the broken
property's check plus the checks listed; the table is generated from the `at_head` results
(`tools/seeded_table.py`). "also run, silent" lists neighbouring checks that were tried and did
not fire - they are not expected to, the change breaks another property.

{a}
{table}
{b}
"""
open(p, "w").write(s)
print(len(rows), "rows")
