#!/usr/bin/env python3
"""Audits the witnesses of `fixed:` entries in KNOWN_FINDINGS.txt.

A witness is a tape; when generators change it may come to decode to another case and then
prove nothing. For every fix commit this tool makes a scratch worktree of /repo's HEAD with
that one commit reverted (`git revert -n`), builds the harness against it and replays the
commit's witnesses there: each must FAIL (the defect is back), otherwise the witness is stale.
With --regenerate a stale witness is searched anew on the reverted tree (`kverif find`) and,
if found, written over the old file.

usage: witness_audit.py [--regenerate] [commit ...]
Output: one line per witness; a summary in /verif/replays/known/AUDIT.json.
"""
import json, os, re, shutil, subprocess, sys, time

WT = "/tmp/mut/audit"
TGT = "/tmp/mut/audit-htarget"

def sh(cmd, cwd=None, env=None, timeout=3600):
    e = dict(os.environ)
    e["CARGO_NET_OFFLINE"] = "true"
    if env:
        e.update(env)
    try:
        p = subprocess.run(cmd, shell=True, cwd=cwd, env=e, capture_output=True, text=True, timeout=timeout)
        return p.returncode, p.stdout + p.stderr
    except subprocess.TimeoutExpired as ex:
        return 124, (ex.stdout or b"").decode(errors="replace") if isinstance(ex.stdout, bytes) else (ex.stdout or "")

def _edit(path, fn):
    t = open(path).read()
    t2 = fn(t)
    assert t2 != t, f"manual revert did not change {path}"
    open(path, "w").write(t2)

def _undo_d8e7889(wt):
    def f(t):
        t = t.replace("\t\tlet loop_region = loop_region.filter(|(loop_start, loop_end)| loop_end > loop_start);\n", "")
        t = re.sub(r"\t\tself\.loop_region = self\n\t\t\t\.loop_region\n\t\t\t\.filter\(\|\(loop_start, loop_end\)\| loop_end > loop_start\);\n", "", t)
        return t
    _edit(f"{wt}/crates/kira/src/sound/transport.rs", f)

def _undo_e35db9a(wt):
    _edit(f"{wt}/crates/kira/src/backend/resources.rs", lambda t: re.sub(r"\t\tif self\.arena_controller\.capacity\(\) == 0 \{\n\t\t\treturn Err\(ResourceLimitReached\);\n\t\t\}\n", "", t))

def _undo_ee09491(wt):
    _edit(f"{wt}/crates/kira/src/sound/streaming/sound/decode_scheduler.rs", lambda t: re.sub(r"(crate::verif::point\(\"decode_error\"[^\n]*\n)(\t\t\t\t\t//[^\n]*\n)+\t\t\t\t\tbreak;\n", r"\1", t))

MANUAL = {"d8e7889": _undo_d8e7889, "e35db9a": _undo_e35db9a, "ee09491": _undo_ee09491}

def entries():
    out = []
    for line in open("/verif/KNOWN_FINDINGS.txt"):
        line = line.strip()
        if not line.startswith("fixed:"):
            continue
        m = re.match(r"fixed: property=(\S+) (\S+) (.*) ## signature=(\S+) witness=(\S+)", line)
        if m:
            out.append(dict(prop=m.group(1), commit=m.group(2), what=m.group(3), sig=m.group(4), witness=m.group(5)))
    return out

def main():
    args = sys.argv[1:]
    regen = "--regenerate" in args
    only = [a for a in args if not a.startswith("--")]
    es = entries()
    commits = []
    for e in es:
        if e["commit"] not in commits and (not only or e["commit"] in only):
            commits.append(e["commit"])
    os.makedirs("/tmp/mut", exist_ok=True)
    results = []
    head = sh("git -C /repo rev-parse --short HEAD")[1].strip()
    try:
        for c in commits:
            sh(f"git -C /repo worktree remove --force {WT}")
            shutil.rmtree(WT, ignore_errors=True)
            rc, o = sh(f"git -C /repo worktree add -q --detach {WT} HEAD")
            assert rc == 0, o
            rc, o = sh(f"git revert -n {c}", cwd=WT)
            if rc != 0 and c in MANUAL:
                # later commits touched the same lines: undo the fix by hand
                sh("git revert --abort; git checkout -q -- . ; git clean -fdq", cwd=WT)
                try:
                    MANUAL[c](WT)
                    rc = 0
                except Exception as ex:
                    rc, o = 1, str(ex)
            if rc != 0:
                for e in [e for e in es if e["commit"] == c]:
                    results.append(dict(e, status="revert-does-not-apply"))
                    print(c, e["witness"], "REVERT-DOES-NOT-APPLY", flush=True)
                continue
            env = {"KVERIF_REPO": WT, "CARGO_TARGET_DIR": TGT, "KVERIF_ROOT": "/verif"}
            rc, o = sh("/verif/check --build", cwd="/verif", env=env)
            if rc != 0:
                for e in [e for e in es if e["commit"] == c]:
                    results.append(dict(e, status="build-failed"))
                    print(c, e["witness"], "BUILD-FAILED", flush=True)
                continue
            binary = f"{TGT}/release/kverif"
            for e in [e for e in es if e["commit"] == c]:
                w = f"/verif/{e['witness']}"
                rc, o = sh(f"timeout 60 {binary} replay {e['prop']} {w}", cwd="/verif", env={"KVERIF_ROOT": "/verif"})
                sigs = re.findall(r"sig=(\S+)", o)
                if rc == 124:
                    status = "reproduces (hang)"
                elif rc == 1 and (e["sig"] in sigs or any(s.startswith(e["sig"]) for s in sigs)):
                    status = "reproduces"
                elif rc == 1:
                    status = "fails-differently: " + ",".join(sigs[:2])
                else:
                    status = "STALE (passes with the fix reverted)"
                if status.startswith("STALE") and regen:
                    tmp = f"/tmp/mut/audit-new-{os.path.basename(w)}"
                    rc2, o2 = sh(f"timeout 1500 {binary} find {e['prop']} {e['sig']} {tmp} 200000", cwd="/verif", env={"KVERIF_ROOT": "/verif"})
                    if os.path.exists(tmp):
                        shutil.copy(tmp, w)
                        os.remove(tmp)
                        status = "regenerated"
                    else:
                        status = "STALE, not found again"
                results.append(dict(e, status=status))
                print(c, e["witness"], status, flush=True)
    finally:
        sh(f"git -C /repo worktree remove --force {WT}")
        shutil.rmtree(WT, ignore_errors=True)
        shutil.rmtree(TGT, ignore_errors=True)
        for p in os.listdir("/tmp"):
            if p.startswith("kverif-harness-"):
                shutil.rmtree(os.path.join("/tmp", p), ignore_errors=True)
    # results of commits that were not audited this time are kept
    new = [{k: r[k] for k in ("prop", "commit", "sig", "witness", "status")} for r in results]
    try:
        kept = [r for r in json.load(open("/verif/replays/known/AUDIT.json"))["results"] if r["witness"] not in {x["witness"] for x in new}]
    except Exception:
        kept = []
    json.dump({"repo_head": head, "time": time.strftime("%Y-%m-%d %H:%M"), "results": kept + new}, open("/verif/replays/known/AUDIT.json", "w"), indent=1)

main()
