#!/usr/bin/env python3
"""Brings the recorded "case" text of the witness files up to date with how their tapes decode now.

Only done where the witness is known to still aim at its finding: a `known:` witness must
reproduce its signature on /repo's HEAD; a `fixed:` witness must be listed as reproducing (or
regenerated) in replays/known/AUDIT.json (tools/witness_audit.py). Anything else is reported.
"""
import json, os, re, subprocess
ROOT = "/verif"
BIN = f"{ROOT}/harness/target/release/kverif"
audit = {}
try:
    for r in json.load(open(f"{ROOT}/replays/known/AUDIT.json"))["results"]:
        audit[r["witness"]] = r["status"]
except Exception:
    pass
for line in open(f"{ROOT}/KNOWN_FINDINGS.txt"):
    line = line.strip()
    m = re.match(r"(known|fixed): property=(\S+) .*signature=(\S+) witness=(\S+)", line)
    if not m:
        continue
    kind, prop, sig, wit = m.groups()
    path = f"{ROOT}/{wit}"
    try:
        p = subprocess.run(f"timeout 20 {BIN} replay {prop} {path}", shell=True, capture_output=True, text=True, env=dict(os.environ, KVERIF_ROOT=ROOT))
    except Exception as e:
        print(wit, "replay failed", e); continue
    out = p.stdout + p.stderr
    # the decoded case may span many lines; it ends where the verdict lines begin
    # (a case may describe itself more than once, each time more precisely: the last one counts)
    cases = list(re.finditer(r"^case: (.*?)\n(?=case: |PASS |FAIL |VIOLATION |KNOWN-FINDING|NOTE |\Z)", out, re.M | re.S))
    case = cases[-1] if cases else None
    sigs = re.findall(r"sig=(\S+)", out)
    if kind == "known":
        ok = p.returncode == 124 or (p.returncode == 1 and sig in sigs)
    else:
        ok = audit.get(wit, "").startswith(("reproduces", "regenerated")) and p.returncode == 0
    if not ok:
        print(f"{wit}: NOT refreshed ({kind}, exit {p.returncode}, sigs {sigs[:2]}, audit {audit.get(wit)})")
        continue
    if not case:
        continue
    j = json.load(open(path))
    if j.get("case") != case.group(1) and not str(j.get("case", "")).startswith("(case did not return"):
        j["case"] = case.group(1)
        json.dump(j, open(path, "w"), indent=2)
        print(f"{wit}: case text refreshed")
